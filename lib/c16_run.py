"""C16 worker: runs a list of generated contracts through the real run_contract in ONE process (cache on / cache off
in alternating order), with the monitor of lib/c16_mon installed, and decides the obligations.

A job is picklable; the worker returns Recorder events + summaries (see props/C16.py).
"""

from __future__ import annotations

import gc
import os
import time
import traceback

from lib import c16_gen, c16_mon, c16_stub, common, e2e


def solver_kwargs(item, tmp):
    s = item["solver"]
    if s == "yices":
        return {"solver": "yices"}, "yices", None
    if s == "z3":
        return {"solver_command": "/venv/bin/z3"}, "z3", None
    if s.startswith("stub"):
        d = os.path.join(tmp, f"stub_{item['fam']}_{item['seed']}_{abs(hash(s)) % 10 ** 6}")
        modes = item.get("modes") or ["real"]
        fmts = item.get("formats") or ["err"]
        cmd = c16_stub.write(d, modes, fmts, seed=item["seed"])
        return {"solver_command": cmd}, "stub", d
    raise ValueError(s)


def build(item):
    if item["fam"] == "mixed":
        return c16_gen.mixed(item["seed"])
    return c16_gen.make(item["fam"], item["seed"], **dict(item.get("kw", {})))


def fn_signatures(outcome, events):
    """per test function: (exitcode, #counterexamples, sorted (path_id, solver verdict) list)"""
    outs = {e["sig"]: sorted(e["outputs"]) for e in events if e["k"] == "end"}
    sig = {}
    for r in outcome.results:
        sig[r.name] = {"exitcode": r.exitcode, "num_models": r.num_models, "paths": r.num_paths[0] if r.num_paths else None,
                       "outputs": outs.get(r.name)}
    return sig


def model_names(outcome):
    """counterexample variable names per function, modulo the uid suffix"""
    import re

    out = {}
    for r in outcome.results:
        names = set()
        for m in r.models or []:
            for k in getattr(m, "model", {}) or {}:
                names.add(re.sub(r"_[0-9a-f]{7}_", "_#_", k))
        out[r.name] = sorted(names)
    return out


def one_run(spec, cache, item, skw, stubdir):
    if stubdir:
        c16_stub.reset(stubdir)
    c16_mon.install(policy=item.get("policy", "all"), gc_every=item.get("gc_every", 6), seed=item["seed"])
    c16_mon.take_events()
    t0 = time.time()
    # branching time-out 1 s: z3 decides every branch query of these programs, so whether a branch "times out" is decided
    # by the harness policy alone (the default 1 ms makes exploration itself nondeterministic)
    o = e2e.run(spec, cache_solver=cache, solver_threads=item.get("threads", 1), early_exit=False,
                solver_timeout_branching=1.0, solver_timeout_assertion=item.get("assert_timeout", 25.0), **skw)
    ev = c16_mon.take_events()
    st = c16_mon.stats()
    o.ctx = None
    gc.collect()
    return o, ev, st, time.time() - t0


def do_item(rec, item, tmp, timeout):
    spec, desc = build(item)
    skw, sname, stubdir = solver_kwargs(item, tmp)
    fam = item["fam"]
    key_sfx = f"{sname}/{fam}"
    tag = f"{spec.name}/{sname}"
    order = item.get("order", ("on", "off"))
    runs = {}
    summ = {"tag": tag, "fam": fam, "seed": item["seed"], "solver": sname, "order": "-".join(order), "desc": desc[:2]}
    pend_all = []
    t_item = time.time()
    if item.get("prelude"):
        # another contract with the SAME contract and function names runs first in this process with the cache on
        # (a Foundry project may hold same-named test contracts in different files); whatever it learned must not
        # answer the queries of the contract under test
        pre, _ = build(item["prelude"])
        assert pre.name == spec.name
        o, ev, st, dt = one_run(pre, True, item, skw, stubdir)
        if o.exception is not None:
            rec.harness_error(f"{tag}: prelude run_contract raised {o.exception!r}")
            return summ
        summ["t_prelude"] = round(dt, 1)
        del o, ev
        gc.collect()
    for mode in order:
        o, ev, st, dt = one_run(spec, mode == "on", item, skw, stubdir)
        if o.exception is not None:
            rec.harness_error(f"{tag}: run_contract raised {o.exception!r}")
            return summ
        runs[mode] = (o, fn_signatures(o, ev), model_names(o))
        summ[f"t_{mode}"] = round(dt, 1)
        summ[f"branch_{mode}"] = st
        if mode == "on":
            t_an = time.time()
            s, pending = c16_mon.analyze(ev, rec, tag, key_sfx, timeout=timeout)
            summ.update(s)
            summ["t_analyze"] = round(time.time() - t_an, 1)
            pend_all = pending
            if stubdir:
                summ["stub_log"] = [" ".join(x[1:3]) for x in c16_stub.read_log(stubdir)][-40:]
        del ev
        gc.collect()
    if item.get("prelude"):
        # whether a leaked core bites depends on which AST ids z3 re-issues: give it more histories (the prelude again,
        # then the contract under test, cache on and off -- check_unsat_cores is consulted in both modes)
        for rep in range(item.get("reps", 3)):
            o, ev, st, dt = one_run(pre, True, item, skw, stubdir)
            del o, ev
            gc.collect()
            for mode in ("on", "off"):
                o, ev, st, dt = one_run(spec, mode == "on", item, skw, stubdir)
                if o.exception is not None:
                    rec.harness_error(f"{tag}: run_contract raised {o.exception!r} (repetition {rep})")
                    return summ
                s, pending = c16_mon.analyze(ev, rec, tag, key_sfx + f"/rep{rep}{mode}", timeout=timeout)
                summ[f"hits_rep{rep}{mode}"] = s.get("hits")
                pend_all = pend_all + pending
                sig = fn_signatures(o, ev)
                for fn, a in sig.items():
                    b = runs["off"][1].get(fn)
                    if b is not None and (a["exitcode"], a["num_models"]) == (b["exitcode"], b["num_models"]):
                        rec.ok("transparency", f"{key_sfx}/rep{rep}{mode}/{fn.split('(')[0][:9]}", nontrivial=False)
                    elif not pending:
                        rec.inconc("transparency", f"{key_sfx}/rep{rep}{mode}", f"{fn}: result differs from the first cache-off run but the monitor flagged nothing")
                del o, ev
                gc.collect()
    # ---- monitor violations: replay on the real solve_end_to_end ----
    seen = set()
    for p in pend_all:
        k = (p["cls"], p.get("fn"), tuple(p.get("core") or ()))
        if k in seen:
            continue
        seen.add(k)
        if p["cls"] == "store-valid" and p.get("solver_fault"):
            # the solver itself (not halmos) listed a non-core; with the real solvers/stub this is outside the contract
            rec.inconc("store-valid", key_sfx, "solver reply is not an unsat core (solver fault, not halmos)")
            continue
        try:
            w = c16_mon.replay_crafted(p, solver="yices")
        except Exception:
            rec.harness_error(f"{tag}: replay of {p['cls']} crashed: {traceback.format_exc().splitlines()[-1]}")
            continue
        w.update(contract=spec.name, family=fam, seed=item["seed"], solver=sname, item={k: v for k, v in item.items()})
        if w.get("reproduced"):
            what = {
                "hit-unsat": "cache hit on a SATISFIABLE query: solve_end_to_end answers unsat from the cache, the solver says sat",
                "hit-core": "cache hit through a core whose formulas (in the hitting query) are satisfiable",
                "store-valid": "a formula set that is satisfiable was stored as an unsat core",
                "id-stable": "an id of a stored core now denotes a different formula; the core under its current denotation is satisfiable",
                "empty-core": "an empty unsat core is in the cache: it matches every query",
                "parse-faithful": "parse_unsat_core returned a list different from the solver's get-unsat-core reply",
            }[p["cls"]]
            rec.violation(p["cls"], f"{p['cls']}/{key_sfx}", what, w)
        else:
            rec.inconc(p["cls"], key_sfx, f"monitor flagged but replay did not reproduce: {str(w)[:300]}")
    # ---- transparency ----
    if len(runs) == 2:
        on, off = runs["on"], runs["off"]
        hits_by_fn = summ.get("hits", 0)
        for fn in sorted(set(on[1]) | set(off[1])):
            a, b = on[1].get(fn), off[1].get(fn)
            key = f"{key_sfx}/{'-'.join(order)}"
            if a is None or b is None:
                rec.harness_error(f"{tag}: {fn} missing in one of the runs")
                continue
            verdicts = {v for _, v in (a["outputs"] or [])} | {v for _, v in (b["outputs"] or [])}
            if verdicts & {"unknown", "err"}:
                rec.inconc("transparency", key, f"{fn}: solver unknown/err in one run")
                continue
            if a["paths"] != b["paths"] or [p for p, _ in a["outputs"] or []] != [p for p, _ in b["outputs"] or []]:
                # path exploration itself differed (it does not depend on the cache): not comparable
                rec.inconc("transparency", key, f"{fn}: exploration differed between the runs ({a['paths']} vs {b['paths']} paths)")
                continue
            same = a == b and on[2].get(fn) == off[2].get(fn)
            if same:
                rec.ok("transparency", key + f"/{fn.split('(')[0][:9]}", nontrivial=hits_by_fn > 0)
                continue
            # replay: run both modes again
            o2, ev2, _, _ = one_run(spec, True, item, skw, stubdir)
            a2 = fn_signatures(o2, ev2).get(fn)
            o3, ev3, _, _ = one_run(spec, False, item, skw, stubdir)
            b2 = fn_signatures(o3, ev3).get(fn)
            w = {"contract": spec.name, "family": fam, "seed": item["seed"], "solver": sname, "function": fn,
                 "cache_on": a, "cache_off": b, "cache_on_again": a2, "cache_off_again": b2, "desc": desc,
                 "item": dict(item)}
            if a2 != b2 and b2 == b:
                rec.violation("transparency", f"transparency/{key_sfx}",
                              f"{fn}: verdict / counterexample set differs with the cache on "
                              f"(on: exit {a['exitcode']}, {a['num_models']} cex; off: exit {b['exitcode']}, {b['num_models']} cex)", w)
            else:
                rec.inconc("transparency", key, f"{fn}: difference did not reproduce ({a} vs {b})")
    summ["ok"] = True
    summ["t_total"] = round(time.time() - t_item, 1)
    return summ


def tune_malloc():
    """z3's mk_context (one per Path.to_smt2 call in halmos) allocates one huge block; glibc serves it by mmap and
    returns it on free, so EVERY query pays fresh page faults (0.5-2.5 s each on this VM, measured).  Keeping freed
    memory in the heap makes it ~1 ms.  Allocator tuning of the harness process only; no effect on halmos' logic."""
    try:
        import ctypes

        libc = ctypes.CDLL("libc.so.6")
        libc.mallopt(-3, 1 << 30)  # M_MMAP_THRESHOLD
        libc.mallopt(-1, (1 << 31) - 1)  # M_TRIM_THRESHOLD
        libc.mallopt(-2, 1 << 28)  # M_TOP_PAD
    except Exception:
        pass


def worker(job):
    tune_malloc()
    rec = common.Recorder(tier=job.get("tier", "quick"), seed=job.get("seed", 0))
    sums = []
    t_end = job["deadline"]
    done = 0
    try:
        for item in job["items"]:
            if time.time() > t_end:
                break
            try:
                sums.append(do_item(rec, item, job["tmp"], job.get("timeout", 20.0)))
                done += 1
            except Exception:
                rec.harness_error(f"worker {job['wid']} item {item}: {traceback.format_exc()[-400:]}")
    finally:
        c16_mon.uninstall()
    return {"events": rec.events, "summaries": sums, "done": done, "planned": len(job["items"])}
