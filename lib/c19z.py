"""C19 route Z helpers.

Z1  contracts whose code is [concrete prefix][z3-symbolic chunk][optional concrete tail]: the real Contract methods are
    called and the z3 terms / sets they return are compared by the solver with a reference that is *symbolic in the code
    bytes* (Yellow Paper D_J unfolded over 8-bit terms), for all values of the symbolic bytes.
Z2  jump programs through the real SEVM: concrete code via lib/progcheck (refevm is the oracle), symbolic jump targets
    (`symbolic_jump`) and symbolic PUSH data via obligations built here.
Nothing here models halmos: every impl-side term is produced by /repo's code at run time.
"""

from __future__ import annotations

import z3

from halmos.bytevec import ByteVec
from halmos.contract import Contract

from lib import portfolio

JUMPDEST = 0x5B


# --------------------------------------------------------------------------- symbolic-in-the-code reference
def b8(v: int):
    return z3.BitVecVal(v, 8)


def code_terms(chunks) -> list:
    """chunks: list of bytes | z3 BitVec (8*m bits) -> list of 8-bit terms, one per code byte"""
    out = []
    for ch in chunks:
        if isinstance(ch, (bytes, bytearray)):
            out += [b8(x) for x in ch]
        else:
            m = ch.size() // 8
            out += [z3.Extract(8 * (m - 1 - i) + 7, 8 * (m - 1 - i), ch) for i in range(m)]
    return out


def mk_contract(chunks) -> Contract:
    """the object under test: a real Contract over a ByteVec with one chunk per item"""
    return Contract(ByteVec([ch for ch in chunks if not isinstance(ch, (bytes, bytearray)) or len(ch)]))


def is_push(b):
    return z3.And(z3.UGE(b, b8(0x60)), z3.ULE(b, b8(0x7F)))


def insn_len_term(b):
    """N(i, w) - i as a 16-bit term"""
    return z3.If(is_push(b), z3.ZeroExt(8, b) - z3.BitVecVal(0x5E, 16), z3.BitVecVal(1, 16))


def boundaries(code: list) -> list:
    """boundary[j] (Bool term): offset j is reached by the instruction scan from 0 (j in 0..len+33)"""
    n = len(code)
    bnd = [z3.BoolVal(True)] + [z3.BoolVal(False)] * (n + 33)
    for i in range(n):
        if z3.is_false(z3.simplify(bnd[i])):
            continue
        ln = z3.simplify(insn_len_term(code[i]))
        for step in range(1, 34):
            hit = z3.simplify(z3.And(bnd[i], ln == z3.BitVecVal(step, 16)))
            if not z3.is_false(hit):
                bnd[i + step] = z3.simplify(z3.Or(bnd[i + step], hit))
    return bnd


def jumpdest_terms(code: list) -> list:
    """isjd[d] (Bool term over the symbolic code bytes) for d in range(len(code))"""
    bnd = boundaries(code)
    return [z3.simplify(z3.And(bnd[d], code[d] == b8(JUMPDEST))) for d in range(len(code))]


def concrete_chain(code: list) -> list:
    """instruction boundaries reached from 0 through concrete opcodes only (the part of the code whose decoding does not
    depend on the symbolic bytes); stops at the first symbolic opcode"""
    out, i = [], 0
    while i < len(code):
        w = z3.simplify(code[i])
        if not z3.is_bv_value(w):
            break
        out.append(i)
        w = w.as_long()
        i += (w - 0x5E) if 0x60 <= w <= 0x7F else 1
    return out


def ref_byte_term(code: list, x: int):
    return code[x] if 0 <= x < len(code) else b8(0)


def ref_read_term(code: list, start: int, size: int):
    """size > 0: big-endian concatenation of code[start:start+size], zero beyond the end"""
    bs = [ref_byte_term(code, start + i) for i in range(size)]
    return bs[0] if size == 1 else z3.Concat(*bs)


def ref_operand_term(code: list, pc: int, n: int):
    t = ref_read_term(code, pc + 1, n)
    return t if n == 32 else z3.ZeroExt(256 - 8 * n, t)


def to_term(v, nbytes: int):
    """bytes | int | z3 term | HalmosBitVec -> z3 term of 8*nbytes bits (None if the shape is unexpected)"""
    if hasattr(v, "as_z3"):
        v = v.as_z3()
    if isinstance(v, (bytes, bytearray)):
        if len(v) != nbytes:
            return None
        return z3.BitVecVal(int.from_bytes(v, "big"), 8 * nbytes)
    if isinstance(v, int):
        return z3.BitVecVal(v, 8 * nbytes)
    if z3.is_bv(v):
        return v if v.size() == 8 * nbytes else None
    return None


def complete(chunks, model: dict) -> bytes:
    """concrete code for a witness (symbolic chunks take their model value, 0 if absent)"""
    out = b""
    for ch in chunks:
        if isinstance(ch, (bytes, bytearray)):
            out += bytes(ch)
        else:
            m = ch.size() // 8
            out += int(model.get(str(ch), 0)).to_bytes(m, "big")
    return out


def eval_int(term, model: dict):
    v = portfolio.eval_model(term, model)
    return v.as_long() if z3.is_bv_value(v) else (True if z3.is_true(v) else False if z3.is_false(v) else None)


# --------------------------------------------------------------------------- Z1 program list
def ret(v: int) -> bytes:
    """PUSH1 v PUSH0 MSTORE PUSH1 32 PUSH0 RETURN"""
    return bytes([0x60, v, 0x5F, 0x52, 0x60, 0x20, 0x5F, 0xF3])


Z1_PROGRAMS = {
    # name: code.  Every decoding class appears: PUSH1/2/3/4/32, PUSH0, 0x5b inside PUSH data, JUMPDEST right after PUSH
    # data, JUMPDEST at 0, back-to-back PUSHes, truncated trailing PUSH, implicit STOP.
    "jump-over-data": bytes.fromhex("6005565b615b5b5b00"),
    "jd0-push0": bytes.fromhex("5b5f5b605b5b50"),
    "push3-trunc": bytes.fromhex("5b60015b625b5b"),
    "push4-then-jd": bytes.fromhex("635b5b5b5b5b6000"),
    "b2b-push": bytes.fromhex("605b615b60605b5b00"),
    "push2-last": bytes.fromhex("5b5b615b"),
    "jumpi": bytes.fromhex("6001600757fe5b5b605b00"),
    "push32": bytes.fromhex("5b7f" + "5b" * 32 + "5b60"),
    "push32-trunc": bytes.fromhex("5b5b7f" + "5b" * 20),
    "push31-32": bytes.fromhex("7e" + "5b" * 31 + "5b7f" + "60" * 32 + "5b"),
}
