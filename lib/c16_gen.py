"""C16: generator of test contracts with MANY assertion-violating candidate paths per function.

A test function is a decision tree over calldata words x0..x3 (and, in one family, a value-bearing call).  Inner nodes branch on a condition from a pool that contains *conflicting groups* (range conflicts, order
cycles, parity conflicts, linear-sum conflicts, ...), so that different leaves are infeasible for different reasons
(different unsat cores), other leaves are feasible, and sibling leaves share prefixes (so a core learned on one leaf is
a subset of later queries).  Leaves are `Panic(1)` (a candidate assertion violation) or `STOP`.

The harness lets the branch-feasibility check "time out" (see lib/c16_mon.BranchTimeout), so infeasible prefixes are
not pruned during exploration and reach the assertion solver -- exactly the situation the unsat-core cache is for.

Everything is seeded; the (family, seed) pair names the program in evidence and replay files.
"""

from __future__ import annotations

import random

from lib import e2e

NARGS = 4


def A(i):
    return e2e.arg(i)


# ---- condition library: name -> item list leaving 0/1 -------------------------------------------------------------
def c_lt(i, c):
    return (f"x{i}<{c}", [("PUSH", c)] + A(i) + ["LT"])


def c_gt(i, c):
    return (f"x{i}>{c}", [("PUSH", c)] + A(i) + ["GT"])


def c_eq(i, c):
    return (f"x{i}=={c}", A(i) + [("PUSH", c), "EQ"])


def c_ltv(i, j):
    return (f"x{i}<x{j}", A(j) + A(i) + ["LT"])


def c_ltm(i, j, m=0xFFFF):
    """(x_i & m) < (x_j & m): order conflicts on 16 bits (a 256-bit order cycle mixed with other constraints takes
    yices > 100 s -- measured -- which would only produce solver time-outs)"""
    return (f"x{i}&m<x{j}&m", A(j) + [("PUSH", m), "AND"] + A(i) + [("PUSH", m), "AND", "LT"])


def c_eqv(i, j):
    return (f"x{i}==x{j}", A(i) + A(j) + ["EQ"])


def c_succ(i, j):
    return (f"x{j}==x{i}+1", A(i) + [("PUSH", 1), "ADD"] + A(j) + ["EQ"])


def c_bits(i, m, v):
    return (f"x{i}&{m}=={v}", A(i) + [("PUSH", m), "AND", ("PUSH", v), "EQ"])


def c_sum(i, j, c):
    return (f"x{i}+x{j}=={c}", A(i) + A(j) + ["ADD", ("PUSH", c), "EQ"])


def c_mul(i, j, c):
    """x_i * x_j == c: halmos abstracts the product (f_evm_bvmul_256); infeasibility shows only after refinement"""
    return (f"x{i}*x{j}=={c}", A(i) + A(j) + ["MUL", ("PUSH", c), "EQ"])


def c_sgt(i, c):
    return (f"x{i}s>{c}", [("PUSH", c)] + A(i) + ["SGT"])


def c_shr(i, k, c):
    return (f"x{i}>>{k}=={c}", A(i) + [("PUSH", k), "SHR", ("PUSH", c), "EQ"])


def pool(rng: random.Random) -> list:
    """a pool of 5-8 conditions containing at least two conflicting groups"""
    i, j, k = rng.sample(range(NARGS), 3)
    a = rng.choice([3, 5, 9, 100, 2 ** 64, 2 ** 200])
    groups = [
        [c_lt(i, a), c_gt(i, a + rng.choice([0, 1, 5])), c_eq(i, a + 1)],  # range conflicts
        [c_succ(i, j), c_eqv(i, j), c_ltv(j, i)],  # y==x+1 & y==x ; y==x+1 & y<x (sat only by wrap-around!)
        [c_ltm(i, j), c_ltm(j, k), c_ltm(k, i)],  # order cycle: 3-element core
        [c_bits(i, 1, 0), c_bits(i, 3, 1), c_bits(i, 3, 2)],  # parity
        [c_sum(i, j, 10), c_eq(i, 3), c_eq(j, 8), c_eq(j, 7)],  # linear: 3-element core / feasible variant
        [c_eq(k, 7), c_gt(k, 6), c_lt(k, 7)],
        [c_sgt(j, 0), c_gt(j, 2 ** 255), c_lt(j, 4)],  # signed vs unsigned
        [c_shr(k, 8, 1), c_lt(k, 256), c_gt(k, 511)],
    ]
    g = rng.sample(groups, rng.choice([2, 2, 3]))
    conds = [c for grp in g for c in grp]
    rng.shuffle(conds)
    return conds[: rng.choice([5, 6, 7, 8])]


# ---- trees ---------------------------------------------------------------------------------------------------------
def rand_tree(rng, conds, depth, used=(), p_leaf=0.15, p_panic=0.7):
    avail = [c for c in conds if c[0] not in used]
    if depth == 0 or not avail or (used and rng.random() < p_leaf):
        return ("panic",) if rng.random() < p_panic else ("stop",)
    c = rng.choice(avail)
    u = (*used, c[0])
    return ("if", c, rand_tree(rng, conds, depth - 1, u, p_leaf, p_panic),
            rand_tree(rng, conds, depth - 1, u, p_leaf, p_panic))


def spine(conds, leaf_guard=None, end=("panic",)):
    """c1 ? (c2 ? (... end) : leaf2) : leaf1 -- every off-spine leaf panics (optionally behind a guard)"""
    t = end
    for k in range(len(conds) - 1, -1, -1):
        off = ("panic",) if leaf_guard is None else ("if", leaf_guard(k), ("panic",), ("stop",))
        t = ("if", conds[k], t, off)
    return t


def emit(t, ctr=None) -> list:
    ctr = ctr if ctr is not None else [0]
    tag = t[0]
    if tag == "panic":
        return e2e.panic(1)
    if tag == "stop":
        return ["STOP"]
    if tag == "seq":  # ("seq", items, tree): straight-line code, then the tree
        return list(t[1]) + emit(t[2], ctr)
    if tag == "if":
        ctr[0] += 1
        lab = f"t{ctr[0]}"
        return list(t[1][1]) + [("PUSHL", lab), "JUMPI"] + emit(t[3], ctr) + [("LABEL", lab)] + emit(t[2], ctr)
    raise ValueError(tag)


def count(t):
    """(#inner nodes, #panic leaves)"""
    if t[0] == "if":
        a, b = count(t[2]), count(t[3])
        return (1 + a[0] + b[0], a[1] + b[1])
    if t[0] == "seq":
        return count(t[2])
    return (0, 1 if t[0] == "panic" else 0)


def describe(t) -> str:
    if t[0] == "if":
        return f"({t[1][0]} ? {describe(t[2])} : {describe(t[3])})"
    if t[0] == "seq":
        return f"[code] {describe(t[2])}"
    return t[0][0].upper()


SIG4 = "(uint256,uint256,uint256,uint256)"


# ---- families ------------------------------------------------------------------------------------------------------
def conflict_groups(rng):
    """jointly-unsat condition groups (each for a different reason) + for each a `decoy`: a condition compatible with
    the group's first member (so the first member alone, or with the decoy, is feasible)"""
    i, j, k = rng.sample(range(NARGS), 3)
    a = rng.choice([3, 5, 9, 100, 2 ** 64, 2 ** 200])
    d = rng.choice([0, 1, 5])
    return [
        ([c_lt(i, a), c_gt(i, a + d)], c_gt(i, 0)),  # range
        ([c_succ(i, j), c_eqv(i, j)], c_gt(j, 4)),  # y==x+1 & y==x
        ([c_ltm(i, j), c_ltm(j, k), c_ltm(k, i)], c_ltm(i, k)),  # order cycle (3-core)
        ([c_bits(i, 1, 0), c_bits(i, 3, 1)], c_bits(i, 3, 2)),  # parity
        ([c_sum(i, j, 10), c_eq(i, 3), c_eq(j, 8)], c_eq(j, 7)),  # linear (3-core)
        ([c_eq(k, 7), c_lt(k, 7)], c_gt(k, 6)),
        ([c_sgt(j, 0), c_gt(j, 2 ** 255)], c_lt(j, 4)),  # signed vs unsigned
        ([c_shr(k, 8, 1), c_lt(k, 256)], c_gt(k, 300)),
        ([c_succ(i, j), c_ltv(j, i), c_lt(i, a)], c_lt(i, a)),  # y==x+1 & y<x needs wrap-around, excluded by x<a
        ([c_mul(i, j, 6), c_eq(i, 2), c_eq(j, 4)], c_eq(j, 3)),  # unsat only after refinement of f_evm_bvmul
    ]


def under(rng, extra, depth):
    """small all-Panic-ish subtree placed below an (in)feasible prefix"""
    if depth == 0 or not extra:
        return ("panic",) if rng.random() < 0.85 else ("stop",)
    c = extra[0]
    return ("if", c, under(rng, extra[1:], depth - 1), under(rng, extra[1:], depth - 1))


def conflict_tree(rng, groups):
    """neutral ? [group A in sequence -> subtree of Panics (infeasible, core A)] : [first of A + decoy -> Panics
    (feasible, shares an id with core A)] ; else-branches: another group / leaves"""
    (ga, deca), (gb, decb) = rng.sample(groups, 2)
    free = [c_eq(3, 7), c_bits(2, 1, 1), c_gt(1, 9), c_bits(0, 4, 4)]
    rng.shuffle(free)
    neutral, extra = free[0], free[1:3]

    def seq(conds, below, off):
        t = below
        for q in range(len(conds) - 1, -1, -1):
            t = ("if", conds[q], t, off() if callable(off) else off)
        return t

    def leaf():
        return ("panic",) if rng.random() < 0.5 else ("stop",)

    ga2 = list(ga)
    if rng.random() < 0.4:
        rng.shuffle(ga2)
    infeasible = seq(ga2, under(rng, extra, rng.choice([1, 2])), leaf)
    decoy = seq([ga[0], deca], under(rng, extra, 1), leaf)
    second = seq(gb, under(rng, extra[:1], 1), leaf)
    other = ("if", extra[0], decoy, second) if rng.random() < 0.6 else decoy
    return ("if", neutral, infeasible, other) if rng.random() < 0.5 else ("if", neutral, other, infeasible)


def fam_tree(rng, nfun=3, depth=4):
    fns, desc = [], []
    for k in range(nfun):
        if rng.random() < 0.75:
            t = conflict_tree(rng, conflict_groups(rng))
        else:
            conds = pool(rng)
            t = rand_tree(rng, conds, rng.choice([depth - 1, depth]))
            if count(t)[1] < 2:
                t = ("if", conds[0], ("panic",), ("if", conds[1], ("panic",), ("panic",)))
        fns.append((f"check_t{k}{SIG4}", emit(t)))
        desc.append(describe(t))
    return fns, desc


def fam_twin(rng, nfun=2):
    """two subtrees of identical shape over disjoint variables (identical z3 allocation pattern: freed ids of the first
    subtree are the ones handed out while the second is built); one infeasible, one feasible"""
    fns, desc = [], []
    for k in range(nfun):
        a = rng.choice([5, 9, 100])
        d = rng.choice([1, 5])

        def sub(i, j, feas):
            lo = c_lt(i, a)
            hi = c_gt(i, a + d) if not feas else c_gt(i, 1)
            r = c_eq(j, 7) if rng.random() < 0.5 else c_bits(j, 1, 1)
            return ("if", lo, ("if", hi, ("if", r, ("panic",), ("panic",)), ("if", r, ("panic",), ("stop",))), ("stop",))

        first_feas = rng.random() < 0.5
        sel = c_bits(3, 1, 1)
        t = ("if", sel, sub(0, 1, first_feas), sub(2, 1, not first_feas))
        if rng.random() < 0.5:
            t = ("if", sel, t[3], t[2])
        fns.append((f"check_w{k}{SIG4}", emit(t)))
        desc.append(describe(t))
    return fns, desc


def fam_chain(rng, n=None, nfun=1):
    """long order cycle over m DISTINCT calldata words: x0<x1, x1<x2, ..., x_{m-1}<x0.  Only ALL m conditions together
    are infeasible (the core is the whole cycle: a long core, printed on several lines by yices/cvc5); every proper
    subset is feasible.  The function has one spine carrying the full cycle (infeasible Panic at its end) and three
    spines that omit one condition each (feasible Panic at the end), selected by two extra words; off-spine leaves
    STOP (a few Panic).  A cache that stores only part of the long core answers the feasible spines `unsat`."""
    fns, desc = [], []
    for k in range(nfun):
        m = n or rng.choice([6, 12, 24, 30])
        conds = [c_ltv(q, (q + 1) % m) for q in range(m)]
        order = list(range(m))
        rng.shuffle(order)
        conds = [conds[q] for q in order]
        drops = rng.sample(range(m), 3)

        def sp(omit):
            cs = [c for q, c in enumerate(conds) if q != omit]
            t = ("panic",)
            for q in range(len(cs) - 1, -1, -1):
                t = ("if", cs[q], t, ("panic",) if rng.random() < 0.1 else ("stop",))
            return t

        s1, s2 = c_bits(m, 1, 1), c_bits(m + 1, 1, 1)
        full, part = sp(None), [sp(d) for d in drops]
        rest = ("if", s2, part[0], ("if", c_bits(m + 1, 2, 2), part[1], part[2]))
        t = ("if", s1, full, rest) if rng.random() < 0.5 else ("if", s1, rest, full)
        sig = "(" + ",".join(["uint256"] * (m + 2)) + ")"
        fns.append((f"check_c{k}{sig}", emit(t)))
        desc.append(f"chain m={m} drops={drops} full-first={t[2] is full}")
    return fns, desc


def fam_valuecall(rng, nfun=2):
    """a non-branching constraint (`value <= balance(this)`, added by a value-bearing CALL to the path that continues
    after the transfer) added AFTER a branching condition, on one sibling only: c := x0 > 2^k (more than the test
    contract owns); then either CALL{value:x0} (the success continuation is infeasible only because of the non-branching
    balance constraint) or nothing (feasible) -- both end in Panic(1).  Both sibling orders are generated (function 2q
    and 2q+1), since the cache only affects queries solved AFTER the infeasible one."""
    fns, desc = [], []
    for k in range(nfun):
        big = c_gt(0, 2 ** rng.choice([96, 129, 130, 200]) - 1)
        call = [("PUSH", 0), ("PUSH", 0), ("PUSH", 0), ("PUSH", 0)] + A(0) + [("PUSH", 0xBEEF00 + k, 20), "GAS", "CALL"]
        ok = ("call-ok", [])  # success flag already on the stack
        fail_leaf = ("panic",) if rng.random() < 0.5 else ("stop",)
        with_call = ("seq", call, ("if", ok, ("panic",), fail_leaf))
        without = ("panic",) if rng.random() < 0.7 else ("if", c_eq(2, 7), ("panic",), ("panic",))
        sel = c_bits(1, 1, 1) if rng.random() < 0.5 else c_eq(1, 0)
        inner = ("if", sel, with_call, without) if k % 2 == 0 else ("if", sel, without, with_call)
        t = ("if", big, inner, ("stop",))
        fns.append((f"check_v{k}{SIG4}", emit(t)))
        desc.append(describe(t))
    return fns, desc


def fam_assume(rng, nfun=1, cases=None, extra=None, p_empty=0.5):
    """conditions OWNED BY ONE PATH: `switch (x1) case i: vm.assume(x0 != r_i1) ... vm.assume(lo_i < x0 && x0 < hi_i);
    assert(false)`.  vm.assume appends its condition without a feasibility check, so an empty range reaches the
    assertion solver and yields a ONE-id core; the conditions of a finished case are referenced by nothing but that
    path.  If the cache's ids did not pin their terms, z3 would hand the same ids to the assume-conditions of later
    cases (about half of which are satisfiable)."""
    fns, desc = [], []
    for k in range(nfun):
        K = cases or rng.choice([8, 12])
        nx = extra if extra is not None else rng.choice([3, 5])
        items = []
        for i in range(K):
            items += A(1) + [("PUSH", i), "EQ", ("PUSHL", f"case{i}"), "JUMPI"]
        items += ["STOP"]
        shape = []
        for i in range(K):
            lo, hi = rng.randrange(1, 1 << 32), rng.randrange(1, 1 << 32)
            if rng.random() < p_empty:
                lo, hi = max(lo, hi), min(lo, hi)  # empty range
            elif p_empty == 0.0:
                lo, hi = min(lo, hi), max(lo, hi) + 2  # non-empty range
            split = rng.random() < 0.3  # two assumes (2-id core) instead of one conjunction (1-id core)
            items += [("LABEL", f"case{i}")]
            for _ in range(nx):
                r = rng.randrange(1, 1 << 32)
                items += e2e.call_cheat("assume(bool)", [A(0) + [("PUSH", r), "EQ", "ISZERO"]]) + ["POP"]
            if split:
                items += e2e.call_cheat("assume(bool)", [c_gt(0, lo)[1]]) + ["POP"]
                items += e2e.call_cheat("assume(bool)", [c_lt(0, hi)[1]]) + ["POP"]
            else:
                items += e2e.call_cheat("assume(bool)", [c_gt(0, lo)[1] + c_lt(0, hi)[1] + ["AND"]]) + ["POP"]
            items += e2e.panic(1)
            shape.append(("E" if lo + 1 >= hi else "F") + ("2" if split else "1"))
        fns.append((f"check_a{k}{SIG4}", items))
        desc.append(f"assume K={K} extra={nx} cases={''.join(shape)}")
    return fns, desc


FAMILIES = {"tree": fam_tree, "twin": fam_twin, "chain": fam_chain, "valuecall": fam_valuecall, "assume": fam_assume}


def make(family: str, seed: int, **kw):
    """-> (Spec, description list)"""
    rng = random.Random(f"c16/{family}/{seed}")
    name = kw.pop("name", None) or f"C16_{family}_{seed}"
    fns, desc = FAMILIES[family](rng, **kw)
    return e2e.Spec(name, fns=fns), desc


def mixed(seed: int):
    """one contract with functions of several families (several tests per contract, cores must not leak between
    them)"""
    rng = random.Random(f"c16/mixed/{seed}")
    fns, desc = [], []
    for fam in rng.sample(["tree", "twin", "chain", "valuecall", "tree"], 3):
        f, d = FAMILIES[fam](rng, nfun=1)
        fns.append((f[0][0].replace("check_", f"check_m{len(fns)}_"), f[0][1]))
        desc += d
    return e2e.Spec(f"C16_mixed_{seed}", fns=fns), desc
