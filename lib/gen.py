"""Seeded generators of well-formed EVM programs (families F1-F7 of DESIGN §1).
Programs are asm item lists; every expression leaves exactly one word on the stack."""

from __future__ import annotations

import random

from lib import asm
from lib.evmspec import MASK

BIN = ["ADD", "MUL", "SUB", "DIV", "SDIV", "MOD", "SMOD", "LT", "GT", "SLT", "SGT", "EQ", "AND", "OR", "XOR", "BYTE",
       "SHL", "SHR", "SAR", "SIGNEXTEND", "EXP"]
UN = ["ISZERO", "NOT"]
TER = ["ADDMOD", "MULMOD"]
ENV = ["CALLER", "CALLVALUE", "ADDRESS", "ORIGIN", "TIMESTAMP", "NUMBER", "CHAINID", "CALLDATASIZE", "CODESIZE",
       "SELFBALANCE", "BASEFEE", "GASLIMIT", "COINBASE", "PREVRANDAO", "PC", "RETURNDATASIZE"]
CONSTS = [0, 1, 2, 3, 5, 7, 8, 16, 31, 32, 33, 255, 256, 1 << 64, (1 << 128) - 1, 1 << 255, MASK, MASK - 1]


class G:
    def __init__(self, seed, ncd=2):
        self.r = random.Random(seed)
        self.ncd = ncd
        self.lbl = 0
        self.features = set()

    def label(self, p="L"):
        self.lbl += 1
        return f"{p}{self.lbl}"

    # ---- expressions -------------------------------------------------------
    def const(self):
        r = self.r
        if r.random() < 0.7:
            return r.choice(CONSTS)
        return r.getrandbits(r.choice([8, 16, 64, 160, 256]))

    def expr(self, depth=2, allow=("cd", "const", "env", "bin", "un", "ter")):
        r = self.r
        kinds = [k for k in allow if depth > 0 or k in ("cd", "const", "env")]
        w = {"cd": 4, "const": 3, "env": 1, "bin": 5, "un": 1, "ter": 1, "mload": 2, "sload": 2, "tload": 1, "sha3": 1}
        k = r.choices(kinds, [w[x] for x in kinds])[0]
        if k == "cd":
            return [("PUSH", 4 + 32 * r.randrange(self.ncd)), "CALLDATALOAD"]
        if k == "const":
            return [("PUSH", self.const())]
        if k == "env":
            e = r.choice(ENV)
            self.features.add(e)
            return [e]
        if k == "un":
            return self.expr(depth - 1, allow) + [r.choice(UN)]
        if k == "bin":
            op = r.choice(BIN)
            self.features.add(op)
            b = self.expr(depth - 1, allow)
            a = self.expr(depth - 1, allow)
            if op == "EXP":
                b = [("PUSH", r.choice([0, 1, 2, 3]))] if r.random() < 0.8 else b
            if op in ("BYTE", "SIGNEXTEND") and r.random() < 0.7:
                a = [("PUSH", r.choice([0, 1, 15, 30, 31, 32]))]
            if op in ("SHL", "SHR", "SAR") and r.random() < 0.7:
                a = [("PUSH", r.choice([0, 1, 8, 255, 256]))]
            return b + a + [op]  # a ends on top of the stack
        if k == "ter":
            op = r.choice(TER)
            self.features.add(op)
            return self.expr(depth - 1, allow) + self.expr(depth - 1, allow) + self.expr(depth - 1, allow) + [op]
        if k == "mload":
            self.features.add("MLOAD")
            return [("PUSH", r.choice([0, 1, 31, 32, 33, 64, 96])), "MLOAD"]
        if k == "sload":
            self.features.add("SLOAD")
            return self.slot_expr() + ["SLOAD"]
        if k == "tload":
            self.features.add("TLOAD")
            return [("PUSH", r.choice([0, 1, 2])), "TLOAD"]
        if k == "sha3":
            self.features.add("SHA3")
            off = r.choice([0, 32])
            return self.expr(depth - 1, ("cd", "const")) + [("PUSH", off), "MSTORE", ("PUSH", r.choice([32, 64])),
                                                            ("PUSH", off), "SHA3"]
        raise ValueError(k)

    def slot_expr(self):
        return [("PUSH", self.r.choice([0, 1, 2, 3]))]

    # ---- statements --------------------------------------------------------
    def stmt(self, depth, allow_e, kinds):
        r = self.r
        k = r.choice(kinds)
        if k == "mstore":
            return self.expr(2, allow_e) + [("PUSH", r.choice([0, 1, 31, 32, 33, 64, 65, 96])), "MSTORE"]
        if k == "mstore8":
            self.features.add("MSTORE8")
            return self.expr(2, allow_e) + [("PUSH", r.choice([0, 1, 31, 32, 63, 64, 100])), "MSTORE8"]
        if k == "mcopy":
            self.features.add("MCOPY")
            return [("PUSH", r.choice([0, 1, 5, 32, 33, 64])), ("PUSH", r.choice([0, 1, 16, 31, 32, 48, 64])),
                    ("PUSH", r.choice([0, 1, 8, 31, 32, 40, 96])), "MCOPY"]
        if k == "cdcopy":
            self.features.add("CALLDATACOPY")
            return [("PUSH", r.choice([0, 1, 4, 32, 36, 68, 100])), ("PUSH", r.choice([0, 3, 4, 5, 36, 60, 68, 200])),
                    ("PUSH", r.choice([0, 1, 31, 32, 64, 96])), "CALLDATACOPY"]
        if k == "codecopy":
            self.features.add("CODECOPY")
            return [("PUSH", r.choice([0, 1, 32, 33, 64])), ("PUSH", r.choice([0, 1, 5, 20, 1000])),
                    ("PUSH", r.choice([0, 1, 31, 32, 64])), "CODECOPY"]
        if k == "sstore":
            self.features.add("SSTORE")
            return self.expr(2, allow_e) + self.slot_expr() + ["SSTORE"]
        if k == "tstore":
            self.features.add("TSTORE")
            return self.expr(1, allow_e) + [("PUSH", r.choice([0, 1, 2])), "TSTORE"]
        if k == "log":
            n = r.randrange(0, 5)
            self.features.add(f"LOG{n}")
            out = []
            for _ in range(n):
                out += self.expr(1, ("cd", "const", "env"))
            return out + [("PUSH", r.choice([0, 1, 32, 64])), ("PUSH", r.choice([0, 1, 31, 32])), f"LOG{n}"]
        if k == "if" and depth > 0:
            self.features.add("JUMPI")
            l_then, l_end = self.label("T"), self.label("E")
            cond = self.cond_expr(allow_e)
            then = self.block(depth - 1, allow_e, kinds, r.randint(1, 2))
            els = self.block(depth - 1, allow_e, kinds, r.randint(0, 2))
            return cond + [("PUSHL", l_then), "JUMPI"] + els + [("PUSHL", l_end), "JUMP", ("LABEL", l_then)] + then + [
                ("LABEL", l_end)]
        if k == "revert" and depth < 2:
            self.features.add("REVERT")
            return [("PUSH", r.choice([0, 4, 32, 36])), ("PUSH", r.choice([0, 1, 32])), "REVERT"]
        if k == "invalid" and depth < 2:
            return ["INVALID"]
        if k == "pop":
            return self.expr(2, allow_e) + ["POP"]
        return self.expr(2, allow_e) + [("PUSH", 0), "MSTORE"]

    def cond_expr(self, allow_e):
        r = self.r
        a = self.expr(1, allow_e)
        if r.random() < 0.3:
            return a
        b = self.expr(1, allow_e)
        op = r.choice(["LT", "GT", "SLT", "SGT", "EQ"])
        e = b + a + [op]
        if r.random() < 0.3:
            e += ["ISZERO"]
        return e

    def block(self, depth, allow_e, kinds, n):
        out = []
        for _ in range(n):
            out += self.stmt(depth, allow_e, kinds)
        return out

    def ret(self, size=None):
        size = size if size is not None else self.r.choice([32, 64, 96, 128])
        return [("PUSH", size), ("PUSH", 0), "RETURN"]

    # ---- families ----------------------------------------------------------
    def f1_straight(self):
        allow = ("cd", "const", "env", "bin", "un", "ter", "mload")
        body = self.block(0, allow, ["mstore", "mstore", "mstore8", "pop"], self.r.randint(2, 5))
        return body + self.ret()

    def f2_branch(self):
        allow = ("cd", "const", "env", "bin", "un", "mload")
        body = self.block(2, allow, ["mstore", "if", "if", "sstore", "revert", "invalid"], self.r.randint(2, 4))
        return body + self.ret()

    def f3_memory(self):
        allow = ("cd", "const", "bin", "mload")
        body = self.block(0, allow, ["mstore", "mstore8", "mcopy", "mcopy", "cdcopy", "codecopy"], self.r.randint(3, 7))
        return body + self.ret(self.r.choice([96, 128, 192]))

    def f5_hash_log(self):
        allow = ("cd", "const", "bin", "sha3", "mload")
        body = self.block(1, allow, ["mstore", "log", "log", "if", "sstore"], self.r.randint(2, 5))
        return body + self.ret()


def build(items) -> bytes:
    return asm.assemble(items)
