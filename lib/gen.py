"""Seeded generators of well-formed EVM programs (families F1-F7 of DESIGN §1).
Programs are asm item lists; every expression leaves exactly one word on the stack."""

from __future__ import annotations

import random

from lib import asm
from lib.evmspec import MASK

BIN = ["ADD", "MUL", "SUB", "DIV", "SDIV", "MOD", "SMOD", "LT", "GT", "SLT", "SGT", "EQ", "AND", "OR", "XOR", "BYTE",
       "SHL", "SHR", "SAR", "SIGNEXTEND", "EXP"]
UN = ["ISZERO", "NOT"]
TER = ["ADDMOD", "MULMOD"]
ENV = ["CALLER", "CALLVALUE", "ADDRESS", "ORIGIN", "TIMESTAMP", "NUMBER", "CHAINID", "CALLDATASIZE", "CODESIZE",
       "SELFBALANCE", "BASEFEE", "GASLIMIT", "COINBASE", "PREVRANDAO", "PC", "RETURNDATASIZE"]
CONSTS = [0, 1, 2, 3, 5, 7, 8, 16, 31, 32, 33, 255, 256, 1 << 64, (1 << 128) - 1, 1 << 255, MASK, MASK - 1]


class G:
    def __init__(self, seed, ncd=2):
        self.r = random.Random(seed)
        self.ncd = ncd
        self.lbl = 0
        self.features = set()

    def label(self, p="L"):
        self.lbl += 1
        return f"{p}{self.lbl}"

    # ---- expressions -------------------------------------------------------
    def const(self):
        r = self.r
        if r.random() < 0.7:
            return r.choice(CONSTS)
        return r.getrandbits(r.choice([8, 16, 64, 160, 256]))

    def expr(self, depth=2, allow=("cd", "const", "env", "bin", "un", "ter")):
        r = self.r
        kinds = [k for k in allow if depth > 0 or k in ("cd", "const", "env")]
        w = {"cd": 4, "const": 3, "env": 1, "bin": 5, "un": 1, "ter": 1, "mload": 2, "sload": 2, "tload": 1, "sha3": 1}
        k = r.choices(kinds, [w[x] for x in kinds])[0]
        if k == "cd":
            return [("PUSH", 4 + 32 * r.randrange(self.ncd)), "CALLDATALOAD"]
        if k == "const":
            return [("PUSH", self.const())]
        if k == "env":
            e = r.choice(ENV)
            self.features.add(e)
            return [e]
        if k == "un":
            return self.expr(depth - 1, allow) + [r.choice(UN)]
        if k == "bin":
            op = r.choice(BIN)
            self.features.add(op)
            b = self.expr(depth - 1, allow)
            a = self.expr(depth - 1, allow)
            if op == "EXP":
                b = [("PUSH", r.choice([0, 1, 2, 3]))] if r.random() < 0.8 else b
            if op in ("BYTE", "SIGNEXTEND") and r.random() < 0.7:
                a = [("PUSH", r.choice([0, 1, 15, 30, 31, 32]))]
            if op in ("SHL", "SHR", "SAR") and r.random() < 0.7:
                a = [("PUSH", r.choice([0, 1, 8, 255, 256]))]
            return b + a + [op]  # a ends on top of the stack
        if k == "ter":
            op = r.choice(TER)
            self.features.add(op)
            return self.expr(depth - 1, allow) + self.expr(depth - 1, allow) + self.expr(depth - 1, allow) + [op]
        if k == "mload":
            self.features.add("MLOAD")
            return [("PUSH", r.choice([0, 1, 31, 32, 33, 64, 96])), "MLOAD"]
        if k == "sload":
            self.features.add("SLOAD")
            return self.slot_expr() + ["SLOAD"]
        if k == "tload":
            self.features.add("TLOAD")
            return [("PUSH", r.choice([0, 1, 2])), "TLOAD"]
        if k == "sha3":
            self.features.add("SHA3")
            off = r.choice([0, 32])
            return self.expr(depth - 1, ("cd", "const")) + [("PUSH", off), "MSTORE", ("PUSH", r.choice([32, 64])),
                                                            ("PUSH", off), "SHA3"]
        raise ValueError(k)

    def slot_expr(self):
        return [("PUSH", self.r.choice([0, 1, 2, 3]))]

    # ---- statements --------------------------------------------------------
    def stmt(self, depth, allow_e, kinds):
        r = self.r
        k = r.choice(kinds)
        if k == "mstore":
            return self.expr(2, allow_e) + [("PUSH", r.choice([0, 1, 31, 32, 33, 64, 65, 96])), "MSTORE"]
        if k == "mstore8":
            self.features.add("MSTORE8")
            return self.expr(2, allow_e) + [("PUSH", r.choice([0, 1, 31, 32, 63, 64, 100])), "MSTORE8"]
        if k == "mcopy":
            self.features.add("MCOPY")
            return [("PUSH", r.choice([0, 1, 5, 32, 33, 64])), ("PUSH", r.choice([0, 1, 16, 31, 32, 48, 64])),
                    ("PUSH", r.choice([0, 1, 8, 31, 32, 40, 96])), "MCOPY"]
        if k == "cdcopy":
            self.features.add("CALLDATACOPY")
            return [("PUSH", r.choice([0, 1, 4, 32, 36, 68, 100])), ("PUSH", r.choice([0, 3, 4, 5, 36, 60, 68, 200])),
                    ("PUSH", r.choice([0, 1, 31, 32, 64, 96])), "CALLDATACOPY"]
        if k == "codecopy":
            self.features.add("CODECOPY")
            return [("PUSH", r.choice([0, 1, 32, 33, 64])), ("PUSH", r.choice([0, 1, 5, 20, 1000])),
                    ("PUSH", r.choice([0, 1, 31, 32, 64])), "CODECOPY"]
        if k == "sstore":
            self.features.add("SSTORE")
            return self.expr(2, allow_e) + self.slot_expr() + ["SSTORE"]
        if k == "tstore":
            self.features.add("TSTORE")
            return self.expr(1, allow_e) + [("PUSH", r.choice([0, 1, 2])), "TSTORE"]
        if k == "log":
            n = r.randrange(0, 5)
            self.features.add(f"LOG{n}")
            out = []
            for _ in range(n):
                out += self.expr(1, ("cd", "const", "env"))
            return out + [("PUSH", r.choice([0, 1, 32, 64])), ("PUSH", r.choice([0, 1, 31, 32])), f"LOG{n}"]
        if k == "if" and depth > 0:
            self.features.add("JUMPI")
            l_then, l_end = self.label("T"), self.label("E")
            cond = self.cond_expr(allow_e)
            then = self.block(depth - 1, allow_e, kinds, r.randint(1, 2))
            els = self.block(depth - 1, allow_e, kinds, r.randint(0, 2))
            return cond + [("PUSHL", l_then), "JUMPI"] + els + [("PUSHL", l_end), "JUMP", ("LABEL", l_then)] + then + [
                ("LABEL", l_end)]
        if k == "revert" and depth < 2:
            self.features.add("REVERT")
            return [("PUSH", r.choice([0, 4, 32, 36])), ("PUSH", r.choice([0, 1, 32])), "REVERT"]
        if k == "invalid" and depth < 2:
            return ["INVALID"]
        if k == "pop":
            return self.expr(2, allow_e) + ["POP"]
        return self.expr(2, allow_e) + [("PUSH", 0), "MSTORE"]

    def cond_expr(self, allow_e):
        r = self.r
        a = self.expr(1, allow_e)
        if r.random() < 0.3:
            return a
        b = self.expr(1, allow_e)
        op = r.choice(["LT", "GT", "SLT", "SGT", "EQ"])
        e = b + a + [op]
        if r.random() < 0.3:
            e += ["ISZERO"]
        return e

    def block(self, depth, allow_e, kinds, n):
        out = []
        for _ in range(n):
            out += self.stmt(depth, allow_e, kinds)
        return out

    def ret(self, size=None):
        size = size if size is not None else self.r.choice([32, 64, 96, 128])
        return [("PUSH", size), ("PUSH", 0), "RETURN"]

    # ---- families ----------------------------------------------------------
    def f1_straight(self):
        allow = ("cd", "const", "env", "bin", "un", "ter", "mload")
        body = self.block(0, allow, ["mstore", "mstore", "mstore8", "pop"], self.r.randint(2, 5))
        return body + self.ret()

    def f2_branch(self):
        allow = ("cd", "const", "env", "bin", "un", "mload")
        body = self.block(2, allow, ["mstore", "if", "if", "sstore", "revert", "invalid"], self.r.randint(2, 4))
        return body + self.ret()

    def f3_memory(self):
        allow = ("cd", "const", "bin", "mload")
        body = self.block(0, allow, ["mstore", "mstore8", "mcopy", "mcopy", "cdcopy", "codecopy"], self.r.randint(3, 7))
        return body + self.ret(self.r.choice([96, 128, 192]))

    def f5_hash_log(self):
        allow = ("cd", "const", "bin", "sha3", "mload")
        body = self.block(1, allow, ["mstore", "log", "log", "if", "sstore"], self.r.randint(2, 5))
        return body + self.ret()


def build(items) -> bytes:
    return asm.assemble(items)


# ---------------------------------------------------------------------------
# F6: call trees and creations;  F7: loops
# ---------------------------------------------------------------------------
A_REPORT, A_MUTATE, A_SHORT, A_NEST, A_EMPTY = 0xA1A1, 0xB1B1, 0xC1C1, 0xD1D1, 0xE1E1
CALL_OPS = {"CALL": 7, "CALLCODE": 7, "DELEGATECALL": 6, "STATICCALL": 6}


def callee_report():
    """returns CALLER, ORIGIN, ADDRESS, CALLVALUE, CODESIZE, calldata word 0, CALLDATASIZE (7 words)"""
    out = []
    for k, op in enumerate(["CALLER", "ORIGIN", "ADDRESS", "CALLVALUE", "CODESIZE"]):
        out += [op, ("PUSH", 32 * k), "MSTORE"]
    out += ["PUSH0", "CALLDATALOAD", ("PUSH", 0xA0), "MSTORE", "CALLDATASIZE", ("PUSH", 0xC0), "MSTORE",
            ("PUSH", 0xE0), "PUSH0", "RETURN"]
    return out


def callee_mutate():
    """storage[1]=w0, tstorage[1]=w0, LOG1; then by w1: 1 revert(w0) / 2 INVALID / 3 OOB returndatacopy / else return(w0, 40 bytes)
    In a static frame the SSTORE halts it (write protection)."""
    return [
        "PUSH0", "CALLDATALOAD", "DUP1", ("PUSH", 1), "SSTORE", "DUP1", ("PUSH", 1), "TSTORE", "DUP1", "PUSH0", "MSTORE",
        ("PUSH", 0x77), ("PUSH", 32), "PUSH0", "LOG1",
        ("PUSH", 32), "CALLDATALOAD",
        "DUP1", ("PUSH", 1), "EQ", ("PUSHL", "rev"), "JUMPI",
        "DUP1", ("PUSH", 2), "EQ", ("PUSHL", "inv"), "JUMPI",
        "DUP1", ("PUSH", 3), "EQ", ("PUSHL", "oob"), "JUMPI",
        ("PUSH", 40), "PUSH0", "RETURN",
        ("LABEL", "rev"), ("PUSH", 32), "PUSH0", "REVERT",
        ("LABEL", "inv"), "INVALID",
        ("LABEL", "oob"), ("PUSH", 1), "PUSH0", "PUSH0", "RETURNDATACOPY", "STOP",
    ]


def callee_readonly_mutate():
    """like mutate but without state writes (usable under STATICCALL): by w1 revert/invalid/return"""
    return [
        "PUSH0", "CALLDATALOAD", "PUSH0", "MSTORE", ("PUSH", 1), "SLOAD", ("PUSH", 32), "MSTORE",
        ("PUSH", 32), "CALLDATALOAD",
        "DUP1", ("PUSH", 1), "EQ", ("PUSHL", "rev"), "JUMPI",
        "DUP1", ("PUSH", 2), "EQ", ("PUSHL", "inv"), "JUMPI",
        ("PUSH", 64), "PUSH0", "RETURN",
        ("LABEL", "rev"), ("PUSH", 33), "PUSH0", "REVERT",
        ("LABEL", "inv"), "INVALID",
    ]


def callee_short(k):
    return ["PUSH0", "CALLDATALOAD", "PUSH0", "MSTORE", ("PUSH", k), "PUSH0", "RETURN"]


def call_site(op, addr, value_items, in_off, in_size, out_off, out_size):
    items = [("PUSH", out_size), ("PUSH", out_off), ("PUSH", in_size), ("PUSH", in_off)]
    if op in ("CALL", "CALLCODE"):
        items += list(value_items)
    items += [("PUSH", addr, 20), "GAS", op]
    return items


def callee_nest(op, inner_addr, value_items):
    """forwards its calldata to inner_addr with call kind `op`, writes storage[2] before and after; returns
    [flag, first 64 bytes of returndata area, SLOAD(1), SLOAD(2)]; reverts everything if calldata word 2 == 9"""
    it = ["CALLDATASIZE", "PUSH0", "PUSH0", "CALLDATACOPY"]
    it += [("PUSH", 5), ("PUSH", 2), "SSTORE"] if op != "STATIC-SAFE" else []
    it += call_site(op if op != "STATIC-SAFE" else "STATICCALL", inner_addr, value_items, 0, 64, 0x100, 64)
    it += [("PUSH", 0x80), "MSTORE"]
    it += [("PUSH", 0x100), "MLOAD", ("PUSH", 0xA0), "MSTORE", ("PUSH", 0x120), "MLOAD", ("PUSH", 0xC0), "MSTORE",
           ("PUSH", 1), "SLOAD", ("PUSH", 0xE0), "MSTORE"]
    it += [("PUSH", 64), "CALLDATALOAD", ("PUSH", 9), "EQ", ("PUSHL", "rv"), "JUMPI",
           ("PUSH", 0x80), ("PUSH", 0x80), "RETURN", ("LABEL", "rv"), ("PUSH", 0x20), ("PUSH", 0x80), "REVERT"]
    return it


class G6(G):
    def value_items(self):
        r = self.r
        k = r.random()
        if k < 0.4:
            return [("PUSH", 0)]
        if k < 0.6:
            return [("PUSH", r.choice([1, 2, 1000]))]
        self.features.add("symvalue")
        return [("PUSH", 4 + 32 * r.randrange(self.ncd)), "CALLDATALOAD"] + (
            [("PUSH", 0xFFFF), "AND"] if r.random() < 0.5 else [])

    def f6_calls(self):
        """-> (main items, {addr: items}) : 1-3 call sites over the callee pool + final state probes"""
        r = self.r
        contracts = {A_REPORT: callee_report(), A_MUTATE: callee_mutate(), A_SHORT: callee_short(r.choice([0, 1, 31, 33, 64]))}
        nest_kind = r.choice(["CALL", "CALLCODE", "DELEGATECALL", "STATICCALL", "STATIC-SAFE"])
        inner = A_MUTATE if nest_kind != "STATIC-SAFE" else 0xF1F1
        contracts[0xF1F1] = callee_readonly_mutate()
        contracts[A_NEST] = callee_nest(nest_kind, inner, self.value_items() if r.random() < 0.5 else [("PUSH", 0)])
        self.features.add(f"nest-{nest_kind}")
        main = []
        # args: word0 = cd0, word1 = cd1 (selects callee outcome), word2 = cd2 if present else 0
        for k in range(min(self.ncd, 3)):
            main += [("PUSH", 4 + 32 * k), "CALLDATALOAD", ("PUSH", 0x100 + 32 * k), "MSTORE"]
        # own state before the calls
        main += [("PUSH", 0x11), ("PUSH", 1), "SSTORE", ("PUSH", 0x22), ("PUSH", 1), "TSTORE"]
        n = r.randint(1, 3)
        for k in range(n):
            op = r.choice(list(CALL_OPS))
            addr = r.choice([A_REPORT, A_MUTATE, A_MUTATE, A_SHORT, A_NEST, A_NEST, A_EMPTY])
            self.features.add(op)
            out_off, out_size = 0x200 + 0x80 * k, r.choice([0, 32, 64, 0x60])
            # dirty the output window first
            main += [("PUSH", (0xD1D1D1D1 << 224) | k, 32), ("PUSH", out_off), "MSTORE",
                     ("PUSH", 4), "CALLDATALOAD", "NOT", ("PUSH", out_off + 32), "MSTORE"]
            main += call_site(op, addr, self.value_items(), 0x100, r.choice([0, 32, 64, 96]), out_off, out_size)
            main += [("PUSH", 0x400 + 32 * k), "MSTORE", "RETURNDATASIZE", ("PUSH", 0x480 + 32 * k), "MSTORE"]
            if r.random() < 0.4:
                self.features.add("RETURNDATACOPY")
                main += [("PUSH", r.choice([0, 1, 32])), ("PUSH", r.choice([0, 0, 8])), ("PUSH", 0x500 + 64 * k),
                         "RETURNDATACOPY"]
        main += self.final_probes([progs_this(), A_MUTATE, A_NEST, A_REPORT])
        main += [("PUSH", 0x700), ("PUSH", 0x100), "RETURN"]
        return main, contracts

    def final_probes(self, addrs):
        it = [("PUSH", 1), "SLOAD", ("PUSH", 0x600), "MSTORE", ("PUSH", 1), "TLOAD", ("PUSH", 0x620), "MSTORE",
              ("PUSH", 2), "SLOAD", ("PUSH", 0x640), "MSTORE"]
        for k, a in enumerate(addrs):
            it += [("PUSH", a, 20), "BALANCE", ("PUSH", 0x660 + 32 * k), "MSTORE"]
        it += ["CALLER", "BALANCE", ("PUSH", 0x660 + 32 * len(addrs)), "MSTORE"]
        return it

    def f6_create(self):
        """CREATE / CREATE2 of a child whose constructor may fail, then calls into it"""
        r = self.r
        op = r.choice(["CREATE", "CREATE2"])
        self.features.add(op)
        ctor_kind = r.choice(["ok", "revert-if-zero-value", "invalid-if-value", "store"])
        self.features.add(f"ctor-{ctor_kind}")
        from lib import asm

        runtime = asm.assemble(callee_report())
        ctor = []
        if ctor_kind == "revert-if-zero-value":
            ctor = ["CALLVALUE", ("PUSHL", "okc"), "JUMPI", ("PUSH", 0xBAD), "PUSH0", "MSTORE", ("PUSH", 32), "PUSH0",
                    "REVERT", ("LABEL", "okc")]
        elif ctor_kind == "invalid-if-value":
            ctor = ["CALLVALUE", "ISZERO", ("PUSHL", "okc"), "JUMPI", "INVALID", ("LABEL", "okc")]
        elif ctor_kind == "store":
            ctor = ["CALLVALUE", ("PUSH", 3), "SSTORE", "CALLER", ("PUSH", 4), "SSTORE"]
        init = asm.creation_code(runtime, ctor)
        main = [("PUSH", 0x11), ("PUSH", 1), "SSTORE"]
        main += [("PUSHSIZE", "init_s", "init_e"), ("PUSHM", "init_s"), ("PUSH", 0x100), "CODECOPY"]
        if op == "CREATE2":
            main += [("PUSH", r.choice([0, 1, 0xABCDEF]))]
        main += [("PUSH", len(init)), ("PUSH", 0x100)] + self.value_items() + [op]
        # stack: new address (or 0)
        main += ["DUP1", "ISZERO", "ISZERO", ("PUSH", 0x400), "MSTORE", "RETURNDATASIZE", ("PUSH", 0x420), "MSTORE",
                 "DUP1", "EXTCODESIZE", ("PUSH", 0x440), "MSTORE", "DUP1", "BALANCE", ("PUSH", 0x460), "MSTORE"]
        # call the child (address on the stack) with 32 bytes of calldata
        main += [("PUSH", 4), "CALLDATALOAD", ("PUSH", 0x80), "MSTORE"]
        callop = r.choice(["CALL", "STATICCALL", "DELEGATECALL"])
        self.features.add(callop)
        main += ["DUP1", ("PUSH", 0xE0), "SWAP1", ("PUSH", 0x200), "SWAP1", ("PUSH", 32), "SWAP1", ("PUSH", 0x80), "SWAP1"]
        if callop == "CALL":
            main += [("PUSH", 0), "SWAP1"]
        main += ["GAS", callop, ("PUSH", 0x480), "MSTORE", "POP"]
        main += ["SELFBALANCE", ("PUSH", 0x4A0), "MSTORE", ("PUSH", 1), "SLOAD", ("PUSH", 0x4C0), "MSTORE",
                 ("PUSH", 3), "SLOAD", ("PUSH", 0x4E0), "MSTORE"]
        main += [("PUSH", 0x400), ("PUSH", 0x200), "RETURN", ("MARK", "init_s"), init, ("MARK", "init_e")]
        return main, {}

    # ---- F7 loops -----------------------------------------------------------
    def f7_loop(self):
        r = self.r
        kind = r.choice(["concrete", "concrete", "symbolic", "head0-jumpi", "head0-jump", "nested"])
        self.features.add(f"loop-{kind}")
        n = r.choice([1, 2, 3, 4, 5, 8])
        if kind in ("head0-jumpi", "head0-jump"):
            # loop head is the very first byte; counter in memory word 0, accumulator in word 1
            body = [("LABEL", "top"), "PUSH0", "MLOAD", ("PUSH", 1), "ADD", "DUP1", "PUSH0", "MSTORE",
                    ("PUSH", 32), "MLOAD", ("PUSH", 3), "MUL", ("PUSH", 4), "CALLDATALOAD", "ADD", ("PUSH", 32), "MSTORE"]
            if kind == "head0-jumpi":
                body += [("PUSH", n), "GT", "PUSH0", "JUMPI"]  # n > i -> jump to pc 0
            else:
                body += [("PUSH", n), "GT", "ISZERO", ("PUSHL", "exit"), "JUMPI", "PUSH0", "JUMP", ("LABEL", "exit")]
            return body + [("PUSH", 64), "PUSH0", "RETURN"], {}
        bound = [("PUSH", n)] if kind != "symbolic" else [("PUSH", 36), "CALLDATALOAD", ("PUSH", 7), "AND"]
        # stack: acc i
        it = [("PUSH", 4), "CALLDATALOAD", "PUSH0"]  # acc=cd0, i=0
        it += [("LABEL", "top")] + ["DUP1"] + bound + ["GT", "ISZERO", ("PUSHL", "exit"), "JUMPI"]  # while bound > i
        it += ["SWAP1", ("PUSH", 3), "MUL", ("PUSH", 1), "ADD", "SWAP1"]  # acc = acc*3+1
        if kind == "nested":
            it += ["PUSH0", ("LABEL", "in"), "DUP1", ("PUSH", 2), "GT", "ISZERO", ("PUSHL", "inx"), "JUMPI",
                   ("PUSH", 1), "ADD", "SWAP2", ("PUSH", 7), "ADD", "SWAP2", ("PUSHL", "in"), "JUMP", ("LABEL", "inx"), "POP"]
        it += [("PUSH", 1), "ADD", ("PUSHL", "top"), "JUMP", ("LABEL", "exit")]
        it += ["POP", "PUSH0", "MSTORE", ("PUSH", 32), "PUSH0", "RETURN"]
        return it, {}


def progs_this():
    from lib import progs

    return progs.THIS


# ---------------------------------------------------------------------------
# F4: storage locations (scalars, mappings, dynamic arrays, struct offsets, nestings) in several syntactic forms
# ---------------------------------------------------------------------------
def _k32(n: int) -> bytes:
    return n.to_bytes(32, "big")


def keccak_int(b: bytes) -> int:
    from eth_hash.auto import keccak

    return int.from_bytes(keccak(b), "big")


def boundary_slots(limit=4, window=3):
    """base slots p < 2^20 whose keccak(p) lies within `window` of a multiple of 2^16 (brute force, cached)"""
    global _BOUNDARY
    try:
        return _BOUNDARY
    except NameError:
        pass
    out = []
    p = 0
    while len(out) < limit and p < 400000:
        h = keccak_int(_k32(p)) & 0xFFFF
        if h >= 0x10000 - window or h < window:
            out.append(p)
        p += 1
    _BOUNDARY = out
    return out


class G4(G):
    """location = (items leaving the slot on the stack, description); memory 0..0x60 is scratch"""

    def key(self):
        r = self.r
        k = r.random()
        if k < 0.55:
            i = r.randrange(self.ncd)
            return [("PUSH", 4 + 32 * i), "CALLDATALOAD"], f"cd{i}"
        if k < 0.7:
            i = r.randrange(self.ncd)
            c = r.choice([1, 2])
            return [("PUSH", 4 + 32 * i), "CALLDATALOAD", ("PUSH", c), "ADD"], f"cd{i}+{c}"
        c = r.choice([0, 1, 2, 3])
        return [("PUSH", c)], str(c)

    def index(self):
        r = self.r
        k = r.random()
        if k < 0.45:
            i = r.randrange(self.ncd)
            return [("PUSH", 4 + 32 * i), "CALLDATALOAD", ("PUSH", 3), "AND"], f"cd{i}&3"
        if k < 0.6:
            i = r.randrange(self.ncd)
            return [("PUSH", 4 + 32 * i), "CALLDATALOAD", ("PUSH", 0xFFFF), "AND"], f"cd{i}&0xffff"
        c = r.choice([0, 1, 2, 3])
        return [("PUSH", c)], str(c)

    def base(self, cls=None):
        """base slot; cls = 'm' (mapping-rooted) / 'a' (array-rooted): within one program a slot is the root of structures of
        ONE of the two classes only, as in every Solidity layout (the storage models rely on it: an array of mappings and a
        mapping of arrays rooted at the same slot are conflated by both layouts although their EVM locations differ)"""
        r = self.r

        def draw():
            if r.random() < 0.25:
                return r.choice(boundary_slots())
            return r.choice([0, 1, 2, 3, 4])

        p = draw()
        if cls is None:
            return p
        roots = self.__dict__.setdefault("roots", {})
        for _ in range(8):
            if roots.get(p, cls) == cls:
                break
            p = draw()
        else:
            p = next(q for q in range(5, 64) if roots.get(q, cls) == cls)
        roots[p] = cls
        return p

    def loc(self, depth=2):
        r = self.r
        kind = r.choice(["scalar", "map", "map", "arr", "arr", "arrc", "map2", "struct", "maparr", "arrmap", "deep"] if depth > 0
                        else ["scalar", "map", "arr", "arrc"])
        self.features.add(kind)
        p = self.base({"map": "m", "map2": "m", "maparr": "m", "deep": "m", "arr": "a", "arrc": "a", "arrmap": "a"}.get(kind))
        if kind == "scalar":
            return [("PUSH", p)], f"s{p}"
        if kind == "map":
            k, kd = self.key()
            return k + ["PUSH0", "MSTORE", ("PUSH", p), ("PUSH", 32), "MSTORE", ("PUSH", 64), "PUSH0", "SHA3"], f"m{p}[{kd}]"
        if kind == "map2":
            k1, k1d = self.key()
            k2, k2d = self.key()
            inner = k1 + ["PUSH0", "MSTORE", ("PUSH", p), ("PUSH", 32), "MSTORE", ("PUSH", 64), "PUSH0", "SHA3"]
            return inner + [("PUSH", 32), "MSTORE"] + k2 + ["PUSH0", "MSTORE", ("PUSH", 64), "PUSH0", "SHA3"], f"m{p}[{k1d}][{k2d}]"
        if kind == "arr":
            i, idesc = self.index()
            h = [("PUSH", p), "PUSH0", "MSTORE", ("PUSH", 32), "PUSH0", "SHA3"]
            return (h + i + ["ADD"]) if r.random() < 0.5 else (i + h + ["ADD"]), f"a{p}[{idesc}]"
        if kind == "arrc":
            # precomputed hash constant (as solc emits for fixed slots) plus offset
            i, idesc = self.index()
            self.preimages.append(_k32(p))
            h = [("PUSH", keccak_int(_k32(p)), 32)]
            if r.random() < 0.3:
                c = r.choice([0, 1, 2, 3])
                self.preimages.append(_k32(p))
                return [("PUSH", (keccak_int(_k32(p)) + c) % (1 << 256), 32)], f"a{p}[{c}]const"
            return (h + i + ["ADD"]) if r.random() < 0.5 else (i + h + ["ADD"]), f"a{p}[{idesc}]c"
        if kind == "struct":
            items, d = self.loc(depth - 1)
            c = r.choice([0, 1, 2])
            return (items + [("PUSH", c), "ADD"]) if r.random() < 0.6 else ([("PUSH", c)] + items + ["ADD"]), f"({d}).{c}"
        if kind == "maparr":
            # m[k] is a dynamic array: keccak(keccak(k . p)) + i
            k, kd = self.key()
            i, idesc = self.index()
            inner = k + ["PUSH0", "MSTORE", ("PUSH", p), ("PUSH", 32), "MSTORE", ("PUSH", 64), "PUSH0", "SHA3"]
            return inner + ["PUSH0", "MSTORE", ("PUSH", 32), "PUSH0", "SHA3"] + i + ["ADD"], f"m{p}[{kd}][[{idesc}]]"
        if kind == "deep":
            # mapping(k1 => Struct[]) with a mapping field: keccak(k . (keccak(keccak(k1 . p)) + 2*i + c))  (n-ary sum)
            k1, k1d = self.key()
            k, kd = self.key()
            i, idesc = self.index()
            c = r.choice([0, 1])
            inner = k1 + ["PUSH0", "MSTORE", ("PUSH", p), ("PUSH", 32), "MSTORE", ("PUSH", 64), "PUSH0", "SHA3"]
            elem = inner + ["PUSH0", "MSTORE", ("PUSH", 32), "PUSH0", "SHA3"] + i + [("PUSH", 2), "MUL", "ADD", ("PUSH", c), "ADD"]
            return elem + [("PUSH", 32), "MSTORE"] + k + ["PUSH0", "MSTORE", ("PUSH", 64), "PUSH0", "SHA3"], \
                f"m{p}[{k1d}][[{idesc}]].f{c}[{kd}]"
        if kind == "arrmap":
            # a[i] is a mapping: keccak(k . (keccak(p) + i))
            k, kd = self.key()
            i, idesc = self.index()
            elem = [("PUSH", p), "PUSH0", "MSTORE", ("PUSH", 32), "PUSH0", "SHA3"] + i + ["ADD"]
            return elem + [("PUSH", 32), "MSTORE"] + k + ["PUSH0", "MSTORE", ("PUSH", 64), "PUSH0", "SHA3"], f"a{p}[{idesc}][{kd}]"
        raise ValueError(kind)

    def f4_storage(self, transient=False):
        r = self.r
        self.preimages = []
        self.roots = {}
        ST, LD = ("TSTORE", "TLOAD") if transient else ("SSTORE", "SLOAD")
        nlocs = r.randint(2, 4)
        locs = [self.loc() for _ in range(nlocs)]
        # add a syntactic twin / neighbour of an existing location to provoke aliasing questions
        items = []
        desc = []
        nst = r.randint(2, 4)
        for s in range(nst):
            li, ld = r.choice(locs)
            k = r.random()
            if k < 0.5:
                v = [("PUSH", 4 + 32 * r.randrange(self.ncd)), "CALLDATALOAD"]
            elif k < 0.8:
                v = [("PUSH", r.choice([1, 7, 0xAB, (1 << 256) - 1]))]
            else:
                lj, _ = r.choice(locs)
                v = lj + [LD, ("PUSH", 1), "ADD"]
            items += v + li + [ST]
            desc.append(f"{ST} {ld}")
        nld = r.randint(2, 4)
        for k in range(nld):
            li, ld = r.choice(locs) if r.random() < 0.8 else self.loc(1)
            items += li + [LD, ("PUSH", 0x400 + 32 * k), "MSTORE"]
            desc.append(f"{LD} {ld}")
        items += [("PUSH", 32 * nld), ("PUSH", 0x400), "RETURN"]
        self.desc = desc
        return items
