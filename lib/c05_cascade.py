"""C05 Route A: the verdict cascade of `run_test` and the exit-code arithmetic of `_main`, read from the AST of
VERIF_REPO_SRC/halmos/__main__.py at run time and translated to z3 integer terms.

Nothing about the cascade is written down here except the *specification*; the implementation side of every
obligation is produced from the current source.  Any construct the translator does not recognise raises
`Unrecognised` (=> the obligation is inconclusive, never a violation).
"""

from __future__ import annotations

import ast
import os
from dataclasses import dataclass, field

import z3

from lib import common

MAIN_PY = os.path.join(common.REPO_SRC, "halmos", "__main__.py")

# names the specification talks about (roles are bound to halmos' own local names; another name => inconclusive)
COUNTER_KEYS = ("sat", "err", "unknown", "unsat")
INPUT_NAMES = ("counter", "stuck", "normal", "exitcode")


class Unrecognised(Exception):
    pass


def load_tree(path: str = MAIN_PY):
    with open(path) as f:
        src = f.read()
    return ast.parse(src), src


def find_func(tree, name: str) -> ast.FunctionDef:
    fs = [n for n in tree.body if isinstance(n, ast.FunctionDef) and n.name == name]
    if len(fs) != 1:
        raise Unrecognised(f"expected exactly one top-level def {name}, found {len(fs)}")
    return fs[0]


def find_class(tree, name: str) -> ast.ClassDef:
    cs = [n for n in tree.body if isinstance(n, ast.ClassDef) and n.name == name]
    if len(cs) != 1:
        raise Unrecognised(f"expected exactly one top-level class {name}, found {len(cs)}")
    return cs[0]


def enum_values(tree, name: str = "Exitcode") -> dict:
    c = find_class(tree, name)
    if not any(isinstance(b, ast.Name) and b.id == "Enum" for b in c.bases):
        raise Unrecognised(f"class {name} is not an Enum")
    out = {}
    for st in c.body:
        if (isinstance(st, ast.Assign) and len(st.targets) == 1 and isinstance(st.targets[0], ast.Name)
                and isinstance(st.value, ast.Constant) and type(st.value.value) is int):
            out[st.targets[0].id] = st.value.value
        elif isinstance(st, ast.Expr) and isinstance(st.value, ast.Constant):
            continue  # docstring
        else:
            raise Unrecognised(f"unexpected statement in enum {name}: {ast.dump(st)[:80]}")
    return out


def _enum_attr(node, enums: dict):
    """Exitcode.X.value -> int"""
    if (isinstance(node, ast.Attribute) and node.attr == "value" and isinstance(node.value, ast.Attribute)
            and isinstance(node.value.value, ast.Name) and node.value.value.id == "Exitcode"):
        nm = node.value.attr
        if nm not in enums:
            raise Unrecognised(f"Exitcode.{nm} is not defined")
        return enums[nm]
    return None


def module_consts(tree, enums: dict) -> dict:
    """top-level `NAME = Exitcode.X.value` / int constants"""
    out = {}
    for st in tree.body:
        if isinstance(st, ast.Assign) and len(st.targets) == 1 and isinstance(st.targets[0], ast.Name):
            v = _enum_attr(st.value, enums)
            if v is not None:
                out[st.targets[0].id] = v
    return out


def dataclass_fields(tree, name: str) -> list:
    c = find_class(tree, name)
    return [st.target.id for st in c.body if isinstance(st, ast.AnnAssign) and isinstance(st.target, ast.Name)]


# ---------------------------------------------------------------------------
# expression translator (LIA + Bool)
# ---------------------------------------------------------------------------
@dataclass
class Env:
    enums: dict
    consts: dict
    ints: dict = field(default_factory=dict)  # python name -> z3 Int
    lens: dict = field(default_factory=dict)  # python name -> z3 Int standing for len(name)
    counters: dict = field(default_factory=dict)  # counter name -> {key -> z3 Int}
    reads: set = field(default_factory=set)

    def counter_var(self, cname: str, key: str):
        d = self.counters[cname]
        if key not in d:
            d[key] = z3.Int(f"{cname}[{key!r}]")
        return d[key]


def tr_int(node, env: Env):
    v = _enum_attr(node, env.enums)
    if v is not None:
        return z3.IntVal(v)
    if isinstance(node, ast.Constant) and type(node.value) is int:
        return z3.IntVal(node.value)
    if isinstance(node, ast.Constant) and type(node.value) is bool:
        return z3.IntVal(int(node.value))
    if isinstance(node, ast.Name):
        if node.id in env.ints:
            env.reads.add(node.id)
            return env.ints[node.id]
        if node.id in env.consts:
            return z3.IntVal(env.consts[node.id])
        raise Unrecognised(f"read of unknown name {node.id!r}")
    if (isinstance(node, ast.Subscript) and isinstance(node.value, ast.Name) and node.value.id in env.counters
            and isinstance(node.slice, ast.Constant) and isinstance(node.slice.value, str)):
        env.reads.add(f"{node.value.id}[{node.slice.value!r}]")
        return env.counter_var(node.value.id, node.slice.value)
    if (isinstance(node, ast.Call) and isinstance(node.func, ast.Name) and node.func.id == "len" and len(node.args) == 1
            and not node.keywords and isinstance(node.args[0], ast.Name) and node.args[0].id in env.lens):
        env.reads.add(f"len({node.args[0].id})")
        return env.lens[node.args[0].id]
    if isinstance(node, ast.BinOp) and isinstance(node.op, (ast.Add, ast.Sub, ast.Mult)):
        a, b = tr_int(node.left, env), tr_int(node.right, env)
        return a + b if isinstance(node.op, ast.Add) else a - b if isinstance(node.op, ast.Sub) else a * b
    if isinstance(node, ast.UnaryOp) and isinstance(node.op, ast.USub):
        return -tr_int(node.operand, env)
    if isinstance(node, ast.IfExp):
        return z3.If(tr_bool(node.test, env), tr_int(node.body, env), tr_int(node.orelse, env))
    if (isinstance(node, ast.Call) and isinstance(node.func, ast.Name) and node.func.id in ("max", "min")
            and len(node.args) == 2 and not node.keywords):
        a, b = tr_int(node.args[0], env), tr_int(node.args[1], env)
        return z3.If(a >= b, a, b) if node.func.id == "max" else z3.If(a <= b, a, b)
    raise Unrecognised(f"integer expression not supported: {ast.unparse(node)[:80]}")


_CMP = {ast.Gt: lambda a, b: a > b, ast.GtE: lambda a, b: a >= b, ast.Lt: lambda a, b: a < b,
        ast.LtE: lambda a, b: a <= b, ast.Eq: lambda a, b: a == b, ast.NotEq: lambda a, b: a != b}


def tr_bool(node, env: Env):
    if isinstance(node, ast.Compare):
        terms = [tr_int(node.left, env)] + [tr_int(c, env) for c in node.comparators]
        cs = []
        for op, a, b in zip(node.ops, terms, terms[1:]):
            if type(op) not in _CMP:
                raise Unrecognised(f"comparison {type(op).__name__}")
            cs.append(_CMP[type(op)](a, b))
        return z3.And(*cs) if len(cs) > 1 else cs[0]
    if isinstance(node, ast.BoolOp):
        vs = [tr_bool(v, env) for v in node.values]
        return z3.And(*vs) if isinstance(node.op, ast.And) else z3.Or(*vs)
    if isinstance(node, ast.UnaryOp) and isinstance(node.op, ast.Not):
        return z3.Not(tr_bool(node.operand, env))
    if isinstance(node, ast.Constant) and type(node.value) is bool:
        return z3.BoolVal(node.value)
    # truthiness of an int expression (`if counter["sat"]:` / `if not normal:`)
    return tr_int(node, env) != 0


# ---------------------------------------------------------------------------
# run_test cascade
# ---------------------------------------------------------------------------
def _stores(node) -> set:
    """names (re)bound anywhere below node"""
    out = set()
    for n in ast.walk(node):
        if isinstance(n, ast.Name) and isinstance(n.ctx, (ast.Store, ast.Del)):
            out.add(n.id)
        elif isinstance(n, ast.arg):
            out.add(n.arg)
    return out


def _is_counter_of_results(value) -> bool:
    """Counter(str(m.result) for m in ctx.solver_outputs)"""
    if not (isinstance(value, ast.Call) and isinstance(value.func, ast.Name) and value.func.id == "Counter"
            and len(value.args) == 1 and not value.keywords and isinstance(value.args[0], ast.GeneratorExp)):
        return False
    g = value.args[0]
    if len(g.generators) != 1:
        return False
    comp = g.generators[0]
    if comp.ifs or comp.is_async or not isinstance(comp.target, ast.Name):
        return False
    it = comp.iter
    if not (isinstance(it, ast.Attribute) and it.attr == "solver_outputs" and isinstance(it.value, ast.Name)
            and it.value.id == "ctx"):
        return False
    e = g.elt
    return (isinstance(e, ast.Call) and isinstance(e.func, ast.Name) and e.func.id == "str" and len(e.args) == 1
            and isinstance(e.args[0], ast.Attribute) and e.args[0].attr == "result"
            and isinstance(e.args[0].value, ast.Name) and e.args[0].value.id == comp.target.id)


@dataclass
class Cascade:
    term: object  # z3 Int: exitcode as a function of the inputs
    label: object | None  # z3 Int index into LABELS (None when labels were not recognised)
    inputs: dict  # role -> z3 Int  (sat, err, unknown, unsat, stuck, normal)
    enums: dict
    consts: dict
    reads: list
    lineno: int
    end_lineno: int
    nonneg: list
    source: str
    label_note: str = ""


LABELS = ["[PASS]", "[FAIL]", "[ERROR]", "[TIMEOUT]"]


def _branch(stmts, env: Env):
    """one branch of the cascade -> (exitcode term, label string|None)"""
    code, label = None, None
    for st in stmts:
        if isinstance(st, ast.Assign) and len(st.targets) == 1 and isinstance(st.targets[0], ast.Name):
            tgt = st.targets[0].id
            if tgt == "exitcode":
                if code is not None:
                    raise Unrecognised("exitcode assigned twice in one branch")
                code = tr_int(st.value, env)
                continue
            if tgt in INPUT_NAMES:
                raise Unrecognised(f"branch rebinds {tgt}")
            if tgt == "passfail":
                v = st.value
                if (isinstance(v, ast.Call) and len(v.args) == 1 and isinstance(v.args[0], ast.Constant)
                        and isinstance(v.args[0].value, str)):
                    label = v.args[0].value
                elif isinstance(v, ast.Constant) and isinstance(v.value, str):
                    label = v.value
            _no_input_mention(st.value)
            continue
        if isinstance(st, ast.Expr) and isinstance(st.value, (ast.Call, ast.Constant)):
            _no_input_mention(st.value)
            continue
        raise Unrecognised(f"statement in cascade branch not supported: {ast.unparse(st)[:80]}")
    if code is None:
        raise Unrecognised("a cascade branch does not assign exitcode")
    return code, label


def _no_input_mention(node):
    for n in ast.walk(node):
        if isinstance(n, ast.Name) and n.id in INPUT_NAMES:
            raise Unrecognised(f"side statement mentions {n.id}")
        if isinstance(n, (ast.NamedExpr, ast.Lambda, ast.Await, ast.Yield, ast.YieldFrom)):
            raise Unrecognised("side statement too complex")


def _cascade_if(node: ast.If, env: Env):
    cond = tr_bool(node.test, env)
    code_t, lab_t = _branch(node.body, env)
    if len(node.orelse) == 1 and isinstance(node.orelse[0], ast.If):
        code_e, lab_e = _cascade_if(node.orelse[0], env)
    elif node.orelse:
        code_e, lab_e = _branch(node.orelse, env)
        lab_e = _label_term(lab_e)
    else:
        raise Unrecognised("cascade without a final else")
    lt = _label_term(lab_t)
    lab = None if (lt is None or lab_e is None) else z3.If(cond, lt, lab_e)
    return z3.If(cond, code_t, code_e), lab


def _label_term(label):
    if label is None:
        return None
    if isinstance(label, str):
        return z3.IntVal(LABELS.index(label)) if label in LABELS else None
    return label


def extract_cascade(tree=None, src=None) -> Cascade:
    if tree is None:
        tree, src = load_tree()
    enums = enum_values(tree)
    consts = module_consts(tree, enums)
    fn = find_func(tree, "run_test")
    body = fn.body

    # the Counter over the multiset of solver results
    idx = [i for i, st in enumerate(body) if isinstance(st, ast.Assign) and len(st.targets) == 1
           and isinstance(st.targets[0], ast.Name) and st.targets[0].id == "counter"]
    if len(idx) != 1:
        raise Unrecognised(f"expected one top-level assignment to `counter` in run_test, found {len(idx)}")
    ci = idx[0]
    if not _is_counter_of_results(body[ci].value):
        raise Unrecognised("`counter` is not Counter(str(m.result) for m in ctx.solver_outputs): "
                           + ast.unparse(body[ci].value)[:100])
    # cascade = the top-level If after it that assigns exitcode
    cands = [i for i, st in enumerate(body) if i > ci and isinstance(st, ast.If) and "exitcode" in _stores(st)]
    if len(cands) != 1:
        raise Unrecognised(f"expected one top-level `if` assigning exitcode after `counter`, found {len(cands)}")
    ki = cands[0]
    # nothing between the Counter and the cascade may touch the inputs
    for st in body[ci + 1:ki]:
        if _stores(st) & set(INPUT_NAMES):
            raise Unrecognised("an input of the cascade is rebound between Counter(...) and the cascade")
    # exitcode must not be bound anywhere else; counter only there
    for i, st in enumerate(body):
        if i in (ci, ki):
            continue
        s = _stores(st)
        if "exitcode" in s or "counter" in s:
            raise Unrecognised(f"exitcode/counter also bound at line {st.lineno}")
    # `normal`: initialised to 0, otherwise only `normal += <positive const>`; `stuck`: [] and only .append
    _check_count_var(fn, "normal")
    _check_list_var(fn, "stuck")
    # all returns come after the cascade and hand exitcode to TestResult in the exitcode position
    fields = dataclass_fields(tree, "TestResult")
    if "exitcode" not in fields:
        raise Unrecognised("TestResult has no exitcode field")
    pos = fields.index("exitcode")
    rets = [n for n in ast.walk(fn) if isinstance(n, ast.Return)]
    if not rets:
        raise Unrecognised("run_test has no return")
    for r in rets:
        if r.lineno <= body[ki].end_lineno:
            raise Unrecognised(f"return before the end of the cascade (line {r.lineno})")
        v = r.value
        if not (isinstance(v, ast.Call) and isinstance(v.func, ast.Name) and v.func.id == "TestResult"):
            raise Unrecognised(f"return at line {r.lineno} is not TestResult(...)")
        arg = v.args[pos] if len(v.args) > pos else next((k.value for k in v.keywords if k.arg == "exitcode"), None)
        if not (isinstance(arg, ast.Name) and arg.id == "exitcode"):
            raise Unrecognised(f"return at line {r.lineno} does not pass `exitcode` as TestResult.exitcode")

    env = Env(enums, consts)
    env.counters["counter"] = {}
    env.ints["normal"] = z3.Int("normal")
    env.lens["stuck"] = z3.Int("len(stuck)")
    term, label = _cascade_if(body[ki], env)
    cvars = env.counters["counter"]
    inputs = {k: env.counter_var("counter", k) for k in COUNTER_KEYS}
    extra = [k for k in cvars if k not in COUNTER_KEYS]
    if extra:
        raise Unrecognised(f"cascade reads Counter keys outside the result alphabet: {extra}")
    inputs["stuck"] = env.lens["stuck"]
    inputs["normal"] = env.ints["normal"]
    nonneg = [v >= 0 for v in inputs.values()]
    seg = "\n".join(src.splitlines()[body[ci].lineno - 1:body[ki].end_lineno]) if src else ""
    return Cascade(term, label, inputs, enums, consts, sorted(env.reads), body[ki].lineno, body[ki].end_lineno,
                   nonneg, seg, "" if label is not None else "passfail labels not recognised")


def _store_sites(fn, name) -> int:
    """number of places in fn that (re)bind `name` in any way"""
    k = 0
    for n in ast.walk(fn):
        if isinstance(n, ast.Name) and n.id == name and isinstance(n.ctx, (ast.Store, ast.Del)):
            k += 1
        elif isinstance(n, ast.arg) and n.arg == name:
            k += 1
        elif isinstance(n, ast.ExceptHandler) and n.name == name:
            k += 1
        elif isinstance(n, (ast.Global, ast.Nonlocal)) and name in n.names:
            k += 1
        elif isinstance(n, ast.alias) and (n.asname or n.name) == name:
            k += 1
        elif isinstance(n, (ast.FunctionDef, ast.ClassDef)) and n is not fn and n.name == name:
            k += 1
    return k


def _check_count_var(fn, name):
    """`name` is a non-negative count: bound once to 0 and otherwise only `name += <positive int>`"""
    n_init = n_inc = 0
    for n in ast.walk(fn):
        if isinstance(n, ast.Assign) and len(n.targets) == 1 and isinstance(n.targets[0], ast.Name) \
                and n.targets[0].id == name:
            if not (isinstance(n.value, ast.Constant) and type(n.value.value) is int and n.value.value == 0):
                raise Unrecognised(f"{name} assigned something other than 0 at line {n.lineno}")
            n_init += 1
        elif isinstance(n, ast.AugAssign) and isinstance(n.target, ast.Name) and n.target.id == name:
            if not (isinstance(n.op, ast.Add) and isinstance(n.value, ast.Constant) and type(n.value.value) is int
                    and n.value.value > 0):
                raise Unrecognised(f"{name} updated other than `+= <positive int>` at line {n.lineno}")
            n_inc += 1
    if n_init != 1:
        raise Unrecognised(f"{name} initialised {n_init} times")
    if _store_sites(fn, name) != n_init + n_inc:
        raise Unrecognised(f"{name} is bound in a way the translator does not recognise")


def _check_list_var(fn, name):
    """`name` is a list that starts empty and is only appended to (so len(name) >= 0 is its only observable here)"""
    n_init = 0
    for n in ast.walk(fn):
        if isinstance(n, ast.Assign) and len(n.targets) == 1 and isinstance(n.targets[0], ast.Name) \
                and n.targets[0].id == name:
            if not (isinstance(n.value, ast.List) and not n.value.elts):
                raise Unrecognised(f"{name} assigned something other than [] at line {n.lineno}")
            n_init += 1
        elif isinstance(n, ast.Attribute) and isinstance(n.value, ast.Name) and n.value.id == name:
            if n.attr != "append":
                raise Unrecognised(f"{name}.{n.attr} used at line {n.lineno}")
    if n_init != 1:
        raise Unrecognised(f"{name} initialised {n_init} times")
    if _store_sites(fn, name) != n_init:
        raise Unrecognised(f"{name} is bound in a way the translator does not recognise")


# ---------------------------------------------------------------------------
# specification of the cascade (independent of the source)
# ---------------------------------------------------------------------------
SPEC_ORDER = ["COUNTEREXAMPLE", "EXCEPTION", "TIMEOUT", "STUCK", "REVERT_ALL", "PASS"]
SPEC_LABEL = {"COUNTEREXAMPLE": "[FAIL]", "EXCEPTION": "[ERROR]", "TIMEOUT": "[TIMEOUT]", "STUCK": "[ERROR]",
              "REVERT_ALL": "[ERROR]", "PASS": "[PASS]"}


def spec_class(i: dict):
    """index into SPEC_ORDER as a z3 Int: FAIL > ERROR > TIMEOUT > STUCK > REVERT_ALL > PASS"""
    return z3.If(i["sat"] > 0, 0, z3.If(i["err"] > 0, 1, z3.If(i["unknown"] > 0, 2, z3.If(i["stuck"] > 0, 3,
                 z3.If(i["normal"] == 0, 4, 5)))))


def spec_exitcode(i: dict, enums: dict):
    missing = [n for n in SPEC_ORDER if n not in enums]
    if missing:
        raise Unrecognised(f"Exitcode lacks members {missing}")
    c = spec_class(i)
    t = z3.IntVal(enums[SPEC_ORDER[-1]])
    for k in range(len(SPEC_ORDER) - 2, -1, -1):
        t = z3.If(c == k, enums[SPEC_ORDER[k]], t)
    return t


def spec_label(i: dict):
    c = spec_class(i)
    t = z3.IntVal(LABELS.index(SPEC_LABEL[SPEC_ORDER[-1]]))
    for k in range(len(SPEC_ORDER) - 2, -1, -1):
        t = z3.If(c == k, LABELS.index(SPEC_LABEL[SPEC_ORDER[k]]), t)
    return t


def spec_cascade(tree=None) -> Cascade:
    """the SPECIFIED verdict function in the shape of an extracted cascade: used to judge runs of the real run_test when
    its verdict block is not recognised by the extractor (the obligation A-cascade is then inconclusive, the end-to-end
    comparison is not)"""
    if tree is None:
        tree, _ = load_tree()
    enums = enum_values(tree)
    inputs = {k: z3.Int(f"spec_{k}") for k in ("sat", "err", "unknown", "unsat", "stuck", "normal")}
    return Cascade(spec_exitcode(inputs, enums), spec_label(inputs), inputs, enums, {}, [], 0, 0,
                   [v >= 0 for v in inputs.values()], "specification table", "")


def evaluate(c: Cascade, counts: dict) -> int:
    """the extracted function applied to concrete counts (used for the predictions of part 3)"""
    subs = [(v, z3.IntVal(int(counts.get(k, 0)))) for k, v in c.inputs.items()]
    r = z3.simplify(z3.substitute(c.term, *subs))
    if not z3.is_int_value(r):
        raise Unrecognised(f"cascade does not evaluate to a constant on {counts}: {r}")
    return r.as_long()


def evaluate_label(c: Cascade, counts: dict) -> str | None:
    if c.label is None:
        return None
    subs = [(v, z3.IntVal(int(counts.get(k, 0)))) for k, v in c.inputs.items()]
    r = z3.simplify(z3.substitute(c.label, *subs))
    return LABELS[r.as_long()] if z3.is_int_value(r) else None


# ---------------------------------------------------------------------------
# _main exit code arithmetic
# ---------------------------------------------------------------------------
@dataclass
class MainArith:
    init: dict  # total_* -> z3 IntVal
    step: dict  # total_* after one loop iteration (terms over pre-state + per-contract vars)
    pre: dict  # pre-state z3 Ints
    per: dict  # num_found, n_results, num_passed z3 Ints
    exit_term: object  # exit code as a term over pre["total_failed"] (final state)
    zero_found_exit: int | None
    notes: list
    source: str


def _is_passed_count(value, consts, enums) -> str | None:
    """sum(r.exitcode == PASS for r in test_results) -> 'test_results'"""
    if not (isinstance(value, ast.Call) and isinstance(value.func, ast.Name) and value.func.id == "sum"
            and len(value.args) == 1 and not value.keywords and isinstance(value.args[0], ast.GeneratorExp)):
        return None
    g = value.args[0]
    if len(g.generators) != 1:
        return None
    comp = g.generators[0]
    if comp.ifs or not isinstance(comp.target, ast.Name) or not isinstance(comp.iter, ast.Name):
        return None
    e = g.elt
    if not (isinstance(e, ast.Compare) and len(e.ops) == 1 and isinstance(e.ops[0], ast.Eq)):
        return None
    lhs, rhs = e.left, e.comparators[0]
    if not (isinstance(lhs, ast.Attribute) and lhs.attr == "exitcode" and isinstance(lhs.value, ast.Name)
            and lhs.value.id == comp.target.id):
        return None
    pv = _enum_attr(rhs, enums)
    if pv is None and isinstance(rhs, ast.Name):
        pv = consts.get(rhs.id)
    if pv is None and isinstance(rhs, ast.Constant) and type(rhs.value) is int:
        pv = rhs.value
    if pv is None or pv != enums.get("PASS"):
        return None
    return comp.iter.id


TOTALS = ("total_passed", "total_failed", "total_found")
PER = ("num_found", "num_passed", "num_failed")


def extract_main(tree=None, src=None) -> MainArith:
    if tree is None:
        tree, src = load_tree()
    enums = enum_values(tree)
    consts = module_consts(tree, enums)
    fn = find_func(tree, "_main")
    notes = []
    env = Env(enums, consts)

    # initialisation at the top level of _main
    init = {}
    for st in fn.body:
        if isinstance(st, ast.Assign) and len(st.targets) == 1 and isinstance(st.targets[0], ast.Name) \
                and st.targets[0].id in TOTALS:
            if st.targets[0].id in init:
                raise Unrecognised(f"{st.targets[0].id} initialised twice")
            init[st.targets[0].id] = tr_int(st.value, env)
    if set(init) != set(TOTALS):
        raise Unrecognised(f"totals initialised: {sorted(init)}")

    # the loop running the contracts
    loops = [st for st in fn.body if isinstance(st, ast.For) and any(
        isinstance(n, ast.Call) and isinstance(n.func, ast.Name) and n.func.id == "run_contract" for n in ast.walk(st))]
    if len(loops) != 1:
        raise Unrecognised(f"expected one top-level for-loop calling run_contract, found {len(loops)}")
    loop = loops[0]
    if loop.orelse:
        raise Unrecognised("for-else")
    pre = {t: z3.Int(t) for t in TOTALS}
    per = {"num_found": z3.Int("num_found"), "n_results": z3.Int("len(test_results)"),
           "num_passed": z3.Int("num_passed")}
    env.ints.update(pre)
    results_name = None
    seen_run = False
    for st in loop.body:
        s = _stores(st)
        tracked = s & (set(TOTALS) | set(PER) | {"test_results"})
        if not tracked:
            # statements that do not bind tracked names: allowed if they cannot leave the iteration half-done
            if seen_run and any(isinstance(n, (ast.Continue, ast.Break, ast.Return)) for n in ast.walk(st)):
                raise Unrecognised(f"control flow leaves the iteration after run_contract (line {st.lineno})")
            continue
        if isinstance(st, ast.Assign) and len(st.targets) == 1 and isinstance(st.targets[0], ast.Name):
            tgt, val = st.targets[0].id, st.value
            if tgt == "num_found":
                if not (isinstance(val, ast.Call) and isinstance(val.func, ast.Name) and val.func.id == "len"):
                    raise Unrecognised("num_found is not len(...)")
                env.ints["num_found"] = per["num_found"]
                continue
            if tgt == "test_results":
                if not (isinstance(val, ast.Call) and isinstance(val.func, ast.Name) and val.func.id == "run_contract"):
                    raise Unrecognised("test_results is not run_contract(...)")
                results_name = "test_results"
                env.lens["test_results"] = per["n_results"]
                seen_run = True
                continue
            if tgt == "num_passed":
                it = _is_passed_count(val, consts, enums)
                if it is None or it != results_name:
                    raise Unrecognised("num_passed is not sum(r.exitcode == PASS for r in test_results): "
                                       + ast.unparse(val)[:100])
                env.ints["num_passed"] = per["num_passed"]
                continue
            if tgt == "num_failed":
                env.ints["num_failed"] = tr_int(val, env)
                continue
            raise Unrecognised(f"assignment to {tgt} in the contract loop")
        if isinstance(st, ast.AugAssign) and isinstance(st.target, ast.Name) and st.target.id in TOTALS:
            v = tr_int(st.value, env)
            cur = env.ints[st.target.id]
            if isinstance(st.op, ast.Add):
                env.ints[st.target.id] = cur + v
            elif isinstance(st.op, ast.Sub):
                env.ints[st.target.id] = cur - v
            else:
                raise Unrecognised("augmented assignment operator")
            continue
        raise Unrecognised(f"statement binding {sorted(tracked)} not supported: {ast.unparse(st)[:80]}")
    if not seen_run:
        raise Unrecognised("run_contract result not bound in the loop")
    step = {t: env.ints[t] for t in TOTALS}

    # after the loop: optional `if total_found == 0: ... return MainResult(k)`, then exitcode = <expr>, return on_exit(exitcode)
    li = fn.body.index(loop)
    fenv = Env(enums, consts)
    fenv.ints.update(pre)
    exit_term, zero_found_exit = None, None
    for st in fn.body[li + 1:]:
        s = _stores(st)
        if s & set(TOTALS):
            raise Unrecognised(f"totals rebound after the loop (line {st.lineno})")
        if isinstance(st, ast.If) and any(isinstance(n, ast.Return) for n in ast.walk(st)):
            t = st.test
            if (isinstance(t, ast.Compare) and isinstance(t.left, ast.Name) and t.left.id == "total_found"
                    and len(t.ops) == 1 and isinstance(t.ops[0], ast.Eq) and isinstance(t.comparators[0], ast.Constant)
                    and t.comparators[0].value == 0):
                r = [n for n in ast.walk(st) if isinstance(n, ast.Return)][0].value
                if isinstance(r, ast.Call) and r.args and isinstance(r.args[0], ast.Constant):
                    zero_found_exit = r.args[0].value
                notes.append("`if total_found == 0: return MainResult(%s)` (no test selected) is outside the claim"
                             % zero_found_exit)
                continue
            raise Unrecognised(f"early return after the loop at line {st.lineno}")
        if isinstance(st, ast.Assign) and len(st.targets) == 1 and isinstance(st.targets[0], ast.Name) \
                and st.targets[0].id == "exitcode":
            if exit_term is not None:
                raise Unrecognised("exitcode assigned twice after the loop")
            exit_term = tr_int(st.value, fenv)
            continue
        if "exitcode" in s:
            raise Unrecognised(f"exitcode bound by a compound statement at line {st.lineno}")
        if isinstance(st, ast.Return):
            v = st.value
            if not (isinstance(v, ast.Call) and isinstance(v.func, ast.Name) and v.func.id == "on_exit"
                    and len(v.args) == 1 and isinstance(v.args[0], ast.Name) and v.args[0].id == "exitcode"):
                raise Unrecognised("final return is not on_exit(exitcode)")
    if exit_term is None:
        raise Unrecognised("no `exitcode = ...` after the contract loop")
    # on_exit(exitcode) must hand its parameter to MainResult unchanged
    oe = [n for n in fn.body if isinstance(n, ast.FunctionDef) and n.name == "on_exit"]
    if len(oe) != 1:
        raise Unrecognised("on_exit not found")
    oe = oe[0]
    pname = oe.args.args[0].arg if oe.args.args else None
    mr = [n for n in ast.walk(oe) if isinstance(n, ast.Call) and isinstance(n.func, ast.Name) and n.func.id == "MainResult"]
    if len(mr) != 1 or not mr[0].args or not (isinstance(mr[0].args[0], ast.Name) and mr[0].args[0].id == pname):
        raise Unrecognised("on_exit does not build MainResult(<its parameter>, ...)")
    if pname in _stores(ast.Module(body=oe.body, type_ignores=[])):
        raise Unrecognised("on_exit rebinds its parameter")
    if dataclass_fields(tree, "MainResult")[:1] != ["exitcode"]:
        raise Unrecognised("MainResult's first field is not exitcode")
    seg = "\n".join(src.splitlines()[loop.body[0].lineno - 1:loop.end_lineno]) if src else ""
    return MainArith(init, step, pre, per, exit_term, zero_found_exit, notes, seg)
