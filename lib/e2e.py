"""End-to-end harness: hand-assembled test contracts -> build artifacts -> the real run_contract / _main.

Nothing of halmos is re-implemented here: the module only manufactures what `forge build` would have produced
(creation/runtime bytecode, ABI, method identifiers, devdoc, AST stub) and calls the real entry points, capturing
the `halmos` logger and stdout.
"""

from __future__ import annotations

import contextlib
import io
import json
import logging
import os
import re
import shutil
import tempfile
from dataclasses import dataclass, field

from eth_hash.auto import keccak

from lib import asm

COMPILER = "0.8.26+commit.8a97fa7a"


def selector(sig: str) -> bytes:
    return keccak(sig.encode())[:4]


# ---------------------------------------------------------------------------
# signature -> ABI json
# ---------------------------------------------------------------------------
def _split_top(s: str) -> list[str]:
    out, depth, cur = [], 0, ""
    for ch in s:
        if ch == "(":
            depth += 1
        elif ch == ")":
            depth -= 1
        if ch == "," and depth == 0:
            out.append(cur)
            cur = ""
        else:
            cur += ch
    if cur:
        out.append(cur)
    return out


def abi_param(typ: str, name: str) -> dict:
    typ = typ.strip()
    if typ.startswith("("):
        # find matching paren
        depth = 0
        for i, ch in enumerate(typ):
            if ch == "(":
                depth += 1
            elif ch == ")":
                depth -= 1
                if depth == 0:
                    break
        inner, suffix = typ[1:i], typ[i + 1:]
        comps = [abi_param(t, f"{name}_{k}") for k, t in enumerate(_split_top(inner))]
        return {"name": name, "type": "tuple" + suffix, "internalType": "struct S" + suffix, "components": comps}
    return {"name": name, "type": typ, "internalType": typ}


def abi_item(sig: str, mutability="nonpayable") -> dict:
    name, rest = sig.split("(", 1)
    inner = rest[: rest.rindex(")")]
    inputs = [abi_param(t, f"p{k}") for k, t in enumerate(_split_top(inner))]
    return {"type": "function", "name": name, "inputs": inputs, "outputs": [], "stateMutability": mutability}


# ---------------------------------------------------------------------------
# contract DSL
# ---------------------------------------------------------------------------
def _rename(items, prefix):
    out = []
    for it in items:
        if isinstance(it, tuple) and len(it) > 1 and isinstance(it[1], str) and it[1].startswith("data."):
            out.append(it)  # global data marks (Spec.data) are not function-local
        elif isinstance(it, tuple) and it[0] in ("LABEL", "PUSHL", "MARK", "PUSHM"):
            out.append((it[0], f"{prefix}.{it[1]}"))
        elif isinstance(it, tuple) and it[0] == "PUSHSIZE":
            out.append((it[0], f"{prefix}.{it[1]}", f"{prefix}.{it[2]}"))
        else:
            out.append(it)
    return out


@dataclass
class Spec:
    """a contract: list of (signature, body items); a body starts with an empty stack and must halt itself"""
    name: str
    fns: list = field(default_factory=list)  # (sig, items) or (sig, items, mutability)
    ctor: list = field(default_factory=list)
    fallback: list | None = None  # items run when no selector matches (default: revert(0,0))
    devdoc: dict = field(default_factory=dict)  # sig -> "--loop 3 ..."
    natspec: str | None = None  # contract-level documentation text, e.g. "@custom:halmos --loop 3"
    filename: str | None = None
    extra_abi: list = field(default_factory=list)
    raw_runtime: bytes | None = None
    data: dict = field(default_factory=dict)  # name -> bytes appended after the code; marks data.<name> / data.<name>.end

    def sigs(self):
        return [f[0] for f in self.fns]

    def runtime(self) -> bytes:
        if self.raw_runtime is not None:
            return self.raw_runtime
        items = ["PUSH0", "CALLDATALOAD", ("PUSH", 224), "SHR"]
        # calldata shorter than 4 bytes -> fallback
        for k, f in enumerate(self.fns):
            items += ["DUP1", ("PUSH", int.from_bytes(selector(f[0]), "big"), 4), "EQ", ("PUSHL", f"fn{k}"), "JUMPI"]
        items += ["POP"] + (_rename(self.fallback, "fb") if self.fallback is not None else ["PUSH0", "PUSH0", "REVERT"])
        for k, f in enumerate(self.fns):
            items += [("LABEL", f"fn{k}"), "POP"] + _rename(f[1], f"f{k}") + ["STOP"]
        for name, blob in self.data.items():
            items += [("MARK", f"data.{name}"), bytes(blob), ("MARK", f"data.{name}.end")]
        return asm.assemble(items)

    def creation(self) -> bytes:
        return asm.creation_code(self.runtime(), _rename(self.ctor, "ctor"))

    def method_identifiers(self) -> dict:
        return {f[0]: selector(f[0]).hex() for f in self.fns}

    def abi(self) -> list:
        return [abi_item(f[0], f[2] if len(f) > 2 else "nonpayable") for f in self.fns] + list(self.extra_abi)

    def sol_name(self) -> str:
        return self.filename or f"{self.name}.sol"

    def json(self) -> dict:
        node = {"nodeType": "ContractDefinition", "name": self.name, "contractKind": "contract", "abstract": False,
                "nodes": [{"nodeType": "FunctionDefinition", "name": f[0].split("(")[0],
                           "functionSelector": selector(f[0]).hex()} for f in self.fns]}
        if self.natspec is not None:
            node["documentation"] = {"text": self.natspec}
        return {
            "abi": self.abi(),
            "bytecode": {"object": "0x" + self.creation().hex(), "linkReferences": {}, "sourceMap": ""},
            "deployedBytecode": {"object": "0x" + self.runtime().hex(), "linkReferences": {}, "sourceMap": "",
                                 "immutableReferences": {}},
            "methodIdentifiers": self.method_identifiers(),
            "metadata": {"compiler": {"version": COMPILER},
                         "output": {"devdoc": {"methods": {s: {"custom:halmos": v} for s, v in self.devdoc.items()}}}},
            "ast": {"absolutePath": f"test/{self.sol_name()}", "nodes": [node], "nodeType": "SourceUnit"},
            "id": 0,
            "storageLayout": {"storage": [], "types": {}},
        }


def build_out_map(specs) -> dict:
    out = {}
    for s in specs:
        j = s.json()
        out.setdefault(s.sol_name(), {})[s.name] = (j, "contract", j["ast"]["nodes"][0].get("documentation"))
    return out


# ---------------------------------------------------------------------------
# running
# ---------------------------------------------------------------------------
class _Capture(logging.Handler):
    def __init__(self):
        super().__init__(level=logging.DEBUG)
        self.records = []

    def emit(self, record):
        try:
            self.records.append((record.levelname, record.getMessage()))
        except Exception:
            pass


@dataclass
class Outcome:
    results: list
    warnings: list  # (level, message)
    stdout: str
    exception: BaseException | None = None
    main: object = None
    ctx: object = None

    def warned(self, needle: str) -> bool:
        return any(needle in m for _, m in self.warnings)

    def result(self, sig_prefix: str):
        for r in self.results:
            if r.name.startswith(sig_prefix):
                return r
        return None

    def line(self, sig_prefix: str) -> str:
        for ln in self.stdout.splitlines():
            if re.search(r"\[(PASS|FAIL|ERROR|TIMEOUT)\]", ln) and sig_prefix in ln:
                return ln
        return ""


@contextlib.contextmanager
def capture():
    import halmos.logs as hl

    cap = _Capture()
    loggers = [hl.logger, hl.logger_unique]
    # NOTE: halmos' process-wide "unique" log filter is deliberately left alone: whether a later test still gets its
    # warning after an earlier one printed the same text is part of the behaviour under test (C10)
    old = [(lg.level, lg.propagate) for lg in loggers]
    hl.logger.addHandler(cap)
    hl.logger.setLevel(logging.INFO)
    hl.logger_unique.setLevel(logging.INFO)
    hl.logger.propagate = False  # keep rich output off the terminal
    buf = io.StringIO()
    try:
        with contextlib.redirect_stdout(buf), contextlib.redirect_stderr(io.StringIO()):
            yield cap, buf
    finally:
        hl.logger.removeHandler(cap)
        for lg, (lvl, prop) in zip(loggers, old):
            lg.setLevel(lvl)
            lg.propagate = prop


def mk_args(**over):
    from halmos.config import ConfigSource, default_config

    args = default_config()
    base = dict(no_status=True)
    base.update(over)
    return args.with_overrides(ConfigSource.command_line, **base)


def contract_ctx(spec: Spec, args=None, others=(), funsigs=None):
    from halmos.calldata import get_abi
    from halmos.mapper import DeployAddressMapper
    from halmos.solve import ContractContext
    from halmos.utils import hexify
    from halmos.sevm import FOUNDRY_TEST

    args = args if args is not None else mk_args()
    bom = build_out_map([spec, *others])
    cj = bom[spec.sol_name()][spec.name][0]
    if funsigs is None:
        funsigs = [s for s in spec.sigs() if re.search(r"^(test|check|invariant)_?", s)]
    with contextlib.suppress(Exception):
        DeployAddressMapper().add_deployed_contract(hexify(FOUNDRY_TEST), spec.name)
    from halmos.__main__ import with_natspec

    cargs = with_natspec(args, spec.name, cj["ast"]["nodes"][0].get("documentation"))
    return ContractContext(
        args=cargs, name=spec.name, funsigs=list(funsigs), creation_hexcode=cj["bytecode"]["object"],
        deployed_hexcode=cj["deployedBytecode"]["object"], abi=get_abi(cj), method_identifiers=cj["methodIdentifiers"],
        contract_json=cj, libs={}, build_out_map=bom,
    )


def run(spec: Spec, args=None, others=(), funsigs=None, **over) -> Outcome:
    """the real run_contract on a hand-assembled artifact"""
    from halmos.__main__ import run_contract

    if args is None:
        args = mk_args(**over)
    ctx = contract_ctx(spec, args, others, funsigs)
    with capture() as (cap, buf):
        exc = None
        try:
            results = run_contract(ctx)
        except Exception as e:  # run_contract itself is not supposed to raise
            results, exc = [], e
    return Outcome(results, cap.records, buf.getvalue(), exc, ctx=ctx)


def write_out_tree(root: str, specs, toml: str | None = None):
    out = os.path.join(root, "out")
    for s in specs:
        d = os.path.join(out, s.sol_name())
        os.makedirs(d, exist_ok=True)
        with open(os.path.join(d, f"{s.name}.json"), "w") as f:
            json.dump(s.json(), f)
    with open(os.path.join(root, "foundry.toml"), "w") as f:
        f.write("[profile.default]\n")
    if toml is not None:
        with open(os.path.join(root, "halmos.toml"), "w") as f:
            f.write(toml)


def run_main(specs, argv=(), toml: str | None = None) -> Outcome:
    """the real _main([...]) with `forge build` stubbed and a synthetic out/ tree"""
    import halmos.__main__ as hm

    root = tempfile.mkdtemp(prefix="verif_e2e_")
    write_out_tree(root, specs, toml)

    class _P:
        returncode = 0

    real = hm.subprocess.run
    hm.subprocess.run = lambda *a, **k: _P()
    import signal

    old_handlers = {s: signal.getsignal(s) for s in (signal.SIGINT, signal.SIGTERM)}
    try:
        with capture() as (cap, buf):
            exc, res = None, None
            try:
                res = hm._main(["--root", root, "--no-status", *argv])
            except SystemExit as e:
                exc = e
            except Exception as e:
                exc = e
        results = []
        if res is not None and res.test_results:
            for v in res.test_results.values():
                results.extend(v)
        return Outcome(results, cap.records, buf.getvalue(), exc, main=res)
    finally:
        hm.subprocess.run = real
        for s, h in old_handlers.items():
            with contextlib.suppress(Exception):
                signal.signal(s, h)
        shutil.rmtree(root, ignore_errors=True)


# ---------------------------------------------------------------------------
# small bytecode idioms used by the generators
# ---------------------------------------------------------------------------
HEVM = 0x7109709ECFA91A80626FF3989D68F67F5B1DD12D
SVM = 0xF3993A62377BCD56AE39D773740A5390411E8BC9


def panic(code: int) -> list:
    """revert with Panic(uint256 code)"""
    return [("PUSH", 0x4E487B71 << 224, 32), "PUSH0", "MSTORE", ("PUSH", code), ("PUSH", 4), "MSTORE",
            ("PUSH", 0x24), "PUSH0", "REVERT"]


def arg(i: int) -> list:
    """i-th static head word of the calldata"""
    return [("PUSH", 4 + 32 * i), "CALLDATALOAD"]


def call_cheat(sig: str, words: list, target=HEVM, ret_words=0, static=False) -> list:
    """call a cheatcode with `words` (each an item list leaving one word) as static args; leaves success flag"""
    sel = int.from_bytes(selector(sig), "big")
    items = [("PUSH", sel << 224, 32), ("PUSH", 0x80), "MSTORE"]
    for k, w in enumerate(words):
        items += list(w) + [("PUSH", 0x84 + 32 * k), "MSTORE"]
    n = 4 + 32 * len(words)
    if static:
        items += [("PUSH", 32 * ret_words), ("PUSH", 0x80), ("PUSH", n), ("PUSH", 0x80), ("PUSH", target, 20), "GAS",
                  "STATICCALL"]
    else:
        items += [("PUSH", 32 * ret_words), ("PUSH", 0x80), ("PUSH", n), ("PUSH", 0x80), "PUSH0", ("PUSH", target, 20),
                  "GAS", "CALL"]
    return items


def fail_flag() -> list:
    """legacy DSTest failure: vm.store(HEVM, "failed", 1) -- leaves nothing on the stack"""
    failed = int.from_bytes(b"failed".ljust(32, b"\0"), "big")
    return call_cheat("store(address,bytes32,bytes32)", [[("PUSH", HEVM, 20)], [("PUSH", failed, 32)], [("PUSH", 1)]]) + [
        "POP"]


def create_from_data(name: str, value_items=None, store_slot: int | None = None) -> list:
    """CREATE a contract from the init code held in Spec.data[name]; leaves the new address on the stack (or stores it)"""
    items = [("PUSHSIZE", f"data.{name}", f"data.{name}.end"), ("PUSHM", f"data.{name}"), ("PUSH", 0x200), "CODECOPY",
             ("PUSHSIZE", f"data.{name}", f"data.{name}.end"), ("PUSH", 0x200)] + list(value_items or [("PUSH", 0)]) + ["CREATE"]
    if store_slot is not None:
        items += [("PUSH", store_slot), "SSTORE"]
    return items


def ext_call(addr_items, sig: str, words=(), value_items=None, ret_words=1, static=False) -> list:
    """call addr.sig(words...) ; leaves the success flag; returned words at memory 0x80.."""
    sel = int.from_bytes(selector(sig), "big")
    items = [("PUSH", sel << 224, 32), ("PUSH", 0x80), "MSTORE"]
    for k, w in enumerate(words):
        items += list(w) + [("PUSH", 0x84 + 32 * k), "MSTORE"]
    n = 4 + 32 * len(words)
    items += [("PUSH", 32 * ret_words), ("PUSH", 0x80), ("PUSH", n), ("PUSH", 0x80)]
    if not static:
        items += list(value_items or [("PUSH", 0)])
    items += list(addr_items) + ["GAS", "STATICCALL" if static else "CALL"]
    return items
