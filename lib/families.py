"""Program families (DESIGN §1: F1 straight-line, F2 branching, F3 memory, F5 hashing+logs, specials) and observers."""

from __future__ import annotations

import z3

from lib import asm, driver, gen, progs, refevm
from lib.refevm import bv

from halmos.sevm import CallContext, EventLog

ASSUMPTIONS = [
    "A1 gas unlimited; GAS/GASPRICE/BLOCKHASH uninterpreted (same symbols on both sides)",
    "A2 keccak of symbolic data is an uninterpreted function per input size (injective, non-zero, <= 2^256-2^64); "
    "keccak of concrete data is the real hash",
    "A3 memory offsets above 2^20 end the frame (programs stay below 2^20-64)",
    "A4 every balance read or produced along a path is <= 2^128",
    "A5 CREATE/CREATE2 addresses are opaque and supplied to the reference by an address oracle read from the halmos trace",
    "A6 stack depth <= 1024 and real gas exhaustion are outside the claim",
    "frame-level claim: the top-level frame starts with the given balances (the enclosing transaction's own value "
    "transfer is part of C15)",
    "storage and balances are observed through the program's own trailing SLOAD/BALANCE reads and its output bytes",
]


# ---- log observer ---------------------------------------------------------
def _halmos_logs(ctx):
    out = []
    for t in ctx.trace:
        if isinstance(t, EventLog):
            out.append(t)
        elif isinstance(t, CallContext) and t.output.error is None and t.output.data is not None:
            out.extend(_halmos_logs(t))
    return out


def _h_logs_term(rec):
    if rec.error is not None:
        return None
    parts = []
    logs = _halmos_logs(rec.ex.context)
    parts.append(bv(len(logs), 8))
    for lg in logs:
        a = lg.address
        a = a.as_z3() if hasattr(a, "as_z3") else a
        parts.append(a if a.size() == 160 else z3.Extract(159, 0, a))
        parts.append(bv(len(lg.topics), 8))
        for t in lg.topics:
            parts.append(driver.word_to_z3(t))
        data = driver.bytevec_bytes(lg.data) if lg.data is not None else []
        parts.append(bv(len(data), 16))
        parts.extend(data)
    return z3.Concat(*parts) if len(parts) > 1 else parts[0]


def _r_logs_term(end):
    if not end.success:
        return None
    logs = end.state.logs
    parts = [bv(len(logs), 8)]
    for (addr, topics, data) in logs:
        parts.append(bv(addr, 160))
        parts.append(bv(len(topics), 8))
        parts.extend(topics)
        parts.append(bv(len(data), 16))
        parts.extend(data)
    return z3.Concat(*parts) if len(parts) > 1 else parts[0]


LOG_OBSERVERS = [("logs", _h_logs_term, _r_logs_term)]


# ---- programs -------------------------------------------------------------
def _mk(name, items, features=(), **kw):
    code = asm.assemble(items)
    p = progs.Prog(name, {progs.THIS: code}, **kw)
    p.features = tuple(sorted(features))
    return p


def _mk_multi(name, main_items, others, features=(), **kw):
    contracts = {progs.THIS: asm.assemble(main_items)}
    for a, items in others.items():
        contracts[a] = asm.assemble(items) if not isinstance(items, (bytes, bytearray)) else bytes(items)
    p = progs.Prog(name, contracts, **kw)
    p.features = tuple(sorted(features))
    return p


def specials():
    """hand-written programs for corner cases (each has a stable violation tag)"""
    out = []
    R32 = [("PUSH", 0), "MSTORE", ("PUSH", 32), ("PUSH", 0), "RETURN"]
    cd0 = [("PUSH", 4), "CALLDATALOAD"]
    cd1 = [("PUSH", 36), "CALLDATALOAD"]

    def sp(name, items, tag, **kw):
        p = _mk(f"special#{name}", items, features=(name,), **kw)
        p.vtag = tag
        out.append(p)

    sp("gt-not", cd1 + cd0 + ["GT", "NOT"] + R32, "NOT-on-bool")
    sp("lt-iszero-not", cd1 + cd0 + ["LT", "ISZERO", "NOT"] + R32, "NOT-on-bool")
    sp("eq-add", cd1 + cd0 + ["EQ"] + cd0 + ["ADD"] + R32, "bool-arith")
    sp("bool-xor", cd1 + cd0 + ["LT"] + cd0 + cd1 + ["GT", "XOR"] + R32, "bool-xor")
    sp("bool-and-word", cd1 + cd0 + ["LT"] + cd0 + ["AND"] + R32, "bool-and-word")
    sp("bool-or-word", cd0 + cd1 + cd0 + ["SLT", "OR"] + R32, "bool-or-word")
    sp("bool-eq-word", cd1 + cd0 + ["SGT"] + cd0 + ["EQ"] + R32, "bool-eq-word")
    sp("bool-mstore8", cd1 + cd0 + ["LT", ("PUSH", 5), "MSTORE8", ("PUSH", 32), ("PUSH", 0), "RETURN"], "bool-mstore8")
    sp("bool-sstore", cd1 + cd0 + ["LT", ("PUSH", 1), "SSTORE", ("PUSH", 1), "SLOAD"] + R32, "bool-sstore")
    sp("bool-jump-cond", cd1 + cd0 + ["LT", "ISZERO", "ISZERO", ("PUSHL", "a"), "JUMPI", ("PUSH", 7)] + R32 + [
        ("LABEL", "a"), ("PUSH", 9)] + R32, "bool-jumpi")
    sp("msize-after-mload", [("PUSH", 0x40), "MLOAD", "POP", "MSIZE"] + R32, "MSIZE-after-read")
    sp("msize-after-mstore", [("PUSH", 1), ("PUSH", 0x41), "MSTORE", "MSIZE"] + R32, "MSIZE-after-write")
    sp("msize-after-mstore8", [("PUSH", 1), ("PUSH", 0x40), "MSTORE8", "MSIZE"] + R32, "MSIZE-after-write")
    sp("msize-after-sha3", [("PUSH", 0x21), ("PUSH", 0), "SHA3", "POP", "MSIZE"] + R32, "MSIZE-after-read")
    sp("msize-after-return-args", [("PUSH", 0), ("PUSH", 0x60), "LOG0", "MSIZE"] + R32, "MSIZE-after-read")
    sp("returndatacopy-zero-oob", [("PUSH", 0), ("PUSH", 1), ("PUSH", 0), "RETURNDATACOPY", ("PUSH", 1)] + R32,
       "RETURNDATACOPY-size0-oob")
    sp("returndatacopy-oob", [("PUSH", 1), ("PUSH", 0), ("PUSH", 0), "RETURNDATACOPY", ("PUSH", 1)] + R32,
       "RETURNDATACOPY-oob")
    sp("calldataload-past-end", [("PUSH", 60), "CALLDATALOAD"] + R32, "CALLDATALOAD-pad")
    sp("calldataload-far", [("PUSH", 1 << 200), "CALLDATALOAD"] + R32, "CALLDATALOAD-far")
    sp("calldatacopy-far", [("PUSH", 32), ("PUSH", 1 << 100), ("PUSH", 0), "CALLDATACOPY", ("PUSH", 0), "MLOAD"] + R32,
       "CALLDATACOPY-far")
    sp("codecopy-past-end", [("PUSH", 1), ("PUSH", 33), "MSTORE", ("PUSH", 64), ("PUSH", 3), ("PUSH", 0), "CODECOPY",
                             ("PUSH", 96), ("PUSH", 0), "RETURN"], "CODECOPY-pad")
    sp("push-truncated", cd0 + R32[:-1] + [0x7F, 0x01, 0x02], "PUSH-truncated")
    sp("jump-into-pushdata", [("PUSH", 4), "JUMP", ("PUSH", 0x5B), ("PUSH", 1)] + R32, "JUMP-pushdata")
    sp("jumpi-bad-dest-sym", cd0 + [("PUSH", 3), "JUMPI", ("PUSH", 1)] + R32, "JUMPI-bad-dest")
    for nm, code in {
        "two-dests": cd0 + ["JUMP", ("LABEL", "a"), ("PUSH", 7)] + R32 + [("PUSH", 0x5B5B, 2), ("LABEL", "b"), ("PUSH", 9)] + R32,
        "masked": cd0 + [("PUSH", 0x1F), "AND", "JUMP", ("LABEL", "a"), ("PUSH", 7)] + R32 + [("LABEL", "b"), ("PUSH", 9)] + R32,
        "no-dest": cd0 + ["JUMP", ("PUSH", 7)] + R32,
        "one-dest": cd0 + ["JUMP", ("LABEL", "a"), ("PUSH", 7)] + R32,
        "one-dest-masked": cd0 + [("PUSH", 0x07), "AND", "JUMP", ("PUSH", 1), ("LABEL", "a"), ("PUSH", 7)] + R32,
    }.items():
        sp(f"symjump-{nm}", code, "symbolic-jump", options={"symbolic_jump": True})
    sp("symjump-off", cd0 + ["JUMP", ("LABEL", "a"), ("PUSH", 7)] + R32, "symbolic-jump-off")
    # vm.assert* inside a transaction: the failing inputs end in a failure, the others continue (cheatcode spec in the reference)
    from lib import e2e as _e2e

    def cheat_sp(name, items, tag):
        sp(name, items, tag)
        out[-1].cheats = True

    cheat_sp("vm-assertEq-then-return", _e2e.call_cheat("assertEq(uint256,uint256)", [cd0, [("PUSH", 5)]]) + ["POP"] + cd0 + [("PUSH", 1), "ADD"] + R32,
             "vm.assert-continuation")
    cheat_sp("vm-assertLt-then-branch", _e2e.call_cheat("assertLt(uint256,uint256)", [cd0, cd1]) + ["POP"] + cd1 + cd0 + [
        "LT", ("PUSHL", "a"), "JUMPI", ("PUSH", 7)] + R32 + [("LABEL", "a"), ("PUSH", 9)] + R32, "vm.assert-continuation")
    cheat_sp("vm-assertTrue-signed", _e2e.call_cheat("assertGe(int256,int256)", [cd0, [("PUSH", 0)]]) + ["POP"] + cd0 + [("PUSH", 255), "SHR"] + R32,
             "vm.assert-continuation")
    cheat_sp("vm-assume-then-return", _e2e.call_cheat("assume(bool)", [cd1 + cd0 + ["LT"]]) + ["POP"] + cd1 + cd0 + ["SUB"] + R32, "vm.assume")
    # sibling paths: what one branch changes (block fields, storage, transient storage, memory, balance) must not be
    # seen by the branch explored afterwards -- both orientations, so that the writer is explored first in one of them
    cc = _e2e.call_cheat
    writers = {
        "warp": (cc("warp(uint256)", [[("PUSH", 1000)]]) + ["POP"], ["TIMESTAMP"], True),
        "roll": (cc("roll(uint256)", [[("PUSH", 1001)]]) + ["POP"], ["NUMBER"], True),
        "fee": (cc("fee(uint256)", [[("PUSH", 1002)]]) + ["POP"], ["BASEFEE"], True),
        "chainid": (cc("chainId(uint256)", [[("PUSH", 1003)]]) + ["POP"], ["CHAINID"], True),
        "coinbase": (cc("coinbase(address)", [[("PUSH", 0xC0FFEE)]]) + ["POP"], ["COINBASE"], True),
        "prevrandao": (cc("difficulty(uint256)", [[("PUSH", 1004)]]) + ["POP"], ["PREVRANDAO"], True),
        "deal": (cc("deal(address,uint256)", [["ADDRESS"], [("PUSH", 12345)]]) + ["POP"], ["SELFBALANCE"], True),
        "vmstore": (cc("store(address,bytes32,bytes32)", [["ADDRESS"], [("PUSH", 3)], [("PUSH", 1005)]]) + ["POP"],
                    [("PUSH", 3), "SLOAD"], True),
        "sstore": ([("PUSH", 77), ("PUSH", 1), "SSTORE"], [("PUSH", 1), "SLOAD"], False),
        "tstore": ([("PUSH", 78), ("PUSH", 1), "TSTORE"], [("PUSH", 1), "TLOAD"], False),
        "mstore": ([("PUSH", 79), ("PUSH", 0x200), "MSTORE"], [("PUSH", 0x200), "MLOAD"], False),
    }
    for nm, (W, Rd, is_cheat) in writers.items():
        for orient, cond in (("fall", cd1 + cd0 + ["LT"]), ("jump", cd1 + cd0 + ["LT", "ISZERO"])):
            # orient=fall: the writer is the fall-through branch; orient=jump: the writer is the jump target
            if orient == "fall":
                items = cond + [("PUSHL", "other"), "JUMPI"] + W + Rd + R32 + [("LABEL", "other")] + Rd + R32
            else:
                items = cond + [("PUSHL", "wr"), "JUMPI"] + Rd + R32 + [("LABEL", "wr")] + W + Rd + R32
            (cheat_sp if is_cheat else sp)(f"sibling-{nm}-{orient}", items, "sibling-isolation")
    # dynamic-array overflow pattern: keccak(x) > offset + keccak(x) is pruned only for small concrete offsets (A2)
    hx = cd0 + [("PUSH", 0), "MSTORE", ("PUSH", 32), ("PUSH", 0), "SHA3"]
    for nm, off in (("sym", cd1), ("small", [("PUSH", 3)]), ("huge", [("PUSH", (1 << 256) - 5)]), ("2^64", [("PUSH", 1 << 64)])):
        sp(f"keccak-plus-offset-overflow-{nm}", hx + off + ["ADD"] + hx + ["GT", ("PUSHL", "w"), "JUMPI", ("PUSH", 7)] + R32 + [
            ("LABEL", "w"), ("PUSH", 9)] + R32, f"keccak-offset-overflow-{nm}")
        sp(f"keccak-plus-offset-overflow-lt-{nm}", hx + hx + off + ["ADD", "LT", ("PUSHL", "w"), "JUMPI", ("PUSH", 7)] + R32 + [
            ("LABEL", "w"), ("PUSH", 9)] + R32, f"keccak-offset-overflow-{nm}")
    # JUMPI not taken (concretely false condition): the destination is irrelevant, whatever it is
    for nm, dest in (("oob", 0xFFFF), ("pushdata", 1), ("opcode", 4), ("valid", None)):
        items = [("PUSH", 0)] + ([("PUSH", dest)] if dest is not None else [("PUSHL", "v")]) + ["JUMPI", ("PUSH", 7)] + R32 + [("LABEL", "v"), ("PUSH", 9)] + R32
        sp(f"jumpi-false-{nm}-dest", items, "JUMPI-not-taken")
        items = cd0 + cd0 + ["XOR"] + ([("PUSH", dest)] if dest is not None else [("PUSHL", "v")]) + ["JUMPI", ("PUSH", 7)] + R32 + [("LABEL", "v"), ("PUSH", 9)] + R32
        sp(f"jumpi-xorzero-{nm}-dest", items, "JUMPI-not-taken")
    sp("stack-underflow", ["ADD"], "stack-underflow")
    sp("invalid-op", [0x0C], "undefined-opcode")
    sp("selfbalance-caller", ["CALLER", "BALANCE", "SELFBALANCE", "ADD"] + R32, "balance-read")
    sp("balance-this-vs-caller", ["ADDRESS", "BALANCE", "CALLER", "BALANCE", "EQ"] + R32, "balance-alias")
    sp("static-sstore", [("PUSH", 1), ("PUSH", 0), "SSTORE", ("PUSH", 1)] + R32, "static-sstore", static=True)
    sp("static-log", [("PUSH", 0), ("PUSH", 0), "LOG0", ("PUSH", 1)] + R32, "static-log", static=True)
    sp("static-tstore", [("PUSH", 1), ("PUSH", 0), "TSTORE", ("PUSH", 1)] + R32, "static-tstore", static=True)
    sp("sdiv-min-neg1", [("PUSH", (1 << 256) - 1), ("PUSH", 1 << 255), "SDIV"] + R32, "SDIV-overflow")
    sp("sdiv-sym-pow2", [("PUSH", 4)] + cd0 + ["SDIV"] + R32, "SDIV-pow2")
    sp("smod-sym-pow2", [("PUSH", 8)] + cd0 + ["SMOD"] + R32, "SMOD-pow2")
    sp("div-sym-pow2", [("PUSH", 1 << 64)] + cd0 + ["DIV"] + R32, "DIV-pow2")
    sp("mod-sym-pow2", [("PUSH", 1 << 64)] + cd0 + ["MOD"] + R32, "MOD-pow2")
    sp("mul-sym-pow2", [("PUSH", 1 << 200)] + cd0 + ["MUL"] + R32, "MUL-pow2")
    sp("exp-sym-2", [("PUSH", 2)] + cd0 + ["EXP"] + R32, "EXP-const")
    sp("exp-2-sym", cd0 + [("PUSH", 2), "EXP"] + R32, "EXP-sym")
    sp("byte-sym-idx", cd1 + cd0 + ["BYTE"] + R32, "BYTE-sym")
    sp("signextend-sym", cd1 + cd0 + ["SIGNEXTEND"] + R32, "SIGNEXTEND-sym")
    sp("sar-sym", cd1 + cd0 + ["SAR"] + R32, "SAR-sym")
    sp("mcopy-overlap-fwd", cd0 + [("PUSH", 0), "MSTORE"] + cd1 + [("PUSH", 32), "MSTORE", ("PUSH", 40), ("PUSH", 0),
                                                                  ("PUSH", 8), "MCOPY", ("PUSH", 96), ("PUSH", 0), "RETURN"],
       "MCOPY-overlap")
    sp("mcopy-overlap-bwd", cd0 + [("PUSH", 0), "MSTORE"] + cd1 + [("PUSH", 32), "MSTORE", ("PUSH", 40), ("PUSH", 8),
                                                                  ("PUSH", 0), "MCOPY", ("PUSH", 96), ("PUSH", 0), "RETURN"],
       "MCOPY-overlap")
    sp("mstore-unaligned-over-sym", cd0 + [("PUSH", 0), "MSTORE"] + cd1 + [("PUSH", 17), "MSTORE", ("PUSH", 64), ("PUSH", 0),
                                                                          "RETURN"], "MSTORE-unaligned")
    sp("revert-data", cd0 + [("PUSH", 0), "MSTORE", ("PUSH", 33), ("PUSH", 0), "REVERT"], "REVERT-data")
    sp("return-past-msize", cd0 + [("PUSH", 0), "MSTORE", ("PUSH", 100), ("PUSH", 16), "RETURN"], "RETURN-pad")
    sp("pc-op", ["PC", "PC", "ADD", ("PUSH", 1), "JUMPDEST", "PC", "ADD", "ADD"] + R32, "PC")
    sp("dup-swap", cd0 + cd1 + [("PUSH", 3), "DUP3", "SWAP2", "SUB", "SWAP1", "DUP2", "MUL", "ADD"] + R32, "DUP-SWAP")
    sp("tload-fresh", [("PUSH", 5), "TLOAD"] + cd0 + [("PUSH", 5), "TSTORE", ("PUSH", 5), "TLOAD", "ADD"] + R32, "TLOAD")
    sp("codesize-extcodesize", ["CODESIZE", "ADDRESS", "EXTCODESIZE", "SUB"] + R32, "CODESIZE")
    sp("env-block", ["TIMESTAMP", "NUMBER", "ADD", "CHAINID", "ADD", "BASEFEE", "ADD", "GASLIMIT", "ADD", "COINBASE",
                     "ADD", "PREVRANDAO", "ADD"] + R32, "block-env")
    sp("gas-twice", ["GAS", "GAS", "EQ"] + R32, "GAS")
    sp("keccak-empty", [("PUSH", 0), ("PUSH", 0), "SHA3"] + R32, "SHA3-empty")
    sp("keccak-concrete", [("PUSH", 0xDEADBEEF), ("PUSH", 0), "MSTORE", ("PUSH", 32), ("PUSH", 0), "SHA3"] + R32,
       "SHA3-concrete")
    sp("keccak-sym-eq", cd0 + [("PUSH", 0), "MSTORE", ("PUSH", 32), ("PUSH", 0), "SHA3"] + cd1 + [
        ("PUSH", 0), "MSTORE", ("PUSH", 32), ("PUSH", 0), "SHA3", "EQ"] + R32, "SHA3-sym")
    return out


def programs(seed, n, tier, only=None, c02=False):
    out = []
    fams = {
        "F1": lambda g: g.f1_straight(), "F2": lambda g: g.f2_branch(), "F3": lambda g: g.f3_memory(),
        "F5": lambda g: g.f5_hash_log(),
    }
    for fam, mk in fams.items():
        if only and fam not in only:
            continue
        for k in range(n):
            g = gen.G(f"{fam}-{seed}-{k}")
            items = mk(g)
            try:
                p = _mk(f"{fam}#{seed}-{k}", items, features=g.features)
            except Exception:
                continue
            if len(p.contracts[progs.THIS]) > 600:
                continue
            out.append(p)
    for fam in ("F6", "F6c", "F7"):
        if only and fam not in only:
            continue
        for k in range(max(4, (n * 6) // 10)):
            g = gen.G6(f"{fam}-{seed}-{k}", ncd=3 if fam == "F6" else 2)
            try:
                if fam == "F6":
                    main, others = g.f6_calls()
                    p = _mk_multi(f"{fam}#{seed}-{k}", main, others, features=g.features, ncd=3,
                                  balances=("this", "caller", gen.A_MUTATE, gen.A_NEST))
                elif fam == "F6c":
                    main, others = g.f6_create()
                    p = _mk_multi(f"{fam}#{seed}-{k}", main, others, features=g.features)
                else:
                    main, others = g.f7_loop()
                    sym = "loop-symbolic" in g.features
                    p = _mk_multi(f"{fam}#{seed}-{k}", main, others, features=g.features,
                                  loop_bound=8 if sym else None)
                    if sym:
                        p.options = {"loop": g.r.choice([1, 2, 3])}
            except Exception:
                import traceback

                traceback.print_exc()
                continue
            out.append(p)
    if not only or "special" in only:
        out += specials()
    return out


# ---------------------------------------------------------------------------
# C09 corner cases: static-frame rules, self transfer, deep nests, creation rolled back by a revert
# ---------------------------------------------------------------------------
def specials_c09():
    out = []
    A, B, C, D = 0xAAA1, 0xBBB1, 0xCCC1, 0xDDD1
    R32 = [("PUSH", 0), "MSTORE", ("PUSH", 32), ("PUSH", 0), "RETURN"]

    def sp(name, main, others, tag, **kw):
        kw.setdefault("ncd", 2)
        p = _mk_multi(f"c09#{name}", main, others, features=(name,), **kw)
        p.vtag = tag
        out.append(p)

    def ret_words(n):
        return [("PUSH", 32 * n), ("PUSH", 0x400), "RETURN"]

    def flag_and_probe(k=0):
        # after a call: store flag at 0x400+64k, RETURNDATASIZE at +32
        return [("PUSH", 0x400 + 64 * k), "MSTORE", "RETURNDATASIZE", ("PUSH", 0x420 + 64 * k), "MSTORE"]

    report = gen.callee_report()
    # --- state-modifying instruction inside a static frame, one per kind -------------------------------------
    for nm, body in {
        "call-value": gen.call_site("CALL", C, [("PUSH", 1)], 0, 0, 0, 0) + R32,
        "call-symvalue": gen.call_site("CALL", C, [("PUSH", 0), "CALLDATALOAD"], 0, 0, 0, 0) + R32,
        "call-zero-value": gen.call_site("CALL", C, [("PUSH", 0)], 0, 0, 0, 0) + R32,
        "callcode-value": gen.call_site("CALLCODE", C, [("PUSH", 1)], 0, 0, 0, 0) + R32,
        "sstore": [("PUSH", 1), ("PUSH", 0), "SSTORE", ("PUSH", 1)] + R32,
        "tstore": [("PUSH", 1), ("PUSH", 0), "TSTORE", ("PUSH", 1)] + R32,
        "log0": [("PUSH", 0), ("PUSH", 0), "LOG0", ("PUSH", 1)] + R32,
        "create": [("PUSH", 0), ("PUSH", 0), ("PUSH", 0), "CREATE"] + R32,
        "create2": [("PUSH", 0), ("PUSH", 0), ("PUSH", 0), ("PUSH", 0), "CREATE2"] + R32,
        "sload-only": [("PUSH", 0), "SLOAD", ("PUSH", 7), "ADD"] + R32,
    }.items():
        for outer in ("STATICCALL", "CALL"):
            main = [("PUSH", 4), "CALLDATALOAD", ("PUSH", 0x100), "MSTORE", ("PUSH", 0x55), ("PUSH", 0), "SSTORE"]
            main += gen.call_site(outer, B, [("PUSH", 0)], 0x100, 32, 0x200, 32) + flag_and_probe()
            main += [("PUSH", 0x200), "MLOAD", ("PUSH", 0x440), "MSTORE", ("PUSH", B, 20), "BALANCE", ("PUSH", 0x460), "MSTORE",
                     ("PUSH", C, 20), "BALANCE", ("PUSH", 0x480), "MSTORE"] + ret_words(5)
            sp(f"{outer.lower()}-then-{nm}", main, {B: body, C: report}, f"static-{nm}" if outer == "STATICCALL" else f"plain-{nm}",
               balances=("this", "caller", B, C))
    # static flag is inherited through nested CALL / DELEGATECALL frames
    for mid in ("CALL", "DELEGATECALL", "CALLCODE"):
        inner = [("PUSH", 1), ("PUSH", 0), "SSTORE", ("PUSH", 1)] + R32
        midc = gen.call_site(mid, C, [("PUSH", 0)], 0, 0, 0, 32) + R32
        main = gen.call_site("STATICCALL", B, [], 0, 0, 0x200, 32) + flag_and_probe() + [
            ("PUSH", 0x200), "MLOAD", ("PUSH", 0x440), "MSTORE"] + ret_words(3)
        sp(f"static-inherited-{mid.lower()}", main, {B: midc, C: inner}, f"static-inherited-{mid}")
    # --- self transfer: CALL to own address with value ---------------------------------------------------------
    main = ["CALLDATASIZE", ("PUSHL", "go"), "JUMPI", "STOP", ("LABEL", "go")]
    main += gen.call_site("CALL", progs.THIS, [("PUSH", 4), "CALLDATALOAD", ("PUSH", 0xFFFF), "AND"], 0, 0, 0, 0) + flag_and_probe()
    main += ["SELFBALANCE", ("PUSH", 0x440), "MSTORE"] + ret_words(3)
    sp("self-call-value", main, {}, "self-transfer")
    main = ["CALLDATASIZE", ("PUSHL", "go"), "JUMPI", "STOP", ("LABEL", "go")]
    main += gen.call_site("CALL", progs.THIS, [("PUSH", 10)], 0, 0, 0, 0) + flag_and_probe()
    main += ["SELFBALANCE", ("PUSH", 0x440), "MSTORE"] + ret_words(3)
    sp("self-call-value-concrete", main, {}, "self-transfer")
    # --- every call kind observes the right context (callee reports) ------------------------------------------
    for kind in ("CALL", "CALLCODE", "DELEGATECALL", "STATICCALL"):
        main = [("PUSH", 4), "CALLDATALOAD", ("PUSH", 0x100), "MSTORE", ("PUSH", 0x99), ("PUSH", 1), "SSTORE"]
        main += gen.call_site(kind, B, [("PUSH", 36), "CALLDATALOAD", ("PUSH", 0xFF), "AND"], 0x100, 32, 0x500, 0xE0) + flag_and_probe()
        main += [("PUSH", 1), "SLOAD", ("PUSH", 0x440), "MSTORE", ("PUSH", B, 20), "BALANCE", ("PUSH", 0x460), "MSTORE",
                 "SELFBALANCE", ("PUSH", 0x480), "MSTORE", ("PUSH", 0x200), ("PUSH", 0x400), "RETURN"]
        # B reports its context and then writes storage slot 1 := ADDRESS (lands in caller's storage for *CALLCODE/DELEGATECALL)
        bcode = ["ADDRESS", ("PUSH", 1), "SSTORE"] if kind != "STATICCALL" else []
        bcode += gen.callee_report()
        sp(f"context-{kind.lower()}", main, {B: bcode}, f"context-{kind}", balances=("this", "caller", B))
    # --- depth-4 chains with mixed kinds; the innermost mutates and fails/succeeds by calldata -------------------
    import itertools

    kinds = ["CALL", "DELEGATECALL", "CALLCODE", "STATICCALL"]
    for i, (k1, k2, k3) in enumerate(itertools.product(kinds, repeat=3)):
        if i % 5 != 0:
            continue
        n1 = gen.callee_nest(k2, C, [("PUSH", 0)])
        n2 = gen.callee_nest(k3, gen.A_MUTATE, [("PUSH", 36), "CALLDATALOAD", ("PUSH", 3), "AND"])
        main = []
        for k in range(3):
            main += [("PUSH", 4 + 32 * k), "CALLDATALOAD", ("PUSH", 0x100 + 32 * k), "MSTORE"]
        main += [("PUSH", 0x11), ("PUSH", 1), "SSTORE"]
        main += gen.call_site(k1, B, [("PUSH", 0)], 0x100, 96, 0x500, 0x80) + flag_and_probe()
        main += [("PUSH", 1), "SLOAD", ("PUSH", 0x440), "MSTORE", ("PUSH", 2), "SLOAD", ("PUSH", 0x460), "MSTORE",
                 ("PUSH", 1), "TLOAD", ("PUSH", 0x480), "MSTORE"]
        for k, a in enumerate([progs.THIS, B, C, gen.A_MUTATE]):
            main += [("PUSH", a, 20), "BALANCE", ("PUSH", 0x4A0 + 32 * k), "MSTORE"]
        main += [("PUSH", 0x200), ("PUSH", 0x400), "RETURN"]
        sp(f"chain-{k1}-{k2}-{k3}".lower(), main, {B: n1, C: n2, gen.A_MUTATE: gen.callee_mutate()}, f"chain-{k1}-{k2}-{k3}",
           ncd=3, balances=("this", "caller", B, C, gen.A_MUTATE))
    # --- the callee fails on several paths; the caller writes storage after the call (rollback state must not be shared) ---
    for kind in ("CALL", "DELEGATECALL", "CALLCODE"):
        main = []
        for k in range(2):
            main += [("PUSH", 4 + 32 * k), "CALLDATALOAD", ("PUSH", 0x100 + 32 * k), "MSTORE"]
        main += [("PUSH", 1), ("PUSH", 1), "SSTORE", ("PUSH", 1), ("PUSH", 1), "TSTORE"]
        main += gen.call_site(kind, gen.A_MUTATE, [("PUSH", 0)], 0x100, 64, 0x500, 0x40) + flag_and_probe()
        main += [("PUSH", 1), "SLOAD", ("PUSH", 0x440), "MSTORE", ("PUSH", 1), "TLOAD", ("PUSH", 0x460), "MSTORE"]
        main += [("PUSH", 1), "SLOAD", ("PUSH", 1), "ADD", ("PUSH", 1), "SSTORE", ("PUSH", 1), "TLOAD", ("PUSH", 2), "ADD", ("PUSH", 1), "TSTORE"]
        main += [("PUSH", 1), "SLOAD", ("PUSH", 0x480), "MSTORE", ("PUSH", 1), "TLOAD", ("PUSH", 0x4A0), "MSTORE"]
        main += [("PUSH", gen.A_MUTATE, 20), "BALANCE", ("PUSH", 0x4C0), "MSTORE"] + ret_words(7)
        sp(f"write-after-multi-fail-{kind.lower()}", main, {gen.A_MUTATE: gen.callee_mutate()}, f"write-after-multi-fail-{kind}",
           balances=("this", "caller", gen.A_MUTATE))
    # --- a failing CREATE whose init code had itself created a contract: the inner account must vanish too -----------------
    inner_init = asm.creation_code(asm.assemble(gen.callee_short(33)), [])
    for op in ("CREATE", "CREATE2"):
        for how in ("revert", "invalid", "ok"):
            outer = [("PUSHSIZE", "ii", "ie"), ("PUSHM", "ii"), ("PUSH", 0x100), "CODECOPY", ("PUSH", len(inner_init)), ("PUSH", 0x100), ("PUSH", 0),
                     "CREATE", ("PUSH", 0), "MSTORE"]
            outer += {"revert": [("PUSH", 32), ("PUSH", 0), "REVERT"], "invalid": [("PUSH", 0), "MLOAD", ("PUSH", 0), "SSTORE", "INVALID"],
                      "ok": [("PUSH", 32), ("PUSH", 0), "RETURN"]}[how]
            outer += [("MARK", "ii"), inner_init, ("MARK", "ie")]
            outer_code = asm.assemble(outer)
            main = [("PUSHSIZE", "oi", "oe"), ("PUSHM", "oi"), ("PUSH", 0x100), "CODECOPY"]
            main += ([("PUSH", 5)] if op == "CREATE2" else []) + [("PUSH", len(outer_code)), ("PUSH", 0x100), ("PUSH", 0), op]
            main += ["DUP1", "ISZERO", "ISZERO", ("PUSH", 0x400), "MSTORE", "RETURNDATASIZE", ("PUSH", 0x420), "MSTORE", "EXTCODESIZE", ("PUSH", 0x440), "MSTORE"]
            if how == "revert":
                # the inner address comes back in the revert data
                main += [("PUSH", 32), ("PUSH", 0), ("PUSH", 0x200), "RETURNDATACOPY", ("PUSH", 0x200), "MLOAD", "DUP1", "EXTCODESIZE", ("PUSH", 0x460), "MSTORE"]
                main += [("PUSH", 32), ("PUSH", 0x480), ("PUSH", 0), ("PUSH", 0), ("PUSH", 0), "DUP6", "GAS", "CALL", ("PUSH", 0x4A0), "MSTORE", "POP"]
            main += ret_words(6) + [("MARK", "oi"), outer_code, ("MARK", "oe")]
            sp(f"nested-create-{op.lower()}-{how}", main, {}, f"nested-create-rollback-{how}")
    # --- the caller's output window after a failing call (revert data is copied, INVALID leaves it untouched) ---------------
    for kind in ("CALL", "STATICCALL", "DELEGATECALL", "CALLCODE"):
        main = [("PUSH", 4), "CALLDATALOAD", ("PUSH", 0x100), "MSTORE", ("PUSH", 36), "CALLDATALOAD", ("PUSH", 0x120), "MSTORE"]
        main += [("PUSH", (0xD1D1 << 240) | 7, 32), ("PUSH", 0x500), "MSTORE", ("PUSH", (0xD2D2 << 240) | 7, 32), ("PUSH", 0x520), "MSTORE"]
        main += gen.call_site(kind, 0xF1F1, [("PUSH", 0)], 0x100, 64, 0x500, 0x30) + flag_and_probe()
        main += [("PUSH", 0x500), "MLOAD", ("PUSH", 0x440), "MSTORE", ("PUSH", 0x520), "MLOAD", ("PUSH", 0x460), "MSTORE"] + ret_words(4)
        sp(f"failing-call-output-window-{kind.lower()}", main, {0xF1F1: gen.callee_readonly_mutate()}, f"output-window-{kind}")
    # --- RETURNDATACOPY windows: non-zero source offsets, windows ending exactly at / before the end, over dirty memory ----
    for off, size in ((32, 32), (8, 40), (1, 1), (31, 2), (64, 0), (0, 64), (40, 24), (63, 1)):
        main = [("PUSH", 4), "CALLDATALOAD", ("PUSH", 0x100), "MSTORE"]
        main += gen.call_site("CALL", B, [("PUSH", 0)], 0x100, 32, 0x500, 0) + flag_and_probe()
        main += [("PUSH", (1 << 256) - 1), ("PUSH", 0x440), "MSTORE", ("PUSH", (1 << 256) - 1), ("PUSH", 0x460), "MSTORE"]  # dirty destination
        main += [("PUSH", size), ("PUSH", off), ("PUSH", 0x441), "RETURNDATACOPY", "MSIZE", ("PUSH", 0x4A0), "MSTORE"] + ret_words(6)
        sp(f"returndatacopy-window-{off}-{size}", main, {B: gen.callee_short(64)}, "RETURNDATACOPY-window")
    # --- symbolic call target: every known account is an alias candidate, anything else is an empty account ------------
    for kind in ("CALL", "STATICCALL", "DELEGATECALL"):
        for val in ([("PUSH", 0)], [("PUSH", 1)]):
            if kind != "CALL" and val != [("PUSH", 0)]:
                continue
            main = [("PUSH", 36), "CALLDATALOAD", ("PUSH", 0x100), "MSTORE", ("PUSH", 0x120), "MSTORE"] if False else [
                ("PUSH", 36), "CALLDATALOAD", ("PUSH", 0x100), "MSTORE"]
            site = [("PUSH", 0xE0), ("PUSH", 0x500), ("PUSH", 32), ("PUSH", 0x100)] + (val if kind == "CALL" else []) + [
                ("PUSH", 4), "CALLDATALOAD", "GAS", kind]
            main += site + flag_and_probe() + [("PUSH", 0x500), "MLOAD", ("PUSH", 0x440), "MSTORE", ("PUSH", 0x540), "MLOAD",
                                              ("PUSH", 0x460), "MSTORE", ("PUSH", B, 20), "BALANCE", ("PUSH", 0x480), "MSTORE",
                                              "SELFBALANCE", ("PUSH", 0x4A0), "MSTORE"] + ret_words(6)
            sp(f"symbolic-target-{kind.lower()}-v{val[0][1]}", main, {B: report, C: gen.callee_short(33)}, f"symbolic-target-{kind}",
               balances=("this", "caller", B, C))
    # --- creation inside a frame that later reverts must vanish ------------------------------------------------
    child_rt = asm.assemble(gen.callee_report())
    init = asm.creation_code(child_rt, ["CALLVALUE", ("PUSH", 3), "SSTORE"])
    for op in ("CREATE", "CREATE2"):
        x = [("PUSHSIZE", "is", "ie"), ("PUSHM", "is"), ("PUSH", 0x100), "CODECOPY"]
        x += ([("PUSH", 7)] if op == "CREATE2" else []) + [("PUSH", len(init)), ("PUSH", 0x100), ("PUSH", 0), op]
        x += ["DUP1", ("PUSH", 0), "MSTORE", "EXTCODESIZE", ("PUSH", 32), "MSTORE"]
        x += [("PUSH", 0), "CALLDATALOAD", ("PUSHL", "rv"), "JUMPI", ("PUSH", 64), ("PUSH", 0), "RETURN",
              ("LABEL", "rv"), ("PUSH", 64), ("PUSH", 0), "REVERT", ("MARK", "is"), init, ("MARK", "ie")]
        main = [("PUSH", 4), "CALLDATALOAD", ("PUSH", 0x100), "MSTORE"]
        main += gen.call_site("CALL", B, [("PUSH", 0)], 0x100, 32, 0x200, 64) + flag_and_probe()
        main += [("PUSH", 0x200), "MLOAD", "EXTCODESIZE", ("PUSH", 0x440), "MSTORE", ("PUSH", 0x220), "MLOAD", ("PUSH", 0x460), "MSTORE"]
        main += ret_words(4)
        sp(f"{op.lower()}-rolled-back", main, {B: x}, f"{op}-rollback")
    return out


# ---------------------------------------------------------------------------
# C08: storage location programs
# ---------------------------------------------------------------------------
def programs_c08(seed, n, tier, only=None):
    out = []
    for layout in ("solidity", "generic"):
        for fam, transient in (("F4", False), ("F4t", True)):
            if only and fam not in only:
                continue
            m = n if fam == "F4" else max(3, n // 4)
            for k in range(m):
                g = gen.G4(f"{fam}-{seed}-{k}")
                try:
                    items = g.f4_storage(transient=transient)
                    p = _mk(f"{fam}{layout[0]}#{seed}-{k}", items, features=g.features)
                except Exception:
                    import traceback

                    traceback.print_exc()
                    continue
                p.options = {"storage_layout": layout}
                p.known_preimages = tuple(g.preimages)
                p.balances = ()
                p.callvalue_zero = True
                p.desc = g.desc
                out.append(p)
    if not only or "c08" in only:
        out += specials_c08()
    return out


def specials_c08():
    out = []
    cd0 = [("PUSH", 4), "CALLDATALOAD"]
    cd1 = [("PUSH", 36), "CALLDATALOAD"]

    def sp(name, items, tag, pre=(), layout="solidity"):
        p = _mk(f"c08{layout[0]}#{name}", items, features=(name,))
        p.vtag = tag
        p.options = {"storage_layout": layout}
        p.known_preimages = tuple(pre)
        p.balances = ()
        p.callvalue_zero = True
        out.append(p)

    def ret(n):
        return [("PUSH", 32 * n), ("PUSH", 0x400), "RETURN"]

    def out_(k):
        return [("PUSH", 0x400 + 32 * k), "MSTORE"]

    def arr_rt(p):
        return [("PUSH", p), "PUSH0", "MSTORE", ("PUSH", 32), "PUSH0", "SHA3"]

    def mp(p, key):
        return key + ["PUSH0", "MSTORE", ("PUSH", p), ("PUSH", 32), "MSTORE", ("PUSH", 64), "PUSH0", "SHA3"]

    for layout in ("solidity", "generic"):
        for p in gen.boundary_slots() + [0, 1]:
            h = gen.keccak_int(gen._k32(p))
            pre = [gen._k32(p)]
            # a[i] = 7 (runtime hash, symbolic index) ; load constant slots keccak(p)+c, c = 0..3
            it = [("PUSH", 7)] + arr_rt(p) + cd0 + [("PUSH", 3), "AND", "ADD", "SSTORE"]
            for c in range(4):
                it += [("PUSH", (h + c) % (1 << 256), 32), "SLOAD"] + out_(c)
            sp(f"arr-rt-store-const-load-p{p}", it + ret(4), f"array-const-after-runtime-hash/p{p}", pre, layout)
            # store through the constant form, load through the runtime form
            it = [("PUSH", 9), ("PUSH", (h + 1) % (1 << 256), 32), "SSTORE", ("PUSH", 5), ("PUSH", h, 32), cd1[0], cd1[1],
                  ("PUSH", 3), "AND", "ADD", "SSTORE"]
            for c in range(3):
                it += arr_rt(p) + [("PUSH", c), "ADD", "SLOAD"] + out_(c)
            sp(f"arr-const-store-rt-load-p{p}", it + ret(3), f"const-before-runtime-hash/array-p{p}", pre, layout)
        # mapping with colliding symbolic keys
        it = [("PUSH", 1)] + mp(2, cd0) + ["SSTORE", ("PUSH", 2)] + mp(2, cd1) + ["SSTORE"] + mp(2, cd0) + ["SLOAD"] + out_(0)
        it += mp(2, cd1) + ["SLOAD"] + out_(1) + mp(3, cd0) + ["SLOAD"] + out_(2) + [("PUSH", 2), "SLOAD"] + out_(3)
        sp("map-sym-keys-collide", it + ret(4), "mapping-collide", (), layout)
        # mapping key concrete vs symbolic, hash precomputed as a constant
        hk = gen.keccak_int(gen._k32(5) + gen._k32(2))
        it = [("PUSH", 0xAA)] + mp(2, cd0) + ["SSTORE", ("PUSH", hk, 32), "SLOAD"] + out_(0)
        it += [("PUSH", 0xBB), ("PUSH", hk, 32), "SSTORE"] + mp(2, cd0) + ["SLOAD"] + out_(1) + mp(2, [("PUSH", 5)]) + ["SLOAD"] + out_(2)
        sp("map-const-hash-vs-sym-key", it + ret(3), "const-before-runtime-hash/mapping", (gen._k32(5) + gen._k32(2),), layout)
        # a nested dynamic array and a mapping with "colliding coordinates": a[i][j] (outer array at slot 0) against m[k] (slot 1) with
        # inner base == mapping key and outer index == mapping slot.  The locations keccak(keccak(0)+1)+j and keccak(k . 1) never alias
        def hash_top():  # keccak(top of stack)
            return ["PUSH0", "MSTORE", ("PUSH", 32), "PUSH0", "SHA3"]
        inner = arr_rt(0) + [("PUSH", 1), "ADD"] + hash_top()  # data slot of a[1]
        # (the index is not masked: z3 folds `even constant + (x & 1)` into a Concat, which is the known generic-layout finding)
        small = cd0 + [("PUSH", 3), "LT", ("PUSHL", "big"), "JUMPI"]  # require(j <= 3)
        it = small + [("PUSH", 0x55)] + inner + cd0 + ["ADD", "SSTORE"]  # a[1][j] = 0x55
        it += mp(1, [("PUSH", 0)]) + ["SLOAD"] + out_(0) + mp(1, cd1) + ["SLOAD"] + out_(1)  # m[0], m[k]
        it += inner + ["SLOAD"] + out_(2)
        sp("nested-array-vs-mapping", it + ret(3) + [("LABEL", "big"), "STOP"], "nested-array-vs-mapping", (), layout)
        it = small + [("PUSH", 0x66)] + mp(1, cd1) + ["SSTORE"] + inner + cd0 + ["ADD", "SLOAD"] + out_(0) + mp(1, cd1) + ["SLOAD"] + out_(1)
        sp("mapping-vs-nested-array", it + ret(2) + [("LABEL", "big"), "STOP"], "nested-array-vs-mapping", (), layout)
        # scalar vs mapping vs array never alias; overwrite order
        it = [("PUSH", 1), ("PUSH", 0), "SSTORE"] + cd0 + mp(0, cd1) + ["SSTORE"] + cd1 + arr_rt(0) + cd0 + [("PUSH", 1), "AND", "ADD", "SSTORE"]
        it += [("PUSH", 0), "SLOAD"] + out_(0) + mp(0, cd1) + ["SLOAD"] + out_(1) + arr_rt(0) + ["SLOAD"] + out_(2) + arr_rt(0) + [
            ("PUSH", 1), "ADD", "SLOAD"] + out_(3)
        sp("scalar-map-array-same-base", it + ret(4), "no-alias", (), layout)
        # last write wins on the same symbolic location written twice; reordered additions
        it = [("PUSH", 1)] + arr_rt(1) + cd0 + [("PUSH", 3), "AND", "ADD", "SSTORE"]
        it += [("PUSH", 2)] + cd0 + [("PUSH", 3), "AND"] + arr_rt(1) + ["ADD", "SSTORE"]
        it += arr_rt(1) + cd1 + [("PUSH", 3), "AND", "ADD", "SLOAD"] + out_(0)
        sp("array-reordered-add", it + ret(1), "reordered-add", (), layout)
        # struct field offsets on a mapping value: m[k].f0, m[k].f1, m[k+1].f0
        it = [("PUSH", 0x10)] + mp(1, cd0) + ["SSTORE", ("PUSH", 0x11)] + mp(1, cd0) + [("PUSH", 1), "ADD", "SSTORE"]
        it += mp(1, cd1) + ["SLOAD"] + out_(0) + [("PUSH", 1)] + mp(1, cd1) + ["ADD", "SLOAD"] + out_(1)
        it += mp(1, cd1) + [("PUSH", 2), "ADD", "SLOAD"] + out_(2)
        sp("map-struct-fields", it + ret(3), "struct-offset", (), layout)
        # a write on one side of a branch must not be visible on the other side (storage and transient storage)
        for ST, LD in (("SSTORE", "SLOAD"), ("TSTORE", "TLOAD")):
            it = cd0 + [("PUSHL", "j"), "JUMPI", ("PUSH", 7), ("PUSH", 1), ST, ("PUSH", 7)] + mp(2, cd1) + [ST]
            it += [("PUSH", 1), LD] + out_(0) + ret(1)
            it += [("LABEL", "j"), ("PUSH", 1), LD] + out_(0) + mp(2, cd1) + [LD] + out_(1) + ret(2)
            sp(f"branch-isolation-{ST.lower()}", it, f"branch-isolation-{ST}", (), layout)
        # mapping(k1 => Struct[]) with a mapping field at offset 1, stride 2: positions[k1][i].rewards[k]
        def deep(k1, i, k):
            inner = mp(3, k1) + ["PUSH0", "MSTORE", ("PUSH", 32), "PUSH0", "SHA3"] + i + [("PUSH", 2), "MUL", "ADD", ("PUSH", 1), "ADD"]
            return inner + [("PUSH", 32), "MSTORE"] + k + ["PUSH0", "MSTORE", ("PUSH", 64), "PUSH0", "SHA3"]

        i0 = cd1 + [("PUSH", 1), "AND"]
        it = [("PUSH", 7)] + deep(cd0, [("PUSH", 1)], cd0) + ["SSTORE"] + deep(cd0, [("PUSH", 0)], cd0) + ["SLOAD"] + out_(0)
        it += deep(cd0, i0, cd0) + ["SLOAD"] + out_(1) + deep(cd0, [("PUSH", 1)], cd0) + ["SLOAD"] + out_(2)
        sp("struct-array-mapping-field", it + ret(3), "nary-sum", (), layout)
        # far (but still recognisable) constant offsets from a runtime-registered hash: +65534, +65535, across a 2^16 block
        for pfar in (1, 1000):
            hf = gen.keccak_int(gen._k32(pfar))
            for c in (65534, 65535):
                it = arr_rt(pfar) + ["POP", ("PUSH", 7), ("PUSH", (hf + c) % (1 << 256), 32), "SSTORE"]
                it += arr_rt(pfar) + cd0 + [("PUSH", 0x1FFFF), "AND", "ADD", "SLOAD"] + out_(0)
                sp(f"far-offset-{c}-p{pfar}", it + ret(1), f"far-offset-{c}", [gen._k32(pfar)], layout)
        # read a constant array slot first (registry miss), then hash at runtime, store with a symbolic index, read the constant again
        p_far = 1000
        h_far = gen.keccak_int(gen._k32(p_far))
        it = [("PUSH", (h_far + 1) % (1 << 256), 32), "SLOAD"] + out_(0) + [("PUSH", 7)] + arr_rt(p_far) + cd0 + [("PUSH", 3), "AND", "ADD", "SSTORE"]
        it += [("PUSH", (h_far + 1) % (1 << 256), 32), "SLOAD"] + out_(1) + arr_rt(p_far) + [("PUSH", 1), "ADD", "SLOAD"] + out_(2)
        sp("const-read-then-runtime-hash-store", it + ret(3), "const-read-before-runtime-hash", [gen._k32(p_far)], layout)
        # nested mapping: all-concrete store m[1][2], symbolic load m[1][k] (and the other way round)
        def mp2(p, k1, k2):
            return mp(p, k1) + [("PUSH", 32), "MSTORE"] + k2 + ["PUSH0", "MSTORE", ("PUSH", 64), "PUSH0", "SHA3"]

        it = [("PUSH", 0x42)] + mp2(3, [("PUSH", 1)], [("PUSH", 2)]) + ["SSTORE"] + mp2(3, [("PUSH", 1)], cd0) + ["SLOAD"] + out_(0)
        it += mp2(3, cd1, [("PUSH", 2)]) + ["SLOAD"] + out_(1)
        sp("nested-map-concrete-store-sym-load", it + ret(2), "nested-mapping-concrete-vs-symbolic", (), layout)
        it = [("PUSH", 0x42)] + mp2(3, [("PUSH", 1)], cd0) + ["SSTORE"] + mp2(3, [("PUSH", 1)], [("PUSH", 2)]) + ["SLOAD"] + out_(0)
        sp("nested-map-sym-store-concrete-load", it + ret(1), "nested-mapping-concrete-vs-symbolic", (), layout)
        # preimages of exactly 96 / 127 / 128 / 129 bytes (a long bytes key concatenated with the slot), concrete store vs symbolic load
        for nbytes in (96, 128, 160):
            def long_key(last):
                w = []
                for j in range(nbytes // 32 - 1):
                    w += (last if j == 0 else [("PUSH", 0x1111 * (j + 1))]) + [("PUSH", 32 * j), "MSTORE"]
                w += [("PUSH", 6), ("PUSH", nbytes - 32), "MSTORE", ("PUSH", nbytes), "PUSH0", "SHA3"]
                return w

            it = [("PUSH", 0x99)] + long_key([("PUSH", 5)]) + ["SSTORE"] + long_key(cd0) + ["SLOAD"] + out_(0) + long_key([("PUSH", 5)]) + ["SLOAD"] + out_(1)
            sp(f"long-key-{nbytes}-concrete-store-sym-load", it + ret(2), f"long-preimage-{nbytes}", (), layout)
        # transient storage mirrors
        it = [("PUSH", 1)] + mp(2, cd0) + ["TSTORE", ("PUSH", 2)] + mp(2, cd1) + ["TSTORE"] + mp(2, cd0) + ["TLOAD"] + out_(0)
        it += mp(2, cd0) + ["SLOAD"] + out_(1)
        sp("transient-map-collide", it + ret(2), "transient", (), layout)
    return out
