"""Program families (DESIGN §1: F1 straight-line, F2 branching, F3 memory, F5 hashing+logs, specials) and observers."""

from __future__ import annotations

import z3

from lib import asm, driver, gen, progs, refevm
from lib.refevm import bv

from halmos.sevm import CallContext, EventLog

ASSUMPTIONS = [
    "A1 gas unlimited; GAS/GASPRICE/BLOCKHASH uninterpreted (same symbols on both sides)",
    "A2 keccak of symbolic data is an uninterpreted function per input size (injective, non-zero, <= 2^256-2^64); "
    "keccak of concrete data is the real hash",
    "A3 memory offsets above 2^20 end the frame (programs stay below 2^20-64)",
    "A4 every balance read or produced along a path is <= 2^128",
    "A5 CREATE/CREATE2 addresses are opaque and supplied to the reference by an address oracle read from the halmos trace",
    "A6 stack depth <= 1024 and real gas exhaustion are outside the claim",
    "frame-level claim: the top-level frame starts with the given balances (the enclosing transaction's own value "
    "transfer is part of C15)",
    "storage and balances are observed through the program's own trailing SLOAD/BALANCE reads and its output bytes",
]


# ---- log observer ---------------------------------------------------------
def _halmos_logs(ctx):
    out = []
    for t in ctx.trace:
        if isinstance(t, EventLog):
            out.append(t)
        elif isinstance(t, CallContext) and t.output.error is None and t.output.data is not None:
            out.extend(_halmos_logs(t))
    return out


def _h_logs_term(rec):
    if rec.error is not None:
        return None
    parts = []
    logs = _halmos_logs(rec.ex.context)
    parts.append(bv(len(logs), 8))
    for lg in logs:
        a = lg.address
        a = a.as_z3() if hasattr(a, "as_z3") else a
        parts.append(a if a.size() == 160 else z3.Extract(159, 0, a))
        parts.append(bv(len(lg.topics), 8))
        for t in lg.topics:
            parts.append(driver.word_to_z3(t))
        data = driver.bytevec_bytes(lg.data) if lg.data is not None else []
        parts.append(bv(len(data), 16))
        parts.extend(data)
    return z3.Concat(*parts) if len(parts) > 1 else parts[0]


def _r_logs_term(end):
    if not end.success:
        return None
    logs = end.state.logs
    parts = [bv(len(logs), 8)]
    for (addr, topics, data) in logs:
        parts.append(bv(addr, 160))
        parts.append(bv(len(topics), 8))
        parts.extend(topics)
        parts.append(bv(len(data), 16))
        parts.extend(data)
    return z3.Concat(*parts) if len(parts) > 1 else parts[0]


LOG_OBSERVERS = [("logs", _h_logs_term, _r_logs_term)]


# ---- programs -------------------------------------------------------------
def _mk(name, items, features=(), **kw):
    code = asm.assemble(items)
    p = progs.Prog(name, {progs.THIS: code}, **kw)
    p.features = tuple(sorted(features))
    return p


def _mk_multi(name, main_items, others, features=(), **kw):
    contracts = {progs.THIS: asm.assemble(main_items)}
    for a, items in others.items():
        contracts[a] = asm.assemble(items) if not isinstance(items, (bytes, bytearray)) else bytes(items)
    p = progs.Prog(name, contracts, **kw)
    p.features = tuple(sorted(features))
    return p


def specials():
    """hand-written programs for corner cases (each has a stable violation tag)"""
    out = []
    R32 = [("PUSH", 0), "MSTORE", ("PUSH", 32), ("PUSH", 0), "RETURN"]
    cd0 = [("PUSH", 4), "CALLDATALOAD"]
    cd1 = [("PUSH", 36), "CALLDATALOAD"]

    def sp(name, items, tag, **kw):
        p = _mk(f"special#{name}", items, features=(name,), **kw)
        p.vtag = tag
        out.append(p)

    sp("gt-not", cd1 + cd0 + ["GT", "NOT"] + R32, "NOT-on-bool")
    sp("lt-iszero-not", cd1 + cd0 + ["LT", "ISZERO", "NOT"] + R32, "NOT-on-bool")
    sp("eq-add", cd1 + cd0 + ["EQ"] + cd0 + ["ADD"] + R32, "bool-arith")
    sp("bool-xor", cd1 + cd0 + ["LT"] + cd0 + cd1 + ["GT", "XOR"] + R32, "bool-xor")
    sp("bool-and-word", cd1 + cd0 + ["LT"] + cd0 + ["AND"] + R32, "bool-and-word")
    sp("bool-or-word", cd0 + cd1 + cd0 + ["SLT", "OR"] + R32, "bool-or-word")
    sp("bool-eq-word", cd1 + cd0 + ["SGT"] + cd0 + ["EQ"] + R32, "bool-eq-word")
    sp("bool-mstore8", cd1 + cd0 + ["LT", ("PUSH", 5), "MSTORE8", ("PUSH", 32), ("PUSH", 0), "RETURN"], "bool-mstore8")
    sp("bool-sstore", cd1 + cd0 + ["LT", ("PUSH", 1), "SSTORE", ("PUSH", 1), "SLOAD"] + R32, "bool-sstore")
    sp("bool-jump-cond", cd1 + cd0 + ["LT", "ISZERO", "ISZERO", ("PUSHL", "a"), "JUMPI", ("PUSH", 7)] + R32 + [
        ("LABEL", "a"), ("PUSH", 9)] + R32, "bool-jumpi")
    sp("msize-after-mload", [("PUSH", 0x40), "MLOAD", "POP", "MSIZE"] + R32, "MSIZE-after-read")
    sp("msize-after-mstore", [("PUSH", 1), ("PUSH", 0x41), "MSTORE", "MSIZE"] + R32, "MSIZE-after-write")
    sp("msize-after-mstore8", [("PUSH", 1), ("PUSH", 0x40), "MSTORE8", "MSIZE"] + R32, "MSIZE-after-write")
    sp("msize-after-sha3", [("PUSH", 0x21), ("PUSH", 0), "SHA3", "POP", "MSIZE"] + R32, "MSIZE-after-read")
    sp("msize-after-return-args", [("PUSH", 0), ("PUSH", 0x60), "LOG0", "MSIZE"] + R32, "MSIZE-after-read")
    sp("returndatacopy-zero-oob", [("PUSH", 0), ("PUSH", 1), ("PUSH", 0), "RETURNDATACOPY", ("PUSH", 1)] + R32,
       "RETURNDATACOPY-size0-oob")
    sp("returndatacopy-oob", [("PUSH", 1), ("PUSH", 0), ("PUSH", 0), "RETURNDATACOPY", ("PUSH", 1)] + R32,
       "RETURNDATACOPY-oob")
    sp("calldataload-past-end", [("PUSH", 60), "CALLDATALOAD"] + R32, "CALLDATALOAD-pad")
    sp("calldataload-far", [("PUSH", 1 << 200), "CALLDATALOAD"] + R32, "CALLDATALOAD-far")
    sp("calldatacopy-far", [("PUSH", 32), ("PUSH", 1 << 100), ("PUSH", 0), "CALLDATACOPY", ("PUSH", 0), "MLOAD"] + R32,
       "CALLDATACOPY-far")
    sp("codecopy-past-end", [("PUSH", 1), ("PUSH", 33), "MSTORE", ("PUSH", 64), ("PUSH", 3), ("PUSH", 0), "CODECOPY",
                             ("PUSH", 96), ("PUSH", 0), "RETURN"], "CODECOPY-pad")
    sp("push-truncated", cd0 + R32[:-1] + [0x7F, 0x01, 0x02], "PUSH-truncated")
    sp("jump-into-pushdata", [("PUSH", 4), "JUMP", ("PUSH", 0x5B), ("PUSH", 1)] + R32, "JUMP-pushdata")
    sp("jumpi-bad-dest-sym", cd0 + [("PUSH", 3), "JUMPI", ("PUSH", 1)] + R32, "JUMPI-bad-dest")
    sp("stack-underflow", ["ADD"], "stack-underflow")
    sp("invalid-op", [0x0C], "undefined-opcode")
    sp("selfbalance-caller", ["CALLER", "BALANCE", "SELFBALANCE", "ADD"] + R32, "balance-read")
    sp("balance-this-vs-caller", ["ADDRESS", "BALANCE", "CALLER", "BALANCE", "EQ"] + R32, "balance-alias")
    sp("static-sstore", [("PUSH", 1), ("PUSH", 0), "SSTORE", ("PUSH", 1)] + R32, "static-sstore", static=True)
    sp("static-log", [("PUSH", 0), ("PUSH", 0), "LOG0", ("PUSH", 1)] + R32, "static-log", static=True)
    sp("static-tstore", [("PUSH", 1), ("PUSH", 0), "TSTORE", ("PUSH", 1)] + R32, "static-tstore", static=True)
    sp("sdiv-min-neg1", [("PUSH", (1 << 256) - 1), ("PUSH", 1 << 255), "SDIV"] + R32, "SDIV-overflow")
    sp("sdiv-sym-pow2", [("PUSH", 4)] + cd0 + ["SDIV"] + R32, "SDIV-pow2")
    sp("smod-sym-pow2", [("PUSH", 8)] + cd0 + ["SMOD"] + R32, "SMOD-pow2")
    sp("div-sym-pow2", [("PUSH", 1 << 64)] + cd0 + ["DIV"] + R32, "DIV-pow2")
    sp("mod-sym-pow2", [("PUSH", 1 << 64)] + cd0 + ["MOD"] + R32, "MOD-pow2")
    sp("mul-sym-pow2", [("PUSH", 1 << 200)] + cd0 + ["MUL"] + R32, "MUL-pow2")
    sp("exp-sym-2", [("PUSH", 2)] + cd0 + ["EXP"] + R32, "EXP-const")
    sp("exp-2-sym", cd0 + [("PUSH", 2), "EXP"] + R32, "EXP-sym")
    sp("byte-sym-idx", cd1 + cd0 + ["BYTE"] + R32, "BYTE-sym")
    sp("signextend-sym", cd1 + cd0 + ["SIGNEXTEND"] + R32, "SIGNEXTEND-sym")
    sp("sar-sym", cd1 + cd0 + ["SAR"] + R32, "SAR-sym")
    sp("mcopy-overlap-fwd", cd0 + [("PUSH", 0), "MSTORE"] + cd1 + [("PUSH", 32), "MSTORE", ("PUSH", 40), ("PUSH", 0),
                                                                  ("PUSH", 8), "MCOPY", ("PUSH", 96), ("PUSH", 0), "RETURN"],
       "MCOPY-overlap")
    sp("mcopy-overlap-bwd", cd0 + [("PUSH", 0), "MSTORE"] + cd1 + [("PUSH", 32), "MSTORE", ("PUSH", 40), ("PUSH", 8),
                                                                  ("PUSH", 0), "MCOPY", ("PUSH", 96), ("PUSH", 0), "RETURN"],
       "MCOPY-overlap")
    sp("mstore-unaligned-over-sym", cd0 + [("PUSH", 0), "MSTORE"] + cd1 + [("PUSH", 17), "MSTORE", ("PUSH", 64), ("PUSH", 0),
                                                                          "RETURN"], "MSTORE-unaligned")
    sp("revert-data", cd0 + [("PUSH", 0), "MSTORE", ("PUSH", 33), ("PUSH", 0), "REVERT"], "REVERT-data")
    sp("return-past-msize", cd0 + [("PUSH", 0), "MSTORE", ("PUSH", 100), ("PUSH", 16), "RETURN"], "RETURN-pad")
    sp("pc-op", ["PC", "PC", "ADD", ("PUSH", 1), "JUMPDEST", "PC", "ADD", "ADD"] + R32, "PC")
    sp("dup-swap", cd0 + cd1 + [("PUSH", 3), "DUP3", "SWAP2", "SUB", "SWAP1", "DUP2", "MUL", "ADD"] + R32, "DUP-SWAP")
    sp("tload-fresh", [("PUSH", 5), "TLOAD"] + cd0 + [("PUSH", 5), "TSTORE", ("PUSH", 5), "TLOAD", "ADD"] + R32, "TLOAD")
    sp("codesize-extcodesize", ["CODESIZE", "ADDRESS", "EXTCODESIZE", "SUB"] + R32, "CODESIZE")
    sp("env-block", ["TIMESTAMP", "NUMBER", "ADD", "CHAINID", "ADD", "BASEFEE", "ADD", "GASLIMIT", "ADD", "COINBASE",
                     "ADD", "PREVRANDAO", "ADD"] + R32, "block-env")
    sp("gas-twice", ["GAS", "GAS", "EQ"] + R32, "GAS")
    sp("keccak-empty", [("PUSH", 0), ("PUSH", 0), "SHA3"] + R32, "SHA3-empty")
    sp("keccak-concrete", [("PUSH", 0xDEADBEEF), ("PUSH", 0), "MSTORE", ("PUSH", 32), ("PUSH", 0), "SHA3"] + R32,
       "SHA3-concrete")
    sp("keccak-sym-eq", cd0 + [("PUSH", 0), "MSTORE", ("PUSH", 32), ("PUSH", 0), "SHA3"] + cd1 + [
        ("PUSH", 0), "MSTORE", ("PUSH", 32), ("PUSH", 0), "SHA3", "EQ"] + R32, "SHA3-sym")
    return out


def programs(seed, n, tier, only=None, c02=False):
    out = []
    fams = {
        "F1": lambda g: g.f1_straight(), "F2": lambda g: g.f2_branch(), "F3": lambda g: g.f3_memory(),
        "F5": lambda g: g.f5_hash_log(),
    }
    for fam, mk in fams.items():
        if only and fam not in only:
            continue
        for k in range(n):
            g = gen.G(f"{fam}-{seed}-{k}")
            items = mk(g)
            try:
                p = _mk(f"{fam}#{seed}-{k}", items, features=g.features)
            except Exception:
                continue
            if len(p.contracts[progs.THIS]) > 600:
                continue
            out.append(p)
    for fam in ("F6", "F6c", "F7"):
        if only and fam not in only:
            continue
        for k in range(max(4, (n * 6) // 10)):
            g = gen.G6(f"{fam}-{seed}-{k}", ncd=3 if fam == "F6" else 2)
            try:
                if fam == "F6":
                    main, others = g.f6_calls()
                    p = _mk_multi(f"{fam}#{seed}-{k}", main, others, features=g.features, ncd=3,
                                  balances=("this", "caller", gen.A_MUTATE, gen.A_NEST))
                elif fam == "F6c":
                    main, others = g.f6_create()
                    p = _mk_multi(f"{fam}#{seed}-{k}", main, others, features=g.features)
                else:
                    main, others = g.f7_loop()
                    sym = "loop-symbolic" in g.features
                    p = _mk_multi(f"{fam}#{seed}-{k}", main, others, features=g.features,
                                  loop_bound=8 if sym else None)
                    if sym:
                        p.options = {"loop": g.r.choice([1, 2, 3])}
            except Exception:
                import traceback

                traceback.print_exc()
                continue
            out.append(p)
    if not only or "special" in only:
        out += specials()
    return out
