"""Grammar of test contracts with guarded assertion failures (C03/C04/C16/C20).

A check_ function evaluates a conjunction of 1-3 guard atoms over its arguments, storage written by setUp and
calldata lengths; if all atoms hold it fails in one of several ways (configured / unconfigured Panic codes, the legacy
failure flag, vm.assertEq).  Atoms include comparisons, wrapping linear relations, mul/div/mod relations that need the
exact refinement of halmos' arithmetic abstractions (incl. unsatisfiable ones that are only unsat under the EVM
definition of division by zero), and relations over dynamic parameters read the way Solidity reads them.
"""

from __future__ import annotations

import random

from lib import e2e

M256 = (1 << 256) - 1
SHAPES = [
    ("uint256",), ("uint256", "uint256"), ("uint8", "address"), ("int256", "bool"), ("uint256", "bytes"),
    ("uint256[]", "uint256"), ("bytes32", "uint256"), ("uint256", "uint256", "uint256"),
    ("uint256[]", "uint256[]"), ("bytes", "bytes"), ("uint256[]", "bytes", "uint256"),
]
BYTES_LENS = [0, 1, 33]
ARRAY_LENS = [0, 1, 2]


def arg(i):
    return [("PUSH", 4 + 32 * i), "CALLDATALOAD"]


def dyn_len(i):
    return arg(i) + [("PUSH", 4), "ADD", "CALLDATALOAD"]


def dyn_word(i, k):
    """k-th 32-byte word of the tail body of dynamic argument i"""
    return arg(i) + [("PUSH", 4 + 32 + 32 * k), "ADD", "CALLDATALOAD"]


def dyn_byte(i, k):
    return arg(i) + [("PUSH", 4 + 32 + k), "ADD", "CALLDATALOAD", ("PUSH", 0), "BYTE"]


class TG:
    def __init__(self, seed):
        self.r = random.Random(seed)
        self.storage = {}  # slot -> constant written by setUp

    def const(self):
        r = self.r
        return r.choice([0, 1, 2, 3, 5, 7, 10, 42, 100, 255, 256, 1000, 1 << 64, (1 << 255), M256, M256 - 1,
                         r.getrandbits(16), r.getrandbits(64)])

    def small(self):
        return self.r.choice([1, 2, 3, 5, 7, 10, 16, 100])

    # -- atoms: (items leaving a 0/1-or-nonzero word, description, kind) ------------------------------------------
    def atom(self, types, force=None):
        r = self.r
        words = [i for i, t in enumerate(types) if not e2e_is_dyn(t)]
        dyns = [i for i, t in enumerate(types) if e2e_is_dyn(t)]
        kinds = ["cmp", "cmp", "lin", "mul", "div", "mod", "store", "unsat", "divzero"]
        if force == "eqconst" and words:
            x = r.choice(words)
            c = self.const()
            return [("PUSH", c)] + arg(x) + ["EQ"], f"a{x} EQ {c:#x}", "plain"
        if dyns:
            kinds += ["dyn", "dyn", "dyn"]
        if len(words) >= 2:
            kinds += ["cmp2", "lin2", "mul2", "div2", "div2", "exp2"]
        k = r.choice(kinds)
        x = r.choice(words) if words else None
        if x is None:
            k = "dyn"
        if k == "cmp":
            op = r.choice(["LT", "GT", "SLT", "SGT", "EQ"])
            c = self.const()
            return [("PUSH", c)] + arg(x) + [op], f"a{x} {op} {c:#x}", "plain"
        if k == "cmp2":
            y = r.choice([w for w in words if w != x])
            op = r.choice(["LT", "GT", "SLT", "EQ"])
            return arg(y) + arg(x) + [op], f"a{x} {op} a{y}", "plain"
        if k == "lin":
            c1, c2 = self.const(), self.const()
            return [("PUSH", c2), ("PUSH", c1)] + arg(x) + ["ADD", "EQ"], f"a{x}+{c1:#x} == {c2:#x}", "plain"
        if k == "lin2":
            y = r.choice([w for w in words if w != x])
            c = self.const()
            op = r.choice(["ADD", "SUB"])
            return [("PUSH", c)] + arg(y) + arg(x) + [op, "EQ"], f"a{x} {op} a{y} == {c:#x}", "plain"
        if k == "mul":
            c1, c2 = self.small(), self.const()
            return [("PUSH", c2), ("PUSH", c1)] + arg(x) + ["MUL", "EQ"], f"a{x}*{c1} == {c2:#x}", "arith"
        if k == "mul2":
            y = r.choice([w for w in words if w != x])
            c = r.choice([6, 35, 1 << 64, 0, 12345, 3])
            return [("PUSH", c)] + arg(y) + arg(x) + ["MUL", "EQ"], f"a{x}*a{y} == {c:#x}", "arith"
        if k == "div":
            c1, c2 = self.small(), r.choice([0, 1, 7, 1000])
            return [("PUSH", c2), ("PUSH", c1)] + arg(x) + ["DIV", "EQ"], f"a{x}/{c1} == {c2}", "arith"
        if k == "exp2":
            y = r.choice([w for w in words if w != x])
            c = r.choice([6, 1, 8, 0])
            return ([("PUSH", c)] + arg(y) + arg(x) + ["EXP", "EQ", ("PUSH", 4)] + arg(x) + ["LT", "AND", ("PUSH", 4)] + arg(y) + ["LT", "AND"],
                    f"a{x}**a{y} == {c} && a{x}<4 && a{y}<4", "exp")
        if k == "div2":
            y = r.choice([w for w in words if w != x])
            c = r.choice([0, 1, 3, 7, M256, M256, 1 << 255])
            op = r.choice(["DIV", "MOD", "SDIV", "SMOD"])
            return [("PUSH", c)] + arg(y) + arg(x) + [op, "EQ"], f"{op}(a{x},a{y}) == {c}", "arith"
        if k == "mod":
            c1 = r.choice([3, 7, 10, 16, 1000])
            c2 = r.randrange(0, c1 + 2)
            return [("PUSH", c2), ("PUSH", c1)] + arg(x) + ["MOD", "EQ"], f"a{x}%{c1} == {c2}", "arith"
        if k == "store":
            slot = r.choice(sorted(self.storage)) if self.storage else 0
            c = self.const()
            return [("PUSH", c)] + arg(x) + [("PUSH", slot), "SLOAD", "ADD", "EQ"], f"s{slot}+a{x} == {c:#x}", "plain"
        if k == "divzero":
            # satisfiable only by a zero divisor (EVM: x/0 = x%0 = 0)
            which = r.randrange(4)
            c = r.choice([3, 4, 9])
            if which == 0:
                return [("PUSH", 0)] + arg(x) + [("PUSH", c + 4), "DIV", "EQ", ("PUSH", c)] + arg(x) + ["LT", "AND"], f"{c+4}/a{x}==0 && a{x}<{c}", "arith"
            if which == 1:
                return [("PUSH", 0)] + arg(x) + [("PUSH", c), "MOD", "EQ", ("PUSH", 2)] + arg(x) + ["LT", "AND"], f"{c}%a{x}==0 && a{x}<2 && ...", "arith"
            if which == 2:
                return [("PUSH", 0)] + arg(x) + [("PUSH", M256), "SDIV", "EQ", ("PUSH", 1)] + arg(x) + ["LT", "AND"], f"sdiv(-1,a{x})==0 && a{x}<1", "arith"
            return [("PUSH", 0)] + arg(x) + [("PUSH", M256 - 6), "SMOD", "EQ", ("PUSH", 1)] + arg(x) + ["LT", "AND"], f"smod(-7,a{x})==0 && a{x}<1", "arith"
        if k == "unsat":
            which = r.randrange(6)
            if which == 0:  # x < 5 && x > 10
                return [("PUSH", 5)] + arg(x) + ["LT", ("PUSH", 10)] + arg(x) + ["GT", "AND"], f"a{x}<5 && a{x}>10", "plain"
            if which == 1:  # x*x == 3 : 3 is not a square mod 8
                return [("PUSH", 3)] + arg(x) + ["DUP1", "MUL", "EQ"], f"a{x}*a{x} == 3", "arith"
            if which == 2:  # x*2 == 1
                return [("PUSH", 1), ("PUSH", 2)] + arg(x) + ["MUL", "EQ"], f"a{x}*2 == 1", "arith"
            if which == 3:  # 7 / x == 9 : impossible (x=0 gives 0 in the EVM)
                return [("PUSH", 9)] + arg(x) + [("PUSH", 7), "DIV", "EQ"], f"7/a{x} == 9", "arith"
            if which == 4:  # (x % 7) > 6
                return [("PUSH", 6), ("PUSH", 7)] + arg(x) + ["MOD", "GT"], f"a{x}%7 > 6", "arith"
            # x / 0-able: (5 / x == 0) && x < 5 && x != 0 ... satisfiable only by x == 0 under EVM semantics: x=0 -> 0 == 0
            return [("PUSH", 0)] + arg(x) + [("PUSH", 5), "DIV", "EQ", ("PUSH", 5)] + arg(x) + ["LT", "AND"], f"5/a{x}==0 && a{x}<5", "arith"
        # dynamic parameters
        d = r.choice(dyns)
        t = types[d]
        lens = BYTES_LENS if t in ("bytes", "string") else ARRAY_LENS
        which = r.randrange(3)
        if which == 0:
            n = r.choice(lens + [lens[-1] + 1])
            return [("PUSH", n)] + dyn_len(d) + ["EQ"], f"len(a{d}) == {n}", "dyn"
        if t in ("bytes", "string"):
            i = r.choice([0, 0, 32])
            v = r.choice([0, 0x41, 0xFF])
            return ([("PUSH", i)] + dyn_len(d) + ["GT", ("PUSH", v)] + dyn_byte(d, i) + ["EQ", "AND"],
                    f"len(a{d})>{i} && a{d}[{i}] == {v:#x}", "dyn")
        i = r.choice([0, 1])
        if words and which == 1:
            return ([("PUSH", i)] + dyn_len(d) + ["GT"] + arg(words[0]) + dyn_word(d, i) + ["EQ", "AND"],
                    f"len(a{d})>{i} && a{d}[{i}] == a{words[0]}", "dyn")
        c = self.const()
        return ([("PUSH", i)] + dyn_len(d) + ["GT", ("PUSH", c)] + dyn_word(d, i) + ["EQ", "AND"],
                f"len(a{d})>{i} && a{d}[{i}] == {c:#x}", "dyn")

    def failure(self):
        r = self.r
        k = r.choice(["panic1", "panic1", "panic1", "panic11", "panic32", "flag", "assert"])
        if k == "panic1":
            return e2e.panic(1), "Panic(1)"
        if k == "panic11":
            return e2e.panic(0x11), "Panic(0x11)"
        if k == "panic32":
            return e2e.panic(0x32), "Panic(0x32)"
        if k == "flag":
            return e2e.fail_flag() + ["STOP"], "fail-flag"
        # vm.assertEq(uint256,uint256) with unequal constants: always fails when reached
        return e2e.call_cheat("assertEq(uint256,uint256)", [[("PUSH", 1)], [("PUSH", 2)]]) + ["POP", "STOP"], "vm.assertEq(1,2)"

    def function(self, idx):
        r = self.r
        types = r.choice(SHAPES)
        form = r.choice(["and", "and", "and", "ifelse", "assert"])
        n = r.choice([1, 1, 2, 2, 3]) if form != "ifelse" else 3
        atoms = [self.atom(types) for _ in range(n)]
        if form == "ifelse" and r.random() < 0.6:
            atoms[0] = self.atom(types, force="eqconst")  # the then-arm pins an argument; the else-arm re-reads it
        fail, fdesc = self.failure()
        body = []
        if form == "and":
            for items, _, _ in atoms:
                body += items + ["ISZERO", ("PUSHL", "ok"), "JUMPI"]
            body += fail + [("LABEL", "ok"), "STOP"]
        elif form == "ifelse":
            # if (A0) { if (A1) fail } else { if (A2) fail }   -- both arms re-read the arguments
            (a0, d0, k0), (a1, d1, k1), (a2, d2, k2) = atoms
            fail2, fdesc2 = self.failure()
            body += a0 + [("PUSHL", "then"), "JUMPI"] + a2 + ["ISZERO", ("PUSHL", "ok"), "JUMPI"] + fail2
            body += [("LABEL", "then")] + a1 + ["ISZERO", ("PUSHL", "ok"), "JUMPI"] + fail + [("LABEL", "ok"), "STOP"]
            atoms = [(a0, f"if({d0}){{{d1}}}else{{{d2} => {fdesc2}}}", k0), (a1, "", k1), (a2, "", k2)]
        else:
            # forge-std style: vm.assertTrue(!(A0 && A1 ...)) -- the condition goes to the cheatcode as a value
            cond = atoms[0][0] + ["ISZERO", "ISZERO"]
            for items, _, _ in atoms[1:]:
                cond += items + ["ISZERO", "ISZERO", "AND"]
            body += e2e.call_cheat("assertTrue(bool)", [cond + ["ISZERO"]]) + ["POP", "STOP"]
            fdesc = "vm.assertTrue(!guard)"
        sig = f"check_f{idx}({','.join(types)})"
        meta = {"sig": sig, "types": list(types), "atoms": [a[1] for a in atoms if a[1]], "kinds": sorted({a[2] for a in atoms}),
                "failure": fdesc, "form": form}
        return (sig, body), meta

    def contract(self, name, nfn=8):
        r = self.r
        self.storage = {k: self.const() for k in range(r.randint(1, 3))}
        setup = []
        for k, v in self.storage.items():
            setup += [("PUSH", v), ("PUSH", k), "SSTORE"]
        fns, metas = [("setUp()", setup)], []
        for i in range(nfn):
            f, m = self.function(i)
            fns.append(f)
            metas.append(m)
        return e2e.Spec(name, fns=fns), metas


def e2e_is_dyn(t):
    return t in ("bytes", "string") or t.endswith("[]")


def len_candidates(types):
    return {i: (BYTES_LENS if t in ("bytes", "string") else ARRAY_LENS) for i, t in enumerate(types) if e2e_is_dyn(t)}
