"""C18 Route A (strings): the CSV kernels of ParseCSVInt / ParseErrorCodes translated from /repo's AST to SMT-LIB
strings + integers and decided by cvc5 (z3's sequence solver answers unknown on these).

What is read from the AST at run time (`extract`): the join separator, the element formatter of `unparse`
(`str(v)` or `f"<prefix>{v:0<w>x}"`), the wildcard literal of the empty set, whether `parse` strips the text first,
the element converter (`int(x)` / `int(x, 0)`), the result container, and the shape of `parse_csv`
(split on the separator, strip each piece, drop empty pieces).  Anything else raises Unsupported (=> inconclusive).
Python builtins get these models (validated on a grid against the interpreter by `validate_builtins`):
  str(v), v >= 0                = str.from_int
  format(v, "0<w>x"), v < 16^4  = nibble-wise str.from_code, at least w digits
  s.split(sep) with n pieces    = unrolled str.indexof / str.substr, and no further separator in the last piece
  piece.strip()                 = piece, under the proved side condition that its first and last characters are
                                  printable ASCII 33..126
  int(tok) / int(tok, 0)        = str.to_int for a plain decimal numeral; "0x" + 1..4 hex digits by nibble sum
The obligation  exists v_0..v_{n-1} in [0, 2^16): parse(unparse(v)) != v  must be unsat.
"""

from __future__ import annotations

import ast
import os
import re
import subprocess
import tempfile
import time

import z3

from lib.c18_timeout import Unsupported, _find, _parse_file

S = z3.StringVal
RANGE = 65536


# ---------------------------------------------------------------------------
# AST extraction
# ---------------------------------------------------------------------------
def _is_name(e, name):
    return isinstance(e, ast.Name) and e.id == name


def _strip_doc(body):
    return [s for s in body if not (isinstance(s, ast.Expr) and isinstance(s.value, ast.Constant))]


def extract_parse_csv(utl_or_cfg) -> dict:
    fn = _find(utl_or_cfg, "parse_csv")
    args = [a.arg for a in fn.args.args]
    if args != ["values", "sep"] or len(fn.args.defaults) != 1 or not isinstance(fn.args.defaults[0], ast.Constant):
        raise Unsupported("parse_csv signature")
    body = _strip_doc(fn.body)
    if len(body) != 1 or not isinstance(body[0], ast.Return) or not isinstance(body[0].value, ast.GeneratorExp):
        raise Unsupported("parse_csv body")
    g = body[0].value
    if len(g.generators) != 1:
        raise Unsupported("parse_csv generators")
    c = g.generators[0]
    it = c.iter
    ok_iter = (isinstance(it, ast.Call) and isinstance(it.func, ast.Attribute) and it.func.attr == "split"
               and _is_name(it.func.value, "values") and len(it.args) == 1 and _is_name(it.args[0], "sep"))
    ok_if = (len(c.ifs) == 1 and isinstance(c.ifs[0], ast.NamedExpr) and isinstance(c.ifs[0].value, ast.Call)
             and isinstance(c.ifs[0].value.func, ast.Attribute) and c.ifs[0].value.func.attr == "strip"
             and not c.ifs[0].value.args and isinstance(c.target, ast.Name)
             and _is_name(c.ifs[0].value.func.value, c.target.id) and _is_name(g.elt, c.ifs[0].target.id))
    if not (ok_iter and ok_if):
        raise Unsupported("parse_csv is not (x for _x in values.split(sep) if (x := _x.strip()))")
    return {"default_sep": fn.args.defaults[0].value}


def extract_class(cfg, cls: str) -> dict:
    out = {"class": cls}
    # ---- unparse ----
    body = _strip_doc(_find(cfg, cls, "unparse").body)
    out["wild"] = None
    if len(body) == 2 and isinstance(body[0], ast.If):
        t = body[0]
        if not (isinstance(t.test, ast.UnaryOp) and isinstance(t.test.op, ast.Not) and _is_name(t.test.operand, "values")
                and len(t.body) == 1 and isinstance(t.body[0], ast.Return) and isinstance(t.body[0].value, ast.Constant)
                and not t.orelse):
            raise Unsupported(f"{cls}.unparse: leading if")
        out["wild"] = t.body[0].value.value
        body = body[1:]
    if len(body) != 1 or not isinstance(body[0], ast.Return):
        raise Unsupported(f"{cls}.unparse body")
    call = body[0].value
    if not (isinstance(call, ast.Call) and isinstance(call.func, ast.Attribute) and call.func.attr == "join"
            and isinstance(call.func.value, ast.Constant) and len(call.args) == 1 and isinstance(call.args[0], ast.ListComp)):
        raise Unsupported(f"{cls}.unparse is not sep.join([...])")
    out["sep"] = call.func.value.value
    lc = call.args[0]
    if len(lc.generators) != 1 or lc.generators[0].ifs or not _is_name(lc.generators[0].iter, "values"):
        raise Unsupported(f"{cls}.unparse comprehension")
    var = lc.generators[0].target.id
    e = lc.elt
    if isinstance(e, ast.Call) and _is_name(e.func, "str") and len(e.args) == 1 and _is_name(e.args[0], var):
        out["fmt"] = ("str",)
    elif isinstance(e, ast.JoinedStr):
        prefix, spec, seen = "", None, False
        for part in e.values:
            if isinstance(part, ast.Constant) and not seen:
                prefix += part.value
            elif isinstance(part, ast.FormattedValue) and not seen and _is_name(part.value, var) and part.conversion == -1:
                seen = True
                fs = part.format_spec
                if fs is None:
                    spec = ""
                elif len(fs.values) == 1 and isinstance(fs.values[0], ast.Constant):
                    spec = fs.values[0].value
                else:
                    raise Unsupported("format spec")
            else:
                raise Unsupported(f"{cls}.unparse f-string shape")
        m = re.fullmatch(r"0(\d)x", spec or "")
        if not seen or not m:
            raise Unsupported(f"{cls}.unparse format spec {spec!r}")
        out["fmt"] = ("hex", prefix, int(m.group(1)))
    else:
        raise Unsupported(f"{cls}.unparse element")
    # ---- parse ----
    body = _strip_doc(_find(cfg, cls, "parse").body)
    out["strip_first"] = False
    out["wild_parse"] = None
    while len(body) > 1:
        st = body[0]
        if (isinstance(st, ast.Assign) and len(st.targets) == 1 and _is_name(st.targets[0], "values")
                and isinstance(st.value, ast.Call) and isinstance(st.value.func, ast.Attribute)
                and st.value.func.attr == "strip" and _is_name(st.value.func.value, "values") and not st.value.args):
            out["strip_first"] = True
        elif (isinstance(st, ast.If) and isinstance(st.test, ast.Compare) and _is_name(st.test.left, "values")
              and isinstance(st.test.ops[0], ast.Eq) and isinstance(st.test.comparators[0], ast.Constant)
              and len(st.body) == 1 and isinstance(st.body[0], ast.Return) and isinstance(st.body[0].value, ast.Call)
              and _is_name(st.body[0].value.func, "set") and not st.body[0].value.args and not st.orelse):
            out["wild_parse"] = st.test.comparators[0].value
        else:
            raise Unsupported(f"{cls}.parse statement {type(st).__name__}")
        body = body[1:]
    r = body[0]
    if not (isinstance(r, ast.Return) and isinstance(r.value, ast.Call) and _is_name(r.value.func, "ensure_non_empty")
            and len(r.value.args) == 1):
        raise Unsupported(f"{cls}.parse return")
    inner = r.value.args[0]
    if isinstance(inner, ast.ListComp):
        out["container"], comp = "list", inner
    elif isinstance(inner, ast.Call) and _is_name(inner.func, "set") and len(inner.args) == 1 \
            and isinstance(inner.args[0], ast.GeneratorExp):
        out["container"], comp = "set", inner.args[0]
    else:
        raise Unsupported(f"{cls}.parse container")
    g = comp.generators[0]
    if not (len(comp.generators) == 1 and not g.ifs and isinstance(g.iter, ast.Call) and _is_name(g.iter.func, "parse_csv")
            and len(g.iter.args) == 1 and _is_name(g.iter.args[0], "values") and not g.iter.keywords):
        raise Unsupported(f"{cls}.parse generator")
    el = comp.elt
    if not (isinstance(el, ast.Call) and _is_name(el.func, "int") and el.args and _is_name(el.args[0], g.target.id)):
        raise Unsupported(f"{cls}.parse element")
    if len(el.args) == 1:
        out["conv"] = ("int", None)
    elif len(el.args) == 2 and isinstance(el.args[1], ast.Constant) and el.args[1].value == 0:
        out["conv"] = ("int", 0)
    else:
        raise Unsupported(f"{cls}.parse int base")
    return out


def extract(src_root: str) -> dict:
    cfg = _parse_file(src_root, "halmos/config.py")
    return {"parse_csv": extract_parse_csv(cfg),
            "ParseCSVInt": extract_class(cfg, "ParseCSVInt"), "ParseErrorCodes": extract_class(cfg, "ParseErrorCodes")}


# ---------------------------------------------------------------------------
# builtin models
# ---------------------------------------------------------------------------
def hexchar(d):
    return z3.If(d < 10, z3.StrFromCode(48 + d), z3.StrFromCode(87 + d))


def fmt_hex(v, width: int):
    c = [hexchar((v / (16 ** i)) % 16) for i in range(4)]
    out = c[0]
    for i in (1, 2, 3):
        out = z3.If(z3.Or(v >= 16 ** i, width > i), z3.Concat(c[i], out), out)
    return out


def fmt(spec, v):
    if spec[0] == "str":
        return z3.IntToStr(v)
    return z3.Concat(S(spec[1]), fmt_hex(v, spec[2])) if spec[1] else fmt_hex(v, spec[2])


def _digitval(c):
    code = z3.StrToCode(c)
    return z3.If(z3.And(code >= 48, code <= 57), code - 48,
                 z3.If(z3.And(code >= 97, code <= 102), code - 87, z3.If(z3.And(code >= 65, code <= 70), code - 55, -1)))


DEC = z3.Plus(z3.Range("0", "9"))
DEC_NOLEAD = z3.Union(z3.Re("0"), z3.Concat(z3.Range("1", "9"), z3.Star(z3.Range("0", "9"))))


def conv(spec, tok):
    """-> (recognised?, value)"""
    if spec == ("int", None):
        return z3.InRe(tok, DEC), z3.StrToInt(tok)
    n = z3.Length(tok) - 2
    body = z3.SubString(tok, 2, n)
    ds = [_digitval(z3.SubString(body, i, 1)) for i in range(4)]
    hexval = z3.If(n == 1, ds[0], z3.If(n == 2, ds[0] * 16 + ds[1], z3.If(
        n == 3, ds[0] * 256 + ds[1] * 16 + ds[2], ds[0] * 4096 + ds[1] * 256 + ds[2] * 16 + ds[3])))
    is_hex = z3.And(z3.Or(z3.PrefixOf(S("0x"), tok), z3.PrefixOf(S("0X"), tok)), n >= 1, n <= 4,
                    *[z3.Or(i >= n, ds[i] >= 0) for i in range(4)])
    is_dec = z3.InRe(tok, DEC_NOLEAD)
    return z3.Or(is_hex, is_dec), z3.If(is_hex, hexval, z3.StrToInt(tok))


def split_n(text, sep, n):
    pieces, rest, conds = [], text, []
    ls = len(sep)
    for _ in range(n - 1):
        i = z3.IndexOf(rest, S(sep), 0)
        conds.append(i >= 0)
        pieces.append(z3.SubString(rest, 0, i))
        rest = z3.SubString(rest, i + ls, z3.Length(rest) - i - ls)
    conds.append(z3.IndexOf(rest, S(sep), 0) < 0)
    pieces.append(rest)
    return pieces, z3.And(*conds)


def _no_outer_space(s):
    a, b = z3.StrToCode(z3.SubString(s, 0, 1)), z3.StrToCode(z3.SubString(s, z3.Length(s) - 1, 1))
    return z3.And(z3.Length(s) >= 1, a >= 33, a <= 126, b >= 33, b <= 126)


def obligation(info: dict, csv: dict, n: int):
    """(vars, assertions) whose unsatisfiability means parse(unparse(v)) == v for all n-element values in range"""
    vs = [z3.Int(f"v{i}") for i in range(n)]
    dom = [z3.And(v >= 0, v < RANGE) for v in vs]
    if info["container"] == "set":
        dom += [vs[i] != vs[j] for i in range(n) for j in range(i)]
    sep = info["sep"]
    if sep != csv["default_sep"]:
        raise Unsupported("unparse joins with a separator parse_csv does not split on")
    toks = [fmt(info["fmt"], v) for v in vs]
    text = toks[0]
    for t in toks[1:]:
        text = z3.Concat(text, S(sep), t)
    good = []
    if info["strip_first"]:
        good.append(_no_outer_space(text))  # values.strip() is the identity
    if info["wild_parse"] is not None:
        good.append(text != S(info["wild_parse"]))  # not taken for the wildcard
    pieces, shape = split_n(text, sep, n)
    good.append(shape)
    for p, v in zip(pieces, vs):
        good.append(_no_outer_space(p))  # strip() is the identity and the piece is kept (non-empty)
        ok, val = conv(info["conv"], p)
        good += [ok, val == v]  # list: same order; set: same elements (distinct by assumption)
    return vs, dom + [z3.Not(z3.And(*good))]


def to_smt2(vs, assertions) -> str:
    s = z3.Solver()
    s.add(*assertions)
    return ("(set-logic ALL)\n(set-option :produce-models true)\n" + s.to_smt2().replace("(check-sat)", "")
            + "(check-sat)\n(get-value (" + " ".join(v.decl().name() for v in vs) + "))\n")


def solve(vs, assertions, timeout_s: float) -> dict:
    t0 = time.time()
    d = tempfile.mkdtemp(prefix="verif_c18s_")
    try:
        path = os.path.join(d, "q.smt2")
        with open(path, "w") as f:
            f.write(to_smt2(vs, assertions))
        try:
            p = subprocess.run(["cvc5", "--strings-exp", f"--tlimit={int(timeout_s * 1000)}", path], capture_output=True,
                               text=True, timeout=timeout_s + 30)
            out = p.stdout.strip()
        except subprocess.TimeoutExpired:
            out = "timeout"
        except FileNotFoundError:
            out = "cvc5 not found"
    finally:
        import shutil

        shutil.rmtree(d, ignore_errors=True)
    first = out.splitlines()[0] if out else "unknown"
    res = {"result": first if first in ("sat", "unsat") else "unknown", "time": round(time.time() - t0, 2),
           "backend": "cvc5"}
    if first == "sat":
        res["model"] = {m.group(1): int(m.group(2).replace("(- ", "-").rstrip(")")) for m in
                        re.finditer(r"\((v\d+) (\(- \d+\)|\d+)\)", out)}
    elif first != "unsat":
        res["reason"] = (out or "no output")[-120:]
    return res


def validate_builtins() -> list[str]:
    """the builtin models agree with the interpreter on a grid"""
    bad = []
    grid = [0, 1, 9, 10, 15, 16, 17, 99, 100, 255, 256, 257, 4095, 4096, 4097, 9999, 10000, 65535]
    for v in grid:
        for w in (1, 2, 3):
            got = z3.simplify(fmt_hex(z3.IntVal(v), w)).as_string()
            if got != format(v, f"0{w}x"):
                bad.append(f"format({v},'0{w}x') model {got!r}")
        for spec, text, want in ((("int", None), str(v), v), (("int", 0), str(v), v), (("int", 0), hex(v), v),
                                 (("int", 0), "0X" + format(v, "X"), v)):
            ok, val = conv(spec, S(text))
            if not z3.is_true(z3.simplify(ok)) or z3.simplify(val).as_long() != want or int(text, 10 if spec[1] is None else spec[1]) != want:
                bad.append(f"int({text!r},{spec[1]}) model {z3.simplify(ok)}, {z3.simplify(val)}")
    for text, base in (("07", 0), ("0x", 0), ("1a", None), ("", None), ("0xg", 0)):
        ok, _ = conv(("int", base), S(text))
        try:
            int(text, 10 if base is None else base)
            real = True
        except ValueError:
            real = False
        if z3.is_true(z3.simplify(ok)) != real:
            bad.append(f"int({text!r},{base}) acceptance model {z3.simplify(ok)} real {real}")
    pcs, shape = split_n(S("a,bc,d"), ",", 3)
    if not z3.is_true(z3.simplify(shape)) or [z3.simplify(p).as_string() for p in pcs] != "a,bc,d".split(","):
        bad.append("split model")
    return bad


def replay(cls: str, values: list[int]) -> dict:
    import halmos.config as hc

    action = getattr(hc, cls)
    v = set(values) if cls == "ParseErrorCodes" else list(values)
    text = action.unparse(v)
    try:
        back = action.parse(text)
    except ValueError as e:
        back = f"ValueError({e})"
    return {"value": repr(v), "unparsed": text, "reparsed": repr(back), "reproduced": back != v}
