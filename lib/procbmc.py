"""Route A for C17: AST -> per-thread control-flow graphs of atomic steps -> bounded model checking with z3.

The source of `halmos/processes.py` (from lib.common.REPO_SRC) is read with `ast` at run time.  Statements are mapped
onto a fixed state vocabulary (shutdown flag, lock owner, futures registry, per job: process state, `process` field,
`_exception`, done, number of set_result calls ...).  A statement that touches none of the shared vocabulary is
*invisible* (merged into the preceding visible step of the same thread: it commutes with every other thread); a
statement that touches shared vocabulary but matches no known pattern raises `Unsupported` (=> inconclusive, never a
violation).  Every visible statement is one atomic step (= one gate line for the deterministic replay scheduler in
lib/procreplay.py).

Expression language (conditions):  ('T',) ('b',var) ('nb',var) ('eq',var,int) ('ne',var,int) ('eqv',var,var)
                                   ('and',[..]) ('or',[..]) ('not',e)
Effect right-hand sides:           ('const',v) ('var',name) ('inc',name) ('ite',cond,rhs,rhs) ('bool',cond)
"""

from __future__ import annotations

import ast
import os
import re
import time

END, IDLE, FIRST_NODE = 0, 1, 2
P_NONE, P_RUN, P_EXIT, P_KILL = 0, 1, 2, 3
X_NONE, X_TIMEOUT, X_OTHER = 0, 1, 2
FREE = 63  # lock owner value meaning "not held"
NOREG = 7  # regpos value meaning "not in the registry"

ALL_KINDS = ["TIMEOUT_SUB", "TIMEOUT_PS", "NOSUCH", "OSERR", "SHUTDOWN", "INVALID", "CANCELLED", "ATTRERR"]


class Unsupported(Exception):
    pass


T = ("T",)


def AND(*xs):
    xs = [x for x in xs if x != T]
    return T if not xs else xs[0] if len(xs) == 1 else ("and", list(xs))


def OR(*xs):
    return ("or", list(xs))


def NOT(x):
    return ("not", x)


# ----------------------------------------------------------------------------------------------------------------
# sorts of state variables (by name prefix)
# ----------------------------------------------------------------------------------------------------------------
BOOL_PREFIX = ("flag", "swept", "sdret", "sdretw", "pf", "done", "started", "tf", "acc", "rej", "late", "missed", "early",
               "crash", "igterm", "hasto", "pfail", "sdreq", "uf", "kp")
BV_PREFIX = {"lock": 6, "nreg": 3, "regpos": 3, "proc": 2, "exc": 2, "nset": 2, "res": 2, "pc": 8, "snap": 3, "it": 3}
CONST_PREFIX = ("igterm", "hasto", "pfail")


def sort_of(name: str):
    base = name.rstrip("0123456789_")
    if base in BV_PREFIX:
        return BV_PREFIX[base]
    if base in BOOL_PREFIX:
        return "b"
    raise KeyError(name)


def init_of(name: str):
    base = name.rstrip("0123456789_")
    return {"lock": FREE, "regpos": NOREG}.get(base, 0 if base in BV_PREFIX else False)


# ----------------------------------------------------------------------------------------------------------------
# source access
# ----------------------------------------------------------------------------------------------------------------
SENSITIVE_ATTRS = {
    "_lock", "_shutdown", "_futures", "_exception", "set_result", "set_exception", "set_running_or_notify_cancel",
    "start", "cancel", "is_running", "result", "exception", "done", "submit", "shutdown", "_join", "poll",
    "communicate", "terminate", "kill", "wait", "pid", "children", "acquire", "release", "set", "is_set", "clear",
    "append", "extend", "remove", "pop", "insert", "add_done_callback", "send_signal", "join", "futures", "register",
    "shutdown_all", "_executors", "add", "locked", "_state", "_condition", "_result",
}
SENSITIVE_NAMES = {"psutil", "subprocess", "threading", "concurrent", "Popen", "weakref", "super"}
BENIGN_PROCESS_ATTRS = {"stdout", "stderr", "stdin", "returncode"}
USER_FLAGS: set = set()  # filled by Source (boolean fields of PopenFuture outside the fixed vocabulary)


def is_sensitive(n) -> bool:
    if isinstance(n, ast.Attribute):
        if (n.attr in BENIGN_PROCESS_ATTRS and isinstance(n.value, ast.Attribute) and n.value.attr == "process"):
            return is_sensitive(n.value.value)
        if n.attr in SENSITIVE_ATTRS or n.attr == "process" or n.attr in USER_FLAGS:
            return True
        return is_sensitive(n.value)
    if isinstance(n, ast.Name):
        return n.id in SENSITIVE_NAMES
    return any(is_sensitive(c) for c in ast.iter_child_nodes(n))


def has_control(n) -> bool:
    return any(isinstance(x, (ast.Return, ast.Raise, ast.Break, ast.Continue, ast.Yield, ast.YieldFrom, ast.Await,
                              ast.FunctionDef, ast.Lambda, ast.ClassDef, ast.Global, ast.Nonlocal))
               for x in ast.walk(n))


class Source:
    def __init__(self, src_dir: str):
        self.path = os.path.join(src_dir, "halmos", "processes.py")
        with open(self.path) as f:
            self.text = f.read()
        self.tree = ast.parse(self.text)
        self.classes: dict[str, dict[str, ast.FunctionDef]] = {}
        for n in self.tree.body:
            if isinstance(n, ast.ClassDef):
                self.classes[n.name] = {m.name: m for m in n.body if isinstance(m, ast.FunctionDef)}
        for c in ("PopenFuture", "PopenExecutor"):
            if c not in self.classes:
                raise Unsupported(f"class {c} not found in processes.py")
        self.user_flags = self._user_flags()
        # line -> statement id (innermost statement owning that line; compound statements own their header lines)
        self.stmt_of: dict[int, int] = {}
        self._index(self.tree)

    def _user_flags(self) -> list:
        """boolean fields of PopenFuture outside the fixed vocabulary: `self.X` that is only ever assigned the constants
        True / False (False in __init__) and is read somewhere.  Each becomes one boolean state variable per job."""
        USER_FLAGS.clear()
        assigned, bad, read = {}, set(), set()
        for cname, methods in self.classes.items():
            for mname, fn in methods.items():
                for n in ast.walk(fn):
                    if isinstance(n, ast.Attribute) and isinstance(n.value, ast.Name) and n.value.id == "self" \
                            and cname == "PopenFuture" and isinstance(n.ctx, ast.Load):
                        read.add(n.attr)
                    if isinstance(n, (ast.Assign, ast.AnnAssign, ast.AugAssign)):
                        tg = n.targets if isinstance(n, ast.Assign) else [n.target]
                        for t in tg:
                            for a in ast.walk(t):
                                if isinstance(a, ast.Attribute) and isinstance(a.ctx, ast.Store):
                                    ok = (cname == "PopenFuture" and isinstance(a.value, ast.Name) and a.value.id == "self"
                                          and isinstance(n, ast.Assign) and len(n.targets) == 1 and a is n.targets[0]
                                          and isinstance(n.value, ast.Constant) and isinstance(n.value.value, bool)
                                          and (mname != "__init__" or n.value.value is False))
                                    if ok:
                                        assigned.setdefault(a.attr, []).append(n.value.value)
                                    else:
                                        bad.add(a.attr)
        flags = sorted(x for x in assigned if x not in bad and x in read and x not in SENSITIVE_ATTRS
                       and x not in ("process",) and x not in BENIGN_PROCESS_ATTRS)
        USER_FLAGS.update(flags)
        return flags

    def _index(self, node):
        for st in ast.walk(node):
            if not isinstance(st, ast.stmt):
                continue
            first_body = None
            for fld in ("body", "orelse", "finalbody", "handlers"):
                for ch in getattr(st, fld, []) or []:
                    ln = getattr(ch, "lineno", None)
                    if ln is not None and (first_body is None or ln < first_body):
                        first_body = ln
            hi = st.end_lineno if first_body is None else max(st.lineno, first_body - 1)
            for ln in range(st.lineno, hi + 1):
                cur = self.stmt_of.get(ln)
                # the innermost (latest starting) statement wins
                if cur is None or cur[0] <= st.lineno:
                    self.stmt_of[ln] = (st.lineno, id(st))
        self.stmt_of = {ln: v[0] for ln, v in self.stmt_of.items()}

    def method(self, cls: str, name: str) -> ast.FunctionDef:
        try:
            return self.classes[cls][name]
        except KeyError:
            raise Unsupported(f"method {cls}.{name} not found") from None


def body_of(fn: ast.FunctionDef):
    b = fn.body
    if b and isinstance(b[0], ast.Expr) and isinstance(b[0].value, ast.Constant) and isinstance(b[0].value.value, str):
        b = b[1:]
    return b


# ----------------------------------------------------------------------------------------------------------------
# CFG
# ----------------------------------------------------------------------------------------------------------------
class Out:
    __slots__ = ("cond", "effects", "target", "env", "label")

    def __init__(self, cond, effects, target, env=False, label=""):
        self.cond, self.effects, self.target, self.env, self.label = cond, list(effects), target, env, label


class Node:
    def __init__(self, nid, line, tag):
        self.id, self.line, self.tag, self.outs, self.extra = nid, line, tag, [], {}


class Edge:
    __slots__ = ("target", "effects")

    def __init__(self, target, effects=()):
        self.target, self.effects = target, list(effects)


def memo0(f):
    cell = []

    def g():
        if not cell:
            cell.append(f())
        return cell[0]
    return g


def memo1(f):
    cache = {}

    def g(k):
        if k not in cache:
            cache[k] = f(k)
        return cache[k]
    return g


class K:
    """continuations: next() after falling off the statement list, exc(kind), ret()"""

    def __init__(self, next, exc, ret):
        self.next, self.exc, self.ret = memo0(next), memo1(exc), memo0(ret)


class ThreadM:
    def __init__(self, idx, name, kind):
        self.idx, self.name, self.kind = idx, name, kind
        self.nodes: dict[int, Node] = {}
        self.entry = END
        self.init_pc = IDLE
        self.next_id = FIRST_NODE

    def new(self, line, tag):
        n = Node(self.next_id, line, tag)
        self.nodes[n.id] = n
        self.next_id += 1
        if self.next_id > 250:
            raise Unsupported("thread CFG too large")
        return n


class Scenario:
    """clients: list of (name, [ops]); callbacks: {job: [ops]};  ops: ('submit',j) ('result',j) ('shutdown',wait)
    ('cancel',j) ('done',j) ('exception',j)"""

    def __init__(self, name, jobs, clients, callbacks=None):
        self.name, self.J, self.clients, self.callbacks = name, jobs, clients, callbacks or {}

    def to_json(self):
        return {"name": self.name, "J": self.J, "clients": [[n, [list(o) for o in ops]] for n, ops in self.clients],
                "callbacks": {str(j): [list(o) for o in ops] for j, ops in self.callbacks.items()}}

    @staticmethod
    def from_json(d):
        return Scenario(d["name"], d["J"], [(n, [tuple(o) for o in ops]) for n, ops in d["clients"]],
                        {int(j): [tuple(o) for o in ops] for j, ops in d["callbacks"].items()})


class Model:
    def __init__(self, src: Source, sc: Scenario):
        self.src, self.sc, self.J = src, sc, sc.J
        self.threads: list[ThreadM] = []
        self.vars: dict[str, object] = {}
        self.consts: list[str] = []
        self.sweeps: list[dict] = []     # {'id', 'tasks': {j: thread idx}}
        self.worker_of: dict[int, int] = {}
        self.functions: set[str] = set()
        self.pending_entry: list = []
        for j in range(sc.J):
            for c in CONST_PREFIX:
                self.consts.append(f"{c}{j}")
            for v in ("proc", "pf", "exc", "done", "nset", "started", "tf", "regpos", "acc", "rej", "res", "late",
                      "missed", "early"):
                self.var(f"{v}{j}")
        for v in ("flag", "lock", "nreg", "swept", "sdret", "sdretw"):
            self.var(v)
        for name, ops in sc.clients:
            th = self.thread(f"client:{name}", "client")
            th.init_pc = None  # set below
        for th, (name, ops) in zip(list(self.threads), sc.clients):
            e = self.build_script(ops, 0, th)
            th.entry = e.target
            if e.effects:
                raise Unsupported("script begins with effects")
            th.init_pc = th.entry

    # ---- bookkeeping ----
    def var(self, name):
        if name not in self.vars and name not in self.consts:
            self.vars[name] = init_of(name)
            sort_of(name)
        return name

    def thread(self, name, kind) -> ThreadM:
        th = ThreadM(len(self.threads), name, kind)
        self.threads.append(th)
        self.var(f"pc{th.idx}")
        self.var(f"crash{th.idx}")
        return th

    def gate_lines(self):
        return sorted({n.line for th in self.threads for n in th.nodes.values()})

    def node(self, th, line, tag) -> Node:
        n = th.new(line, tag)
        n.extra["entry"] = self.pending_entry
        self.pending_entry = []
        return n

    def out(self, n: Node, cond, effects, edge: Edge, env=False, label=""):
        n.outs.append(Out(cond, list(n.extra.get("entry", [])) + list(effects) + list(edge.effects), edge.target, env,
                          label))

    # ---- scripts -------------------------------------------------------------------------------------------
    def build_script(self, ops, idx, th, on_end=None, swallow=False) -> Edge:
        if idx == len(ops):
            return on_end() if on_end else Edge(END)
        op = ops[idx]
        nxt = memo0(lambda: self.build_script(ops, idx + 1, th, on_end, swallow))

        def plus(edge, effs):
            return Edge(edge.target, list(effs) + list(edge.effects))

        def die(kind):
            if swallow:  # exceptions of a done-callback are swallowed by Future._invoke_callbacks
                return (on_end() if on_end else Edge(END))
            return Edge(END, [(f"crash{th.idx}", ("const", True))])

        exe = {"self": ("exec",)}
        if op[0] == "submit":
            j = op[1]
            fn = self.src.method("PopenExecutor", "submit")
            env = self.bind(fn, exe, [("job", j)], {})
            ok = lambda: plus(nxt(), [(f"acc{j}", ("const", True))])  # noqa: E731
            k = K(ok, lambda kind: (Edge(END, [(f"rej{j}", ("const", True))]) if kind == "SHUTDOWN" and not swallow
                                    else die(kind)), ok)
            self.pending_entry = [(f"late{j}", ("bool", ("b", "flag")))]
            self.functions.add("PopenExecutor.submit")
            return self.build(body_of(fn), 0, env, k, th)
        if op[0] == "shutdown":
            wait = bool(op[1])
            fn = self.src.method("PopenExecutor", "shutdown")
            env = self.bind(fn, exe, [], {"wait": ("static", wait)})
            ok = lambda: plus(nxt(), [("sdretw" if wait else "sdret", ("const", True))])  # noqa: E731
            k = K(ok, die if not swallow else (lambda kind: nxt()), ok)
            self.functions.add("PopenExecutor.shutdown")
            return self.build(body_of(fn), 0, env, k, th)
        if op[0] in ("result", "cancel", "done", "exception"):
            j = op[1]
            fn = self.src.method("PopenFuture", op[0])
            env = self.bind(fn, {"self": ("job", j)}, [], {})
            self.functions.add(f"PopenFuture.{op[0]}")
            if op[0] == "result":
                k = K(lambda: plus(nxt(), [(f"res{j}", ("const", 1))]),
                      lambda kind: plus(nxt(), [(f"res{j}", ("const", 2 if kind == "TIMEOUT_SUB" else 3))]),
                      lambda: plus(nxt(), [(f"res{j}", ("const", 1))]))
            else:
                k = K(nxt, die if not swallow else (lambda kind: nxt()), nxt)
            return self.build(body_of(fn), 0, env, k, th)
        raise Unsupported(f"unknown op {op}")

    def bind(self, fn: ast.FunctionDef, base_env, pos, kw):
        a = fn.args
        names = [x.arg for x in a.args]
        env = dict(base_env)
        rest = [n for n in names if n != "self"]
        defaults = dict(zip(names[len(names) - len(a.defaults):], a.defaults))
        for n, v in zip(rest, pos):
            env[n] = v
        for n in rest[len(pos):]:
            if n in kw:
                env[n] = kw[n]
            elif n in defaults and isinstance(defaults[n], ast.Constant):
                env[n] = ("static", defaults[n].value)
            else:
                env[n] = ("opaque",)
        return env

    # ---- statements ----------------------------------------------------------------------------------------
    def build(self, stmts, i, env, k: K, th: ThreadM) -> Edge:
        if i == len(stmts):
            return k.next()
        st = stmts[i]
        rest = memo0(lambda: self.build(stmts, i + 1, env, k, th))
        krest = lambda e2: memo0(lambda: self.build(stmts, i + 1, e2, k, th))  # noqa: E731

        if isinstance(st, ast.Pass) or (isinstance(st, ast.Expr) and isinstance(st.value, ast.Constant)):
            return rest()
        if isinstance(st, ast.FunctionDef):
            e2 = dict(env)
            e2[st.name] = ("func", st, env)
            return krest(e2)()
        if isinstance(st, ast.Return):
            return self.do_return(st, env, k, th)
        if isinstance(st, ast.Raise):
            return k.exc(self.exc_kind_of_raise(st))
        if isinstance(st, ast.If):
            return self.do_if(st, env, k, th, rest)
        if isinstance(st, ast.With):
            return self.do_with(st, env, k, th, rest)
        if isinstance(st, ast.Try):
            return self.do_try(st, env, k, th, rest)
        if isinstance(st, ast.For):
            return self.do_for(st, env, k, th, rest)
        if isinstance(st, (ast.Expr, ast.Assign, ast.AnnAssign, ast.AugAssign)):
            return self.do_simple(st, env, k, th, rest, krest)
        raise Unsupported(f"line {st.lineno}: statement {type(st).__name__}")

    def block(self, stmts, env, k, th):
        return self.build(stmts, 0, env, k, th)

    # -- helpers
    def obj(self, e, env):
        """abstract object an expression denotes (or None)"""
        if isinstance(e, ast.Name):
            return env.get(e.id)
        return None

    def job_of_self(self, env, line):
        o = env.get("self")
        if not o or o[0] not in ("job", "jobdyn"):
            raise Unsupported(f"line {line}: self is not a future here")
        return o

    def exc_kinds(self, e) -> list[str]:
        if e is None:
            return list(ALL_KINDS)
        if isinstance(e, ast.Tuple):
            out = []
            for x in e.elts:
                out += self.exc_kinds(x)
            return out
        s = ast.unparse(e)
        table = {"subprocess.TimeoutExpired": ["TIMEOUT_SUB"], "psutil.TimeoutExpired": ["TIMEOUT_PS"],
                 "psutil.NoSuchProcess": ["NOSUCH"], "Exception": list(ALL_KINDS), "BaseException": list(ALL_KINDS),
                 "concurrent.futures.CancelledError": ["CANCELLED"], "ShutdownError": ["SHUTDOWN"],
                 "OSError": ["OSERR"], "concurrent.futures.InvalidStateError": ["INVALID"],
                 "psutil.ZombieProcess": [], "psutil.AccessDenied": [], "TimeoutError": [],
                 "concurrent.futures.TimeoutError": []}
        if s not in table:
            raise Unsupported(f"line {e.lineno}: exception class {s}")
        return table[s]

    def exc_kind_of_raise(self, st: ast.Raise) -> str:
        if st.exc is None:
            raise Unsupported(f"line {st.lineno}: bare raise")
        s = ast.unparse(st.exc)
        if s in ("ShutdownError()", "ShutdownError"):
            return "SHUTDOWN"
        raise Unsupported(f"line {st.lineno}: raise {s}")

    # -- tests
    def test(self, e, env, th):
        """-> ('static', bool) | ('cond', cond, gate_line|None, monitor_effects)"""
        if isinstance(e, ast.UnaryOp) and isinstance(e.op, ast.Not):
            r = self.test(e.operand, env, th)
            if r[0] == "static":
                return ("static", not r[1])
            return ("cond", NOT(r[1]), r[2], r[3])
        if isinstance(e, ast.BoolOp) and isinstance(e.op, ast.And):
            rs = [self.test(v, env, th) for v in e.values]
            if all(r[0] == "static" for r in rs):
                return ("static", all(r[1] for r in rs))
            conds, line, mon = [], None, []
            for r in rs:
                if r[0] == "static":
                    if not r[1]:
                        return ("static", False)
                    continue
                conds.append(r[1])
                line = line or r[2]
                mon += r[3]
            return ("cond", AND(*conds), line, mon)
        if isinstance(e, ast.Name):
            o = env.get(e.id)
            if o and o[0] == "static":
                return ("static", bool(o[1]))
            raise Unsupported(f"line {e.lineno}: test on name {e.id}")
        s = ast.unparse(e)
        so = env.get("self")
        if so == ("exec",) and s == "self._shutdown.is_set()":
            return ("cond", ("b", "flag"), None, [])
        if so and so[0] == "job":
            j = so[1]
            if s == "self.process":
                return ("cond", ("b", f"pf{j}"), None, [])
            if isinstance(e, ast.Attribute) and isinstance(e.value, ast.Name) and e.value.id == "self" \
                    and e.attr in self.src.user_flags:
                return ("cond", ("b", self.var(f"uf{self.src.user_flags.index(e.attr)}_{j}")), None, [])
            if s == "self.process.poll() is None":
                return ("cond", ("eq", f"proc{j}", P_RUN), None, [])
            m = re.fullmatch(r"self\.(\w+)\(\)", s)
            if m and m.group(1) in self.src.classes["PopenFuture"]:
                fn = self.src.method("PopenFuture", m.group(1))
                b = body_of(fn)
                if len(b) == 1 and isinstance(b[0], ast.Return) and b[0].value is not None:
                    self.functions.add(f"PopenFuture.{m.group(1)}")
                    r = self.test(b[0].value, {"self": so}, th)
                    if r[0] == "static":
                        raise Unsupported("static expression function")
                    mon = list(r[3])
                    if m.group(1) == "is_running":
                        mon.append((f"early{j}", ("bool", OR(("b", f"early{j}"),
                                                             AND(("b", f"started{j}"), ("nb", f"pf{j}"))))))
                    return ("cond", r[1], b[0].lineno, mon)
                raise Unsupported(f"line {e.lineno}: {s} is not an expression function")
        if isinstance(e, ast.Call) and isinstance(e.func, ast.Attribute) and e.func.attr == "is_running" \
                and not e.args:
            o = self.obj(e.func.value, env)
            if o and o[0] == "psproc":
                return ("cond", ("eq", f"proc{o[1]}", P_RUN), None, [])
        raise Unsupported(f"line {e.lineno}: test {s}")

    def do_if(self, st, env, k, th, rest):
        if not is_sensitive(st) and not has_control(st):
            return rest()
        try:
            r = self.test(st.test, env, th)
        except Unsupported:
            if not is_sensitive(st.test):
                raise Unsupported(f"line {st.lineno}: branch on un-modelled local condition") from None
            raise
        kk = K(rest, k.exc, k.ret)
        if r[0] == "static":
            return self.block(st.body if r[1] else st.orelse, env, kk, th)
        n = self.node(th, r[2] or st.lineno, "branch")
        n.extra["entry"] = n.extra["entry"] + r[3]
        env_then = env
        if ast.unparse(st.test) == "self.process":
            env_then = dict(env)
            env_then["_pf_known"] = ("static", True)
        self.out(n, r[1], [], self.block(st.body, env_then, kk, th), label="then")
        self.out(n, NOT(r[1]), [], self.block(st.orelse, env, kk, th), label="else")
        return Edge(n.id)

    def do_return(self, st, env, k, th):
        v = st.value
        if v is None or not is_sensitive(v):
            return k.ret()
        s = ast.unparse(v)
        so = env.get("self")
        if so and so[0] in ("job", "jobdyn"):
            if re.fullmatch(r"super\(\)\.result\((timeout=timeout)?\)", s):
                n = self.node(th, st.lineno, "result")
                jobs = [so[1]] if so[0] == "job" else list(range(self.J))
                for j in jobs:
                    sel = T if so[0] == "job" else ("eqv", f"regpos{j}", self.var(f"it{th.idx}"))
                    d = ("b", f"done{j}")
                    self.out(n, AND(sel, d, ("eq", f"exc{j}", X_NONE)), [], k.ret(), label="value")
                    self.out(n, AND(sel, d, ("eq", f"exc{j}", X_TIMEOUT)), [], k.exc("TIMEOUT_SUB"), label="timeout")
                    self.out(n, AND(sel, d, ("eq", f"exc{j}", X_OTHER)), [], k.exc("OSERR"), label="error")
                return Edge(n.id)
            if s in ("super().done()", "self._exception") and so[0] == "job":
                n = self.node(th, st.lineno, "read")
                self.out(n, T, [], k.ret())
                return Edge(n.id)
        raise Unsupported(f"line {st.lineno}: return {s}")

    # -- with
    def do_with(self, st, env, k, th, rest):
        if not is_sensitive(st) and not has_control(st):
            return rest()
        lock = tpe = False
        suppress = None
        env2 = dict(env)
        sweep = None
        for it in st.items:
            s = ast.unparse(it.context_expr)
            if s == "self._lock" and env.get("self") == ("exec",) and it.optional_vars is None:
                lock = True
            elif s == "concurrent.futures.ThreadPoolExecutor()" and isinstance(it.optional_vars, ast.Name):
                tpe = True
                sweep = {"id": len(self.sweeps), "tasks": {}}
                self.sweeps.append(sweep)
                env2[it.optional_vars.id] = ("tpe", sweep["id"])
            elif s.startswith("contextlib.suppress(") and it.optional_vars is None:
                suppress = []
                for a in it.context_expr.args:
                    suppress += self.exc_kinds(a)
            else:
                raise Unsupported(f"line {st.lineno}: context manager {s}")
        if suppress is not None:
            if lock or tpe:
                raise Unsupported(f"line {st.lineno}: mixed context managers")
            kk = K(rest, lambda kind: rest() if kind in suppress else k.exc(kind), k.ret)
            return self.block(st.body, env2, kk, th)

        def exit_to(edge_thunk):
            def mk():
                for k2, v2 in env2.items():  # locals bound in the body outlive the with statement
                    if isinstance(v2, tuple) and v2 and v2[0] == "snapshot":
                        env[k2] = v2
                n = self.node(th, st.lineno, "with-exit")
                cond = T
                if tpe:
                    cond = self.tasks_done(sweep)
                self.out(n, cond, [("lock", ("const", FREE))] if lock else [], edge_thunk())
                return Edge(n.id)
            return mk

        kk = K(exit_to(rest), lambda kind: exit_to(lambda: k.exc(kind))(), exit_to(k.ret))
        n = self.node(th, st.lineno, "with-enter")
        if lock:
            self.out(n, ("eq", "lock", FREE), [("lock", ("const", th.idx))], Edge(END))  # target patched below
        else:
            self.out(n, T, [], Edge(END))  # a thread pool alone: nothing to acquire
        o = n.outs[-1]
        body = self.block(st.body, env2, kk, th)
        o.target = body.target
        o.effects += body.effects
        return Edge(n.id)

    def tasks_done(self, sweep):
        cs = []
        for j, ti in sweep["tasks"].items():
            cs.append(OR(("eq", f"pc{ti}", END), ("eq", f"pc{ti}", IDLE)))
        return AND(*cs) if cs else T

    # -- try
    def do_try(self, st, env, k, th, rest):
        if not is_sensitive(st) and not has_control(st):
            return rest()
        if st.finalbody:
            fin = st.finalbody
            k_out = K(lambda: self.block(fin, env, K(rest, k.exc, k.ret), th),
                      lambda kind: self.block(fin, env, K(lambda: k.exc(kind), k.exc, k.ret), th),
                      lambda: self.block(fin, env, K(k.ret, k.exc, k.ret), th))
        else:
            k_out = K(rest, k.exc, k.ret)

        def handler(kind):
            for h in st.handlers:
                if kind in self.exc_kinds(h.type):
                    e2 = dict(env)
                    if h.name:
                        e2[h.name] = ("exc", kind)
                    return self.block(h.body, e2, k_out, th)
            return k_out.exc(kind)

        k_body = K((lambda: self.block(st.orelse, env, k_out, th)) if st.orelse else k_out.next, handler, k_out.ret)
        return self.block(st.body, env, k_body, th)

    # -- for
    def do_for(self, st, env, k, th, rest):
        if not is_sensitive(st) and not has_control(st):
            return rest()
        if st.orelse or not isinstance(st.target, ast.Name):
            raise Unsupported(f"line {st.lineno}: for/else or tuple target")
        o = self.obj(st.iter, env)
        if o and o[0] == "proclist":
            def it(idx):
                if idx == len(o[1]):
                    return rest()
                e2 = dict(env)
                e2[st.target.id] = o[1][idx]
                return self.block(st.body, e2, K(lambda: it(idx + 1), k.exc, k.ret), th)
            return it(0)
        snap_obj = o if (o and o[0] == "snapshot") else None
        if (ast.unparse(st.iter) == "list(self._futures)" or snap_obj) and env.get("self") == ("exec",):
            itv, snap = self.var(f"it{th.idx}"), (snap_obj[1] if snap_obj else self.var(f"snap{th.idx}"))
            e2 = dict(env)
            e2[st.target.id] = ("jobdyn",)
            state = {}

            def nxt():
                if "n" not in state:
                    n = self.node(th, st.lineno, "for-next")
                    state["n"] = n
                    # it+1 == snap  <=> exhausted
                    self.out(n, ("succ_ne", itv, snap), [(itv, ("inc", itv))], body(), label="next")
                    self.out(n, ("succ_eq", itv, snap), [], rest(), label="exit")
                return Edge(state["n"].id)
            body = memo0(lambda: self.block(st.body, e2, K(nxt, k.exc, k.ret), th))
            n0 = self.node(th, st.lineno, "for-init")
            if snap_obj:  # the list was copied earlier: iterate over that prefix
                eff = [(itv, ("const", 0))]
                self.out(n0, ("ne", snap, 0), eff, body(), label="enter")
                self.out(n0, ("eq", snap, 0), eff, rest(), label="empty")
            else:
                eff = [(snap, ("var", "nreg")), (itv, ("const", 0))]
                self.out(n0, ("ne", "nreg", 0), eff, body(), label="enter")
                self.out(n0, ("eq", "nreg", 0), eff, rest(), label="empty")
            return Edge(n0.id)
        raise Unsupported(f"line {st.lineno}: for over {ast.unparse(st.iter)}")

    # -- self._futures = [f for f in self._futures if P(f)]
    def do_prune(self, st, gen, env, k, th, rest):
        """the registry is pruned by a predicate on each registered future.  Jobs are visited in index order (= registry
        order whenever they were submitted in index order; a schedule where that differs shows up as a replay divergence,
        never as a violation).  One visible step per registered job (the predicate's own gate line); the assignment itself
        happens with the last of them."""
        J, fv = self.J, gen.target.id
        if len(gen.ifs) != 1:
            raise Unsupported(f"line {st.lineno}: several filters in one comprehension")
        kp = [self.var(f"kp{th.idx}_{j}") for j in range(J)]
        reg = [("ne", f"regpos{j}", NOREG) for j in range(J)]
        tests = []
        for j in range(J):
            e = gen.ifs[0]
            # P(f) with f bound to job j: rewrite `f.m()` / `not f.m()` to a test on self of that job
            src = ast.unparse(e)
            rewritten = re.sub(rf"\b{fv}\.", "self.", src)
            node = ast.parse(rewritten, mode="eval").body
            for x in ast.walk(node):
                if not hasattr(x, "lineno"):
                    x.lineno = st.lineno
            r = self.test(node, {"self": ("job", j)}, th)
            if r[0] == "static":
                raise Unsupported(f"line {st.lineno}: static filter")
            tests.append(r)

        def final_effects(decided: dict):
            """decided: j -> keep condition (over the pre-state) for every job"""
            eff = []
            for i in range(J):
                pos = ("count", [AND(decided[m], ("ltv", f"regpos{m}", f"regpos{i}")) for m in range(J) if m != i])
                eff.append((f"regpos{i}", ("ite", decided[i], pos, ("const", NOREG))))
            eff.append(("nreg", ("count", [decided[i] for i in range(J)])))
            return eff

        FALSE = ("not", T)
        nodes = {}

        def succ_outs(n, j_from, base_cond, base_eff, decided_now):
            """outs of node n (after deciding job j_from, or the init node when j_from = -1)"""
            for j2 in range(j_from + 1, J + 1):
                skipped = [NOT(reg[m]) for m in range(j_from + 1, min(j2, J))]
                if j2 < J:
                    cond = AND(base_cond, *skipped, reg[j2])
                    self.out(n, cond, base_eff, Edge(nodes[j2].id), label=f"to{j2}")
                else:
                    cond = AND(base_cond, *skipped)
                    decided = {}
                    for m in range(J):
                        if m in decided_now:
                            decided[m] = decided_now[m]
                        elif m < j_from:
                            decided[m] = AND(reg[m], ("b", kp[m]))
                        else:
                            decided[m] = FALSE  # not registered (the condition above says so)
                    e = rest()
                    self.out(n, cond, list(base_eff) + final_effects(decided) + list(e.effects), Edge(e.target), label="assign")

        init = self.node(th, st.lineno, "prune-init")
        for j in range(J):
            r = tests[j]
            nd = self.node(th, r[2] or st.lineno, "prune-test")
            nd.extra["entry"] = nd.extra["entry"] + r[3]
            nodes[j] = nd
        succ_outs(init, -1, T, [], {})
        for j in range(J):
            r = tests[j]
            succ_outs(nodes[j], j, r[1], [(kp[j], ("const", True))], {j: T})
            succ_outs(nodes[j], j, NOT(r[1]), [(kp[j], ("const", False))], {j: FALSE})
        return Edge(init.id)

    # -- simple statements
    def do_simple(self, st, env, k, th, rest, krest):
        s = ast.unparse(st)
        ln = st.lineno
        so = env.get("self")
        val = st.value if not isinstance(st, ast.AugAssign) else None
        targets = [ast.unparse(t) for t in st.targets] if isinstance(st, ast.Assign) else []

        def simple_node(tag, outs_spec):
            n = self.node(th, ln, tag)
            for cond, eff, edge, *more in outs_spec:
                self.out(n, cond, eff, edge, *more)
            return Edge(n.id)

        # ---- calls that are inlined (X.m(...) on a known object)
        if isinstance(st, ast.Expr) and isinstance(val, ast.Call) and isinstance(val.func, ast.Attribute):
            recv = val.func.value
            o = env.get(recv.id) if isinstance(recv, ast.Name) else None
            meth = val.func.attr
            if o and o[0] in ("job", "jobdyn") and meth in self.src.classes["PopenFuture"] and not val.args \
                    and not val.keywords:
                if o[0] == "jobdyn" and meth != "result":
                    raise Unsupported(f"line {ln}: {meth} on a loop variable")
                fn = self.src.method("PopenFuture", meth)
                self.functions.add(f"PopenFuture.{meth}")
                e2 = self.bind(fn, {"self": o}, [], {})
                if meth == "start":
                    pass
                return self.block(body_of(fn), e2, K(rest, k.exc, rest), th)
            if o == ("exec",) and meth in ("_join",) and not val.args:
                fn = self.src.method("PopenExecutor", meth)
                self.functions.add(f"PopenExecutor.{meth}")
                return self.block(body_of(fn), self.bind(fn, {"self": o}, [], {}), K(rest, k.exc, rest), th)

        if so == ("exec",):
            if s == "self._shutdown.set()":
                return simple_node("flag-set", [(T, [("flag", ("const", True))], rest())])
            m = re.fullmatch(r"self\._futures\.append\((\w+)\)", s)
            if m and env.get(m.group(1), ("",))[0] == "job":
                j = env[m.group(1)][1]
                return simple_node("append", [(T, [(f"regpos{j}", ("var", "nreg")), ("nreg", ("inc", "nreg")),
                                                   (f"missed{j}", ("bool", ("b", "swept")))], rest())])
            if isinstance(st, ast.Assign) and len(targets) == 1 and re.fullmatch(r"\w+", targets[0]) \
                    and ast.unparse(val) in ("list(self._futures)", "self._futures[:]", "self._futures.copy()"):
                # a local snapshot of the registry (append-only: the snapshot is the prefix of length nreg)
                sv = self.var(f"snap{th.idx}")
                env[targets[0]] = ("snapshot", sv)  # in place: a local assigned inside a `with` body is visible after it
                n = self.node(th, ln, "snapshot")
                self.out(n, T, [(sv, ("var", "nreg"))], krest(env)())
                return Edge(n.id)
            if isinstance(st, ast.Assign) and targets == ["self._futures"] and isinstance(val, ast.ListComp) \
                    and len(val.generators) == 1 and val.generators[0].ifs and isinstance(val.generators[0].target, ast.Name) \
                    and isinstance(val.elt, ast.Name) and val.elt.id == val.generators[0].target.id \
                    and ast.unparse(val.generators[0].iter) in ("self._futures", "list(self._futures)"):
                return self.do_prune(st, val.generators[0], env, k, th, rest)
            if isinstance(st, ast.Assign) and isinstance(val, ast.ListComp) and len(targets) == 1:
                g = val.generators
                it_src = ast.unparse(g[0].iter) if len(g) == 1 else ""
                it_obj = self.obj(g[0].iter, env) if len(g) == 1 else None
                snapv = it_obj[1] if it_obj and it_obj[0] == "snapshot" else None
                if (len(g) == 1 and not g[0].ifs and (it_src in ("self._futures", "list(self._futures)") or snapv)
                        and isinstance(g[0].target, ast.Name) and isinstance(val.elt, ast.Call)
                        and isinstance(val.elt.func, ast.Attribute) and val.elt.func.attr == "submit"
                        and self.obj(val.elt.func.value, env) and self.obj(val.elt.func.value, env)[0] == "tpe"
                        and len(val.elt.args) == 1 and ast.unparse(val.elt.args[0]) == f"{g[0].target.id}.cancel"):
                    sweep = self.sweeps[self.obj(val.elt.func.value, env)[1]]
                    eff = [("swept", ("const", True))]
                    fn = self.src.method("PopenFuture", "cancel")
                    self.functions.add("PopenFuture.cancel")
                    for j in range(self.J):
                        ct = self.thread(f"cancel:{sweep['id']}:{j}", "cancel")
                        sweep["tasks"][j] = ct.idx
                        e = self.block(body_of(fn), self.bind(fn, {"self": ("job", j)}, [], {}),
                                       K(lambda: Edge(END), lambda kind: Edge(END), lambda: Edge(END)), ct)
                        if e.effects:
                            raise Unsupported("cancel begins with effects")
                        ct.entry = e.target
                        member = ("ne", f"regpos{j}", NOREG) if not snapv else ("ltv", f"regpos{j}", snapv)
                        eff.append((f"pc{ct.idx}", ("ite", member, ("const", ct.entry), ("const", IDLE))))
                    e2 = dict(env)
                    e2[targets[0]] = ("tasks", sweep["id"])
                    n = self.node(th, ln, "sweep")
                    n.extra["sweep"] = sweep["id"]
                    self.out(n, T, eff, krest(e2)())
                    return Edge(n.id)
            m = re.fullmatch(r"concurrent\.futures\.wait\((\w+)\)", s)
            if m and env.get(m.group(1), ("",))[0] == "tasks":
                sweep = self.sweeps[env[m.group(1)][1]]
                return simple_node("wait-tasks", [(self.tasks_done(sweep), [], rest())])

        if so and so[0] == "job":
            j = so[1]
            if targets == ["self.process"] and isinstance(val, ast.Call) and ast.unparse(val.func) == "Popen":
                e2 = dict(env)
                e2["_pf_known"] = ("static", True)
                rest = krest(e2)
                return simple_node("popen", [
                    (("nb", f"pfail{j}"), [(f"proc{j}", ("const", P_RUN)), (f"pf{j}", ("const", True))], rest(),
                     False, "ok"),
                    (("b", f"pfail{j}"), [], k.exc("OSERR"), False, "raise")])
            if isinstance(val, ast.Call) and ast.unparse(val.func) == "self.process.communicate" \
                    and isinstance(st, ast.Assign) and not any(is_sensitive(t) for t in st.targets):
                return simple_node("communicate", [
                    (("ne", f"proc{j}", P_RUN), [], rest(), False, "return"),
                    (AND(("b", f"hasto{j}"), ("eq", f"proc{j}", P_RUN)), [(f"tf{j}", ("const", True))],
                     k.exc("TIMEOUT_SUB"), True, "timeout")])
            if len(targets) == 1 and targets[0].startswith("self.") and targets[0][5:] in self.src.user_flags \
                    and isinstance(val, ast.Constant) and isinstance(val.value, bool):
                name = self.var(f"uf{self.src.user_flags.index(targets[0][5:])}_{j}")
                return simple_node("uflag-set", [(T, [(name, ("const", val.value))], rest())])
            if targets == ["self._exception"] and isinstance(val, ast.Name) and env.get(val.id, ("",))[0] == "exc":
                kind = env[val.id][1]
                return simple_node("set-exc", [(T, [(f"exc{j}", ("const", X_TIMEOUT if kind == "TIMEOUT_SUB"
                                                                  else X_OTHER))], rest())])
            if isinstance(st, ast.Expr) and isinstance(val, ast.Call) and ast.unparse(val.func) == "self.set_result" \
                    and not any(is_sensitive(a) for a in val.args):
                cbs = self.sc.callbacks.get(j, [])
                after = memo0(lambda: self.build_script(cbs, 0, th, on_end=rest, swallow=True))
                return simple_node("set-result", [
                    (("nb", f"done{j}"), [(f"done{j}", ("const", True)), (f"nset{j}", ("inc", f"nset{j}"))], after(),
                     False, "first"),
                    (("b", f"done{j}"), [(f"nset{j}", ("inc", f"nset{j}"))], k.exc("INVALID"), False, "again")])
            m = re.fullmatch(r"threading\.Thread\(target=(\w+), daemon=(True|False)\)\.start\(\)", s)
            if m and env.get(m.group(1), ("",))[0] == "func":
                if j in self.worker_of:
                    raise Unsupported(f"job {j} started twice in one scenario")
                _, fdef, fenv = env[m.group(1)]
                wt = self.thread(f"worker:{j}", "worker")
                self.worker_of[j] = wt.idx
                self.functions.add("PopenFuture.start")
                self.functions.add(f"PopenFuture.start.{fdef.name}")
                dead = lambda kind: Edge(END, [(f"crash{wt.idx}", ("const", True))])  # noqa: E731
                e = self.block(body_of(fdef), dict(fenv), K(lambda: Edge(END), dead, lambda: Edge(END)), wt)
                if e.effects:
                    raise Unsupported("thread body begins with effects")
                wt.entry = e.target
                return simple_node("spawn", [(T, [(f"pc{wt.idx}", ("const", wt.entry)),
                                                  (f"started{j}", ("const", True))], rest())])
            if len(targets) == 1 and re.fullmatch(r"\w+", targets[0]) and s.endswith("= psutil.Process(self.process.pid)"):
                e2 = dict(env)
                e2[targets[0]] = ("psproc", j)
                return simple_node("ps-new", [(("eq", f"proc{j}", P_RUN), [], krest(e2)(), False, "ok"),
                                              (("ne", f"proc{j}", P_RUN), [], k.exc("NOSUCH"), False, "nosuch")])

        # ---- psutil process objects held in locals
        if isinstance(val, ast.Call) and isinstance(val.func, ast.Attribute) and isinstance(val.func.value, ast.Name):
            o = env.get(val.func.value.id)
            a = val.func.attr
            if o and o[0] == "psproc":
                j = o[1]
                run, nrun = ("eq", f"proc{j}", P_RUN), ("ne", f"proc{j}", P_RUN)
                if a == "children" and len(targets) == 1 and re.fullmatch(r"\w+", targets[0]):
                    e2 = dict(env)
                    e2[targets[0]] = ("proclist", [])  # bound: the fake solver process has no children
                    return krest(e2)()
                if isinstance(st, ast.Expr) and a == "terminate" and not val.args:
                    return simple_node("ps-terminate", [
                        (AND(run, ("nb", f"igterm{j}")), [(f"proc{j}", ("const", P_KILL))], rest(), False, "killed"),
                        (AND(run, ("b", f"igterm{j}")), [], rest(), False, "ignored"),
                        (nrun, [], k.exc("NOSUCH"), False, "nosuch")])
                if isinstance(st, ast.Expr) and a == "kill" and not val.args:
                    return simple_node("ps-kill", [(run, [(f"proc{j}", ("const", P_KILL))], rest(), False, "killed"),
                                                   (nrun, [], k.exc("NOSUCH"), False, "nosuch")])
                if isinstance(st, ast.Expr) and a == "wait":
                    return simple_node("ps-wait", [(run, [], k.exc("TIMEOUT_PS"), False, "timeout"),
                                                   (nrun, [], rest(), False, "exited")])
            if o and o[0] == "proclist" and a == "append" and isinstance(st, ast.Expr) and len(val.args) == 1:
                x = self.obj(val.args[0], env)
                if x and x[0] == "psproc":
                    e2 = dict(env)
                    e2[val.func.value.id] = ("proclist", o[1] + [x])
                    return krest(e2)()

        if not is_sensitive(st) and not has_control(st):
            if so and so[0] == "job" and not env.get("_pf_known") and any(
                    isinstance(a, ast.Attribute) and isinstance(a.value, ast.Attribute) and a.value.attr == "process"
                    and isinstance(a.value.value, ast.Name) and a.value.value.id == "self" for a in ast.walk(st)):
                # `self.process.<attr>` where nothing on the way here guarantees that Popen() succeeded: None has no
                # such attribute
                j = so[1]
                return simple_node("proc-attr", [(("b", f"pf{j}"), [], rest(), False, "ok"),
                                                 (("nb", f"pf{j}"), [], k.exc("ATTRERR"), False, "none")])
            return rest()
        raise Unsupported(f"line {ln}: statement not in the vocabulary: {s[:90]}")


def describe(model: Model) -> str:
    out = []
    for th in model.threads:
        out.append(f"thread {th.idx} {th.name} entry={th.entry} init={th.init_pc}")
        for n in th.nodes.values():
            out.append(f"  n{n.id} line {n.line} {n.tag}")
            for o in n.outs:
                out.append(f"      [{o.label}{' ENV' if o.env else ''}] {o.cond} -> {o.target} {o.effects}")
    return "\n".join(out)


def extract(src_dir: str, sc: Scenario) -> Model:
    return Model(Source(src_dir), sc)


if __name__ == "__main__":
    import sys
    from lib import common
    sc = Scenario("demo", 1, [("A", [("submit", 0), ("result", 0)]), ("B", [("shutdown", False)])])
    t0 = time.time()
    m = extract(sys.argv[1] if len(sys.argv) > 1 else common.REPO_SRC, sc)
    print(describe(m))
    print("gate lines", m.gate_lines(), "functions", sorted(m.functions), f"{time.time() - t0:.2f}s")
