"""Independent reference EVM over z3 terms ("refevm"), written from the Yellow Paper / EIPs.

Shares no code with src/halmos.  Words are exact 256-bit z3 terms, memory/calldata/returndata are Python
lists of 8-bit terms (concrete offsets only), storage is one Array(BV256->BV256) per account, balances one
Array(BV160->BV256).  Symbolic branches fork with un-timed (generously capped) solver calls.
Abstractions A1-A6 are described in DESIGN.md §0.1.
"""

from __future__ import annotations

import copy
from dataclasses import dataclass, field

import z3
from eth_hash.auto import keccak as _keccak

W = 256
MAX_MEM = 1 << 20
MAX_ETH = 1 << 128
HEVM_ADDR = 0x7109709ECFA91A80626FF3989D68F67F5B1DD12D
SVM_ADDR = 0xF3993A62377BCD56AE39D773740A5390411E8BC9
CONSOLE_ADDR = 0x000000000000000000636F6E736F6C652E6C6F67


def bv(v, n=W):
    return z3.BitVecVal(v, n)


def simp(t):
    return z3.simplify(t)


def conc(t):
    """int value if the term is a constant after simplification else None"""
    t = z3.simplify(t)
    return t.as_long() if z3.is_bv_value(t) else None


def b2w(c):
    return z3.If(c, bv(1), bv(0))


def concat_bytes(bs):
    if len(bs) == 1:
        return bs[0]
    return z3.Concat(*bs)


def word_bytes(w):
    """256-bit term -> 32 byte terms, big endian"""
    c = conc(w)
    if c is not None:
        return [bv(b, 8) for b in c.to_bytes(32, "big")]
    return [simp(z3.Extract(255 - 8 * i, 248 - 8 * i, w)) for i in range(32)]


def bytes_word(bs):
    assert len(bs) == 32
    return simp(concat_bytes(bs))


def sha3_fn(nbits):
    return z3.Function(f"f_sha3_{nbits}", z3.BitVecSort(nbits), z3.BitVecSort(256))


def valid_jumpdests(code: bytes) -> set:
    out, pc = set(), 0
    while pc < len(code):
        op = code[pc]
        if op == 0x5B:
            out.add(pc)
        pc += 1 + (op - 0x5F if 0x60 <= op <= 0x7F else 0)
    return out


class Unsupported(Exception):
    """the reference cannot follow this path (symbolic offset, unmodelled precompile, ...)"""


class Halt(Exception):
    def __init__(self, kind, data=None):
        self.kind, self.data = kind, data or []


@dataclass
class Account:
    code: bytes = b""
    storage: object = None
    tstorage: object = None


@dataclass
class Frame:
    code: bytes
    address: int  # account whose storage/balance context this frame runs in
    caller: object  # 256-bit term
    value: object
    calldata: list
    static: bool
    depth: int
    kind: str = "CALL"
    pc: int = 0
    stack: list = field(default_factory=list)
    mem: list = field(default_factory=list)
    retdata: list = field(default_factory=list)
    snapshot: object = None
    ret_loc: int = 0
    ret_size: int = 0
    jumpdests: set = None
    logs: list = field(default_factory=list)
    create_addr: object = None


@dataclass
class State:
    accounts: dict
    balance: object
    frames: list
    rc: list = field(default_factory=list)  # branch conditions
    assumptions: list = field(default_factory=list)  # A2/A4 instances
    gas_cnt: int = 0
    steps: int = 0
    taint: list = field(default_factory=list)
    logs: list = field(default_factory=list)
    created: list = field(default_factory=list)
    hashes: list = field(default_factory=list)
    env: dict = field(default_factory=dict)
    origin: object = None
    prank: object = None
    visits: dict = field(default_factory=dict)
    pending: object = None

    def fork(self):
        s = State(
            accounts={a: Account(acc.code, acc.storage, acc.tstorage) for a, acc in self.accounts.items()},
            balance=self.balance,
            frames=[_copy_frame(f) for f in self.frames],
            rc=list(self.rc), assumptions=list(self.assumptions), gas_cnt=self.gas_cnt, steps=self.steps,
            taint=list(self.taint), logs=list(self.logs), created=list(self.created), hashes=list(self.hashes),
            env=dict(self.env), origin=self.origin, prank=copy.deepcopy(self.prank), visits=dict(self.visits),
        )
        return s


def _copy_frame(f: Frame) -> Frame:
    g = copy.copy(f)
    g.stack = list(f.stack)
    g.mem = list(f.mem)
    g.retdata = list(f.retdata)
    g.logs = list(f.logs)
    return g


@dataclass
class End:
    kind: str  # 'return' | 'stop' | 'revert' | 'exceptional:<why>' | 'unsupported:<why>'
    data: list
    rc: list
    assumptions: list
    state: State
    taint: list

    @property
    def success(self):
        return self.kind in ("return", "stop")


class RefEVM:
    def __init__(self, block=None, solver_timeout_ms=20000, max_steps=3000, loop_bound=None, max_paths=64):
        self.block = block or {}
        self.timeout = solver_timeout_ms
        self.max_steps = max_steps
        self.max_paths = max_paths
        self.loop_bound = loop_bound
        self.solver_calls = 0
        self.cheat = None  # optional cheatcode handler (lib/foundry_spec.py)

    # ---- solver ------------------------------------------------------------
    def feasible(self, st: State, cond) -> str:
        s = z3.Solver()
        s.set("timeout", self.timeout)
        for c in st.rc + st.assumptions:
            s.add(c)
        s.add(cond)
        self.solver_calls += 1
        r = s.check()
        return str(r)

    # ---- entry -------------------------------------------------------------
    def run_tx(self, accounts: dict, balance, target: int, caller, origin, value, calldata: list, static=False,
               pre_rc=None, transfer=False, env=None):
        accts = {a: Account(acc.code, acc.storage, acc.tstorage) for a, acc in accounts.items()}
        f = Frame(code=accts[target].code, address=target, caller=caller, value=value, calldata=list(calldata),
                  static=static, depth=1)
        f.jumpdests = valid_jumpdests(f.code)
        st = State(accounts=accts, balance=balance, frames=[f], rc=list(pre_rc or []), origin=origin, env=dict(env or {}))
        if transfer:
            # the transaction's own value transfer: the sender must afford it (otherwise the transaction is invalid)
            s160, v = self.addr160(caller), simp(value)
            if conc(v) != 0:
                bal = self.balance_read(st, s160)
                st.rc.append(simp(z3.UGE(bal, v)))
                f.snapshot_tx = self.snapshot(st)
                self.transfer(st, s160, bv(target, 160), v)
        return self.explore(st)

    def explore(self, st0: State):
        ends, work = [], [st0]
        self.extra_ends = []
        while work:
            st = work.pop()
            try:
                while True:
                    r = self.step(st, work)
                    if r is not None:
                        ends.append(r)
                        break
            except Unsupported as e:
                ends.append(End(f"unsupported:{e}", [], st.rc, st.assumptions, st, st.taint))
            if len(ends) + len(work) > self.max_paths:
                raise Unsupported("path explosion in reference")
        return [e for e in ends if e.kind != "dropped"] + self.extra_ends

    # ---- helpers -----------------------------------------------------------
    def _int(self, t, what):
        c = conc(t)
        if c is None:
            raise Unsupported(f"symbolic {what}")
        return c

    def _mem_extend(self, f: Frame, end: int):
        if end > MAX_MEM:
            raise Halt("exceptional:oog-memory")
        # EVM memory grows in 32-byte words
        end = (end + 31) // 32 * 32
        if len(f.mem) < end:
            f.mem.extend([bv(0, 8)] * (end - len(f.mem)))

    def mread(self, f: Frame, off: int, size: int):
        if size == 0:
            return []
        if off + size > MAX_MEM:
            raise Halt("exceptional:oog-memory")
        self._mem_extend(f, off + size)
        return f.mem[off:off + size]

    def mwrite(self, f: Frame, off: int, data: list):
        if not data:
            return
        if off + len(data) > MAX_MEM:
            raise Halt("exceptional:oog-memory")
        self._mem_extend(f, off + len(data))
        f.mem[off:off + len(data)] = data

    @staticmethod
    def padded(src: list, off: int, size: int):
        out = src[off:off + size] if off < len(src) else []
        return out + [bv(0, 8)] * (size - len(out))

    def keccak(self, st: State, data: list):
        if not data:
            return bv(int.from_bytes(_keccak(b""), "big"))
        vals = [conc(b) for b in data]
        if all(v is not None for v in vals):
            h = int.from_bytes(_keccak(bytes(vals)), "big")
            st.hashes.append((bytes(vals), h))
            return bv(h)
        term = sha3_fn(8 * len(data))(simp(concat_bytes(data)))
        st.hashes.append(term)
        return term

    @staticmethod
    def a2_instances(hashes, known_preimages=()):
        """A2 instantiated on the hash terms of a path: every symbolic image is non-zero, within
        [2^64, 2^256-2^64], and any two images (symbolic or concrete) either have equal preimages or lie at
        least 2^64 apart (so `hash + small offset` locations of different preimages never meet)."""
        GAP = bv(1 << 64)
        sym, con_ = [], {}
        for h in hashes:
            if isinstance(h, tuple):
                con_[h[0]] = h[1]
            elif not any(h.eq(x) for x in sym):
                sym.append(h)
        for b in known_preimages:
            con_[bytes(b)] = int.from_bytes(_keccak(bytes(b)), "big")
        out = []

        def gap(a, b):
            return z3.And(z3.UGE(a - b, GAP), z3.UGE(b - a, GAP))

        for i, h in enumerate(sym):
            d = h.arg(0)
            out += [h != bv(0), z3.ULE(h, bv((1 << 256) - (1 << 64))), z3.UGE(h, GAP)]
            for g in sym[i + 1:]:
                e = g.arg(0)
                out.append(z3.Or(d == e, gap(h, g)) if d.size() == e.size() else gap(h, g))
            for b, v in con_.items():
                if 8 * len(b) == d.size():
                    out.append(z3.Or(d == bv(int.from_bytes(b, "big"), d.size()), gap(h, bv(v))))
                else:
                    out.append(gap(h, bv(v)))
        return out

    def balance_read(self, st: State, addr160):
        v = simp(z3.Select(st.balance, addr160))
        st.assumptions.append(z3.ULE(v, bv(MAX_ETH)))
        return v

    def addr160(self, w):
        return simp(z3.Extract(159, 0, w))

    # ---- one step ----------------------------------------------------------
    def step(self, st: State, work: list):
        f = st.frames[-1]
        st.steps += 1
        if st.steps > self.max_steps:
            raise Unsupported("step limit in reference")
        try:
            if st.pending is not None:
                e, st.pending = st.pending, None
                raise e
            return self._exec(st, f, work)
        except Halt as h:
            if h.kind == "assume-false":  # vm.assume(false) / no continuation: the path is dropped
                return End("dropped", [], st.rc, st.assumptions, st, st.taint)
            return self.frame_end(st, h.kind, h.data, work)

    def _pop(self, f: Frame, n=1):
        if len(f.stack) < n:
            raise Halt("exceptional:stack-underflow")
        out = [f.stack.pop() for _ in range(n)]
        return out[0] if n == 1 else out

    def _push(self, f: Frame, v):
        if len(f.stack) >= 1024:
            raise Halt("exceptional:stack-overflow")
        f.stack.append(simp(v))

    def _exec(self, st: State, f: Frame, work):
        from lib.evmspec import zspec

        code = f.code
        op = code[f.pc] if f.pc < len(code) else 0x00
        pop, push = (lambda n=1: self._pop(f, n)), (lambda v: self._push(f, v))
        nxt = f.pc + 1

        def binop(name):
            a, b = pop(2)
            push(zspec(name, a, b))

        if 0x60 <= op <= 0x7F:
            n = op - 0x5F
            raw = code[f.pc + 1:f.pc + 1 + n]
            raw = raw + b"\x00" * (n - len(raw))
            push(bv(int.from_bytes(raw, "big")))
            nxt = f.pc + 1 + n
        elif op == 0x5F:
            push(bv(0))
        elif 0x80 <= op <= 0x8F:
            n = op - 0x7F
            if len(f.stack) < n:
                raise Halt("exceptional:stack-underflow")
            push(f.stack[-n])
        elif 0x90 <= op <= 0x9F:
            n = op - 0x8F
            if len(f.stack) < n + 1:
                raise Halt("exceptional:stack-underflow")
            f.stack[-1], f.stack[-n - 1] = f.stack[-n - 1], f.stack[-1]
        elif op == 0x00:
            raise Halt("stop")
        elif op in (0x01, 0x02, 0x03, 0x04, 0x05, 0x06, 0x07, 0x0B, 0x10, 0x11, 0x12, 0x13, 0x14, 0x16, 0x17, 0x18,
                    0x1A, 0x1B, 0x1C, 0x1D):
            binop({0x01: "ADD", 0x02: "MUL", 0x03: "SUB", 0x04: "DIV", 0x05: "SDIV", 0x06: "MOD", 0x07: "SMOD",
                   0x0B: "SIGNEXTEND", 0x10: "LT", 0x11: "GT", 0x12: "SLT", 0x13: "SGT", 0x14: "EQ", 0x16: "AND",
                   0x17: "OR", 0x18: "XOR", 0x1A: "BYTE", 0x1B: "SHL", 0x1C: "SHR", 0x1D: "SAR"}[op])
        elif op in (0x08, 0x09):
            a, b, c = pop(3)
            push(zspec("ADDMOD" if op == 0x08 else "MULMOD", a, b, c))
        elif op == 0x0A:
            a, b = pop(2)
            ca, cb = conc(a), conc(b)
            if ca is not None and cb is not None:
                push(bv(pow(ca, cb, 1 << 256)))
            elif cb is not None and cb <= 8:
                r = bv(1)
                for _ in range(cb):
                    r = r * a
                push(r)
            else:
                fexp = z3.Function("f_evm_exp_256", z3.BitVecSort(256), z3.BitVecSort(256), z3.BitVecSort(256))
                push(fexp(a, b))
        elif op == 0x15:
            push(zspec("ISZERO", pop()))
        elif op == 0x19:
            push(zspec("NOT", pop()))
        elif op == 0x20:
            off, size = pop(2)
            off, size = self._int(off, "SHA3 offset"), self._int(size, "SHA3 size")
            push(self.keccak(st, self.mread(f, off, size)))
        elif op == 0x30:
            push(bv(f.address))
        elif op == 0x31:
            push(self.balance_read(st, self.addr160(pop())))
        elif op == 0x32:
            push(st.origin)
        elif op == 0x33:
            push(f.caller)
        elif op == 0x34:
            push(f.value)
        elif op == 0x35:
            off = self._int(pop(), "CALLDATALOAD offset")
            push(bytes_word(self.padded(f.calldata, off, 32)))
        elif op == 0x36:
            push(bv(len(f.calldata)))
        elif op == 0x37:
            d, o, n = pop(3)
            d, o, n = self._int(d, "CALLDATACOPY dst"), self._int(o, "CALLDATACOPY off"), self._int(n, "CALLDATACOPY size")
            if n > MAX_MEM:
                raise Halt("exceptional:oog-memory")
            self.mwrite(f, d, self.padded(f.calldata, o, n))
        elif op == 0x38:
            push(bv(len(code)))
        elif op == 0x39:
            d, o, n = pop(3)
            d, n = self._int(d, "CODECOPY dst"), self._int(n, "CODECOPY size")
            o = self._int(o, "CODECOPY off")
            if n > MAX_MEM:
                raise Halt("exceptional:oog-memory")
            self.mwrite(f, d, self.padded([bv(b, 8) for b in code], o, n))
        elif op == 0x3A:
            push(z3.Function("f_gasprice", z3.BitVecSort(256))())
        elif op == 0x3B:
            a = self._int(pop(), "EXTCODESIZE address") & ((1 << 160) - 1)
            if a in (HEVM_ADDR, SVM_ADDR):
                push(bv(1))
            else:
                push(bv(len(st.accounts[a].code) if a in st.accounts else 0))
        elif op == 0x3C:
            a, d, o, n = pop(4)
            a = self._int(a, "EXTCODECOPY address") & ((1 << 160) - 1)
            d, o, n = self._int(d, "dst"), self._int(o, "off"), self._int(n, "size")
            src = st.accounts[a].code if a in st.accounts else b""
            if n > MAX_MEM:
                raise Halt("exceptional:oog-memory")
            self.mwrite(f, d, self.padded([bv(b, 8) for b in src], o, n))
        elif op == 0x3D:
            push(bv(len(f.retdata)))
        elif op == 0x3E:
            d, o, n = pop(3)
            d, o, n = self._int(d, "RETURNDATACOPY dst"), self._int(o, "off"), self._int(n, "size")
            if o + n > len(f.retdata):
                raise Halt("exceptional:returndata-oob")
            self.mwrite(f, d, f.retdata[o:o + n])
        elif op == 0x3F:
            a = self._int(pop(), "EXTCODEHASH address") & ((1 << 160) - 1)
            if a in st.accounts:
                push(bv(int.from_bytes(_keccak(st.accounts[a].code), "big")))
            else:
                raise Unsupported("EXTCODEHASH of non-contract account")
        elif op == 0x40:
            push(z3.Function("f_blockhash", z3.BitVecSort(256), z3.BitVecSort(256))(pop()))
        elif op == 0x41:
            push(st.env.get("coinbase", self.block["coinbase"]))
        elif op == 0x42:
            push(st.env.get("timestamp", self.block["timestamp"]))
        elif op == 0x43:
            push(st.env.get("number", self.block["number"]))
        elif op == 0x44:
            push(st.env.get("difficulty", self.block["difficulty"]))
        elif op == 0x45:
            push(st.env.get("gaslimit", self.block["gaslimit"]))
        elif op == 0x46:
            push(st.env.get("chainid", self.block["chainid"]))
        elif op == 0x47:
            push(self.balance_read(st, bv(f.address, 160)))
        elif op == 0x48:
            push(st.env.get("basefee", self.block["basefee"]))
        elif op == 0x50:
            pop()
        elif op == 0x51:
            off = self._int(pop(), "MLOAD offset")
            if off > MAX_MEM:
                raise Halt("exceptional:oog-memory")
            push(bytes_word(self.mread(f, off, 32)))
        elif op == 0x52:
            off, v = pop(2)
            off = self._int(off, "MSTORE offset")
            if off > MAX_MEM:
                raise Halt("exceptional:oog-memory")
            self.mwrite(f, off, word_bytes(v))
        elif op == 0x53:
            off, v = pop(2)
            off = self._int(off, "MSTORE8 offset")
            if off > MAX_MEM:
                raise Halt("exceptional:oog-memory")
            self.mwrite(f, off, [simp(z3.Extract(7, 0, v))])
        elif op == 0x54:
            k = pop()
            push(z3.Select(st.accounts[f.address].storage, k))
        elif op == 0x55:
            k, v = pop(2)
            if f.static:
                raise Halt("exceptional:static-write")
            acc = st.accounts[f.address]
            acc.storage = z3.Store(acc.storage, k, v)
        elif op == 0x5C:
            k = pop()
            push(z3.Select(st.accounts[f.address].tstorage, k))
        elif op == 0x5D:
            k, v = pop(2)
            if f.static:
                raise Halt("exceptional:static-write")
            acc = st.accounts[f.address]
            acc.tstorage = z3.Store(acc.tstorage, k, v)
        elif op == 0x56:
            dst = pop()
            c = conc(dst)
            if c is None:
                # symbolic target: one continuation per valid destination, plus the invalid-destination halt
                dst = simp(dst)
                rest = []
                for t in sorted(f.jumpdests):
                    ct = dst == bv(t)
                    rest.append(dst != bv(t))
                    if self.feasible(st, ct) != "unsat":
                        other = st.fork()
                        other.rc.append(ct)
                        of = other.frames[-1]
                        of.pc = t
                        work.append(other)
                inv = z3.And(*rest) if rest else z3.BoolVal(True)
                if self.feasible(st, inv) == "unsat":
                    raise Unsupported("infeasible path reached")  # dropped below by the caller's work list
                st.rc.append(inv)
                raise Halt("exceptional:bad-jumpdest")
            if c not in f.jumpdests:
                raise Halt("exceptional:bad-jumpdest")
            nxt = c
        elif op == 0x57:
            dst, cnd = pop(2)
            cond = simp(cnd != bv(0))
            if z3.is_true(cond):
                branches = [(True, None)]
            elif z3.is_false(cond):
                branches = [(False, None)]
            else:
                branches = []
                rt, rf = self.feasible(st, cond), self.feasible(st, z3.Not(cond))
                if rt != "unsat":
                    branches.append((True, cond))
                if rf != "unsat":
                    branches.append((False, simp(z3.Not(cond))))
                if "unknown" in (rt, rf):
                    st.taint.append("solver-unknown-at-jumpi")
                if not branches:
                    raise Unsupported("infeasible path reached")
                if self.loop_bound is not None:
                    key = (len(st.frames), f.address, f.pc)
                    st.visits[key] = st.visits.get(key, 0) + 1
                    if st.visits[key] > self.loop_bound:
                        raise Unsupported("reference loop bound")
            states = [st] + [st.fork() for _ in branches[1:]]
            tc = conc(dst)
            for s_, (take, c_) in zip(states, branches):
                f_ = s_.frames[-1]
                if c_ is not None:
                    s_.rc.append(c_)
                if take:
                    if tc is None:
                        s_.pending = Unsupported("symbolic JUMPI target")
                    elif tc not in f_.jumpdests:
                        s_.pending = Halt("exceptional:bad-jumpdest")
                    else:
                        f_.pc = tc
                else:
                    f_.pc = f_.pc + 1
            work.extend(states[1:])
            return None
        elif op == 0x58:
            push(bv(f.pc))
        elif op == 0x59:
            push(bv(len(f.mem)))
        elif op == 0x5A:
            st.gas_cnt += 1
            push(z3.Function("f_gas", z3.BitVecSort(256), z3.BitVecSort(256))(bv(st.gas_cnt)))
        elif op == 0x5B:
            pass
        elif op == 0x5E:
            d, s_, n = pop(3)
            d, s_, n = self._int(d, "MCOPY dst"), self._int(s_, "MCOPY src"), self._int(n, "MCOPY size")
            if n > MAX_MEM:
                raise Halt("exceptional:oog-memory")
            data = list(self.mread(f, s_, n))
            self.mwrite(f, d, data)
        elif 0xA0 <= op <= 0xA4:
            nt = op - 0xA0
            off, size = pop(2)
            topics = [pop() for _ in range(nt)]
            if f.static:
                raise Halt("exceptional:static-write")
            off, size = self._int(off, "LOG offset"), self._int(size, "LOG size")
            f.logs.append((f.address, topics, list(self.mread(f, off, size))))
        elif op in (0xF1, 0xF2, 0xF4, 0xFA):
            return self.do_call(st, f, op, work)
        elif op in (0xF0, 0xF5):
            return self.do_create(st, f, op, work)
        elif op == 0xF3:
            off, size = pop(2)
            off, size = self._int(off, "RETURN offset"), self._int(size, "RETURN size")
            raise Halt("return", list(self.mread(f, off, size)))
        elif op == 0xFD:
            off, size = pop(2)
            off, size = self._int(off, "REVERT offset"), self._int(size, "REVERT size")
            raise Halt("revert", list(self.mread(f, off, size)))
        elif op == 0xFE:
            raise Halt("exceptional:invalid")
        else:
            raise Halt(f"exceptional:undefined-opcode-{op:#x}")
        f.pc = nxt
        return None

    # ---- calls -------------------------------------------------------------
    def snapshot(self, st: State):
        return ({a: Account(acc.code, acc.storage, acc.tstorage) for a, acc in st.accounts.items()}, st.balance)

    def restore(self, st: State, snap):
        accts, bal = snap
        st.accounts = {a: Account(acc.code, acc.storage, acc.tstorage) for a, acc in accts.items()}
        st.balance = bal

    def transfer(self, st: State, frm160, to160, value):
        fb = self.balance_read(st, frm160)
        st.balance = z3.Store(st.balance, frm160, simp(fb - value))
        tb = self.balance_read(st, to160)
        st.balance = z3.Store(st.balance, to160, simp(tb + value))

    def do_call(self, st: State, f: Frame, op: int, work):
        pop = lambda n=1: self._pop(f, n)  # noqa: E731
        pop()  # gas
        to = pop()
        value = pop() if op in (0xF1, 0xF2) else bv(0)
        in_off, in_size, out_off, out_size = pop(4)
        in_off, in_size = self._int(in_off, "CALL in offset"), self._int(in_size, "CALL in size")
        out_off, out_size = self._int(out_off, "CALL out offset"), self._int(out_size, "CALL out size")
        args = list(self.mread(f, in_off, in_size))
        if out_size:
            self.mread(f, out_off, out_size)  # memory expansion
        value = simp(value)
        vz = conc(value)

        # write protection: CALL with non-zero value in a static frame
        if op == 0xF1 and f.static and vz != 0:
            if vz is None:
                c = simp(value != bv(0))
                rt, rf = self.feasible(st, c), self.feasible(st, z3.Not(c))
                if rt != "unsat" and rf != "unsat":
                    other = st.fork()
                    other.rc.append(c)
                    other.pending = Halt("exceptional:static-write")
                    work.append(other)
                    st.rc.append(simp(z3.Not(c)))
                    value, vz = bv(0), 0
                elif rt != "unsat":
                    raise Halt("exceptional:static-write")
                else:
                    value, vz = bv(0), 0
            else:
                raise Halt("exceptional:static-write")

        self_addr = bv(f.address, 160)
        # prank (cheatcode layer) may override the apparent sender
        sender_word, origin_override = bv(f.address), None
        to_c = conc(to)
        sym_to160 = None
        if to_c is None:
            # symbolic target: one continuation per known account (re-executing this call with the concrete address),
            # and this state continues for "any other address", which has no code.  Precompile / cheatcode addresses
            # are excluded by assumption (documented: symbolic targets are user accounts).
            to160 = self.addr160(to)
            rest = []
            for a in sorted(st.accounts):
                ca = to160 == bv(a, 160)
                rest.append(to160 != bv(a, 160))
                if self.feasible(st, ca) != "unsat":
                    other = st.fork()
                    other.rc.append(ca)
                    of = other.frames[-1]
                    # restore the operands of this call with a concrete target
                    vals = [bv(out_size), bv(out_off), bv(in_size), bv(in_off)]
                    if op in (0xF1, 0xF2):
                        vals.append(value)
                    vals += [bv(a), bv(0)]
                    of.stack.extend(vals)
                    work.append(other)
            st.rc.extend(rest)
            for sp in list(range(1, 11)) + [HEVM_ADDR, SVM_ADDR, CONSOLE_ADDR]:
                st.assumptions.append(to160 != bv(sp, 160))
            if self.feasible(st, z3.BoolVal(True)) == "unsat":
                raise Unsupported("infeasible path reached")
            sym_to160 = to160
            to_c = -1
        else:
            to_c &= (1 << 160) - 1
        is_cheat = to_c in (HEVM_ADDR, SVM_ADDR, CONSOLE_ADDR)
        if self.cheat is not None and not is_cheat:
            sender_word, origin_override = self.cheat.consume_prank(st, f, sender_word)
        sender160 = self.addr160(sender_word)

        # insufficient balance -> call fails, nothing else happens
        if op in (0xF1, 0xF2) and vz != 0:
            bal = self.balance_read(st, sender160)
            c = simp(z3.ULT(bal, value))
            if not z3.is_false(c):
                if z3.is_true(c):
                    f.retdata = []
                    self._push(f, bv(0))
                    f.pc += 1
                    return None
                rt, rf = self.feasible(st, c), self.feasible(st, z3.Not(c))
                if rt != "unsat":
                    if rf != "unsat":
                        other = st.fork()
                        other.rc.append(c)
                        of = other.frames[-1]
                        of.retdata = []
                        of.stack.append(bv(0))
                        of.pc += 1
                        work.append(other)
                        st.rc.append(simp(z3.Not(c)))
                    else:
                        st.rc.append(c)
                        f.retdata = []
                        self._push(f, bv(0))
                        f.pc += 1
                        return None
                else:
                    st.rc.append(simp(z3.Not(c)))

        snap = self.snapshot(st)
        if op == 0xF1 and vz != 0:
            self.transfer(st, sender160, sym_to160 if sym_to160 is not None else bv(to_c, 160), value)

        # cheatcodes
        if is_cheat:
            if self.cheat is None:
                raise Unsupported("cheatcode call without a cheatcode spec")
            return self.cheat.handle(self, st, f, to_c, args, out_off, out_size, work)

        if 1 <= to_c <= 10:
            if to_c == 4:
                out = args
            else:
                raise Unsupported(f"precompile {to_c}")
            f.retdata = list(out)
            self.mwrite(f, out_off, out[:out_size])
            self._push(f, bv(1))
            f.pc += 1
            return None

        callee = st.accounts.get(to_c)
        if callee is None or len(callee.code) == 0:
            f.retdata = []
            self._push(f, bv(1))
            f.pc += 1
            return None

        if op == 0xF1:
            nf = Frame(code=callee.code, address=to_c, caller=sender_word, value=value, calldata=args,
                       static=f.static, depth=f.depth + 1, kind="CALL")
        elif op == 0xFA:
            nf = Frame(code=callee.code, address=to_c, caller=sender_word, value=bv(0), calldata=args,
                       static=True, depth=f.depth + 1, kind="STATICCALL")
        elif op == 0xF2:
            nf = Frame(code=callee.code, address=f.address, caller=sender_word, value=value, calldata=args,
                       static=f.static, depth=f.depth + 1, kind="CALLCODE")
        else:
            nf = Frame(code=callee.code, address=f.address, caller=f.caller, value=f.value, calldata=args,
                       static=f.static, depth=f.depth + 1, kind="DELEGATECALL")
        nf.jumpdests = valid_jumpdests(nf.code)
        nf.snapshot = snap
        nf.ret_loc, nf.ret_size = out_off, out_size
        if origin_override is not None:
            nf.origin_saved = st.origin
            st.origin = origin_override
        st.frames.append(nf)
        return None

    def do_create(self, st: State, f: Frame, op: int, work):
        pop = lambda n=1: self._pop(f, n)  # noqa: E731
        value, off, size = pop(3)
        salt = pop() if op == 0xF5 else None
        if f.static:
            raise Halt("exceptional:static-write")
        off, size = self._int(off, "CREATE offset"), self._int(size, "CREATE size")
        init = list(self.mread(f, off, size))
        initc = [conc(b) for b in init]
        if any(b is None for b in initc):
            raise Unsupported("symbolic init code")
        value = simp(value)
        vz = conc(value)
        sender_word, origin_override = bv(f.address), None
        if self.cheat is not None:
            sender_word, origin_override = self.cheat.consume_prank(st, f, sender_word)
        sender160 = self.addr160(sender_word)
        if vz != 0:
            bal = self.balance_read(st, sender160)
            c = simp(z3.ULT(bal, value))
            if not z3.is_false(c):
                if z3.is_true(c):
                    f.retdata = []
                    self._push(f, bv(0))
                    f.pc += 1
                    return None
                rt, rf = self.feasible(st, c), self.feasible(st, z3.Not(c))
                if rt != "unsat":
                    if rf != "unsat":
                        other = st.fork()
                        other.rc.append(c)
                        of = other.frames[-1]
                        of.retdata = []
                        of.stack.append(bv(0))
                        of.pc += 1
                        work.append(other)
                        st.rc.append(simp(z3.Not(c)))
                    else:
                        st.rc.append(c)
                        f.retdata = []
                        self._push(f, bv(0))
                        f.pc += 1
                        return None
                else:
                    st.rc.append(simp(z3.Not(c)))
        # A5: opaque fresh address, supplied by the harness' address oracle
        k = len(st.created)
        new_addr = self.new_address(st, k, op, sender160, salt, bytes(initc))
        st.created.append(new_addr)
        snap = self.snapshot(st)
        if new_addr in st.accounts:
            f.retdata = []
            self._push(f, bv(0))
            f.pc += 1
            return None
        st.accounts[new_addr] = Account(b"", z3.K(z3.BitVecSort(256), bv(0)), z3.K(z3.BitVecSort(256), bv(0)))
        if vz != 0:
            self.transfer(st, sender160, bv(new_addr, 160), value)
        nf = Frame(code=bytes(initc), address=new_addr, caller=sender_word, value=value, calldata=[],
                   static=False, depth=f.depth + 1, kind="CREATE")
        nf.jumpdests = valid_jumpdests(nf.code)
        nf.snapshot = snap
        nf.create_addr = new_addr
        if origin_override is not None:
            nf.origin_saved = st.origin
            st.origin = origin_override
        st.frames.append(nf)
        return None

    def new_address(self, st, k, op, sender160, salt, init: bytes) -> int:
        oracle = st.env.get("address_oracle")
        if oracle is None or k >= len(oracle):
            raise Unsupported("no address oracle entry for CREATE")
        addr = oracle[k]
        if op == 0xF5:
            # CREATE2 (EIP-1014): the address is a function of (sender, salt, init code) and injective in practice.  The
            # engine's address is taken as an opaque name (A5), but WHICH creations share a name is decided here: equal
            # parameters -> the same address, different parameters -> different addresses
            sc, sl = conc(simp(sender160)), conc(simp(salt))
            if sc is not None and sl is not None:
                reg = st.env.setdefault("create2_names", {})
                key = (sc, sl, bytes(init))
                if key in reg:
                    return reg[key]
                if addr in reg.values():
                    addr = 0xCCCC0000 + k  # the engine re-used a name for different parameters: they do not collide
                reg[key] = addr
        return addr

    # ---- frame end ---------------------------------------------------------
    def frame_end(self, st: State, kind: str, data: list, work):
        f = st.frames.pop()
        if hasattr(f, "origin_saved"):
            st.origin = f.origin_saved
        if not st.frames:
            if kind in ("return", "stop"):
                st.logs.extend(f.logs)
            if st.hashes:
                st.assumptions = list(st.assumptions) + self.a2_instances(st.hashes, st.env.get("known_preimages", ()))
            return End(kind, data if kind in ("return", "revert") else [], st.rc, st.assumptions, st, st.taint)
        p = st.frames[-1]
        success = kind in ("return", "stop")
        if f.kind == "CREATE":
            if success:
                codeb = [conc(b) for b in data]
                if any(b is None for b in codeb):
                    raise Unsupported("symbolic deployed code")
                st.accounts[f.create_addr].code = bytes(codeb)
                p.retdata = []
                p.logs.extend(f.logs)
                self._push(p, bv(f.create_addr))
            else:
                self.restore(st, f.snapshot)
                p.retdata = list(data) if kind == "revert" else []
                self._push(p, bv(0))
            p.pc += 1
            return None
        if success:
            p.retdata = list(data)
            p.logs.extend(f.logs)
            self._push(p, bv(1))
        else:
            self.restore(st, f.snapshot)
            p.retdata = list(data) if kind == "revert" else []
            self._push(p, bv(0))
        n = min(f.ret_size, len(p.retdata))
        try:
            self.mwrite(p, f.ret_loc, p.retdata[:n])
        except Halt as h:
            return self.frame_end(st, h.kind, h.data, work)
        p.pc += 1
        return None


def empty_storage():
    return z3.K(z3.BitVecSort(256), bv(0))
