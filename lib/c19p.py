"""C19 route P: the reference decoder (written from the Yellow Paper, §9.4.3 and appendix H) and the check functions that
the generated CrossHair conditions call.  This module is imported both by CrossHair (overlay venv, symbolic `bytes`/`int`
arguments) and by /venv/bin/python (concrete replay of every counterexample); it touches only the bytes-only paths of
halmos.contract (no z3 term is ever built: all code is concrete `bytes`).

Yellow Paper: the set of valid jump destinations D(c) is D_J(c, 0) where
    D_J(c, i) = {}                          if i >= |c|
              = {i} u D_J(c, N(i, c[i]))    if c[i] = JUMPDEST
              = D_J(c, N(i, c[i]))          otherwise
    N(i, w)   = i + w - PUSH1 + 2           if w in [PUSH1, PUSH32]
              = i + 1                       otherwise
The instruction to execute is c[pc] if pc < |c| and STOP otherwise; PUSHn pushes the n bytes following the opcode, bytes
beyond the end of the code read as zero (c[x] = 0 for x >= |c|), the most significant byte first.
"""

from __future__ import annotations

from halmos.bytevec import ByteVec
from halmos.contract import Contract, Instruction

JUMPDEST, PUSH1, PUSH32, STOP = 0x5B, 0x60, 0x7F, 0x00


# --------------------------------------------------------------------------- reference
def ref_next(i: int, w: int) -> int:
    if PUSH1 <= w <= PUSH32:
        return i + w - PUSH1 + 2
    return i + 1


def ref_jumpdests(c: bytes) -> set:
    out = set()
    i = 0
    while i < len(c):
        w = c[i]
        if w == JUMPDEST:
            out.add(i)
        i = ref_next(i, w)
    return out


def ref_byte(c: bytes, x: int) -> int:
    return c[x] if x < len(c) else 0


def ref_read(c: bytes, start: int, size: int) -> bytes:
    got = c[start:start + size]
    return got + bytes(size - len(got))


def ref_decode(c: bytes, pc: int):
    """-> (opcode, operand | None, next pc | None); next pc None marks the implicit STOP beyond the end"""
    if pc >= len(c):
        return STOP, None, None
    w = c[pc]
    if PUSH1 <= w <= PUSH32:
        n = w - PUSH1 + 1
        return w, int.from_bytes(ref_read(c, pc + 1, n), "big"), pc + 1 + n
    return w, None, pc + 1


# --------------------------------------------------------------------------- checks (True = agrees with the EVM)
def insn_ok(insn, c: bytes, pc: int) -> bool:
    w, operand, nxt = ref_decode(c, pc)
    if nxt is None:
        return insn.opcode == STOP and insn.operand is None
    if insn.opcode != w or insn.next_pc != nxt or insn.pc != pc:
        return False
    if operand is None:
        return insn.operand is None
    o = insn.operand
    return o is not None and o.size == 256 and o.is_concrete and o.value == operand


def chk_jd(c: bytes) -> bool:
    return Contract(c).valid_jumpdests() == ref_jumpdests(c)


def chk_dec(c: bytes, pc: int) -> bool:
    return insn_ok(Contract(c).decode_instruction(pc), c, pc)


def chk_cache(c: bytes, pc: int) -> bool:
    """one Contract object: jump destinations, the same pc decoded twice (instruction cache), jump destinations again"""
    k = Contract(c)
    want = ref_jumpdests(c)
    if k.valid_jumpdests() != want:
        return False
    i1 = k.decode_instruction(pc)
    i2 = k.decode_instruction(pc)
    return i1 is i2 and insn_ok(i1, c, pc) and k.valid_jumpdests() == want and len(k) == len(c)


def chk_chain(c: bytes) -> bool:
    """following next_pc from 0 visits exactly the instruction boundaries of the reference and ends at the implicit STOP"""
    k = Contract(c)
    pc, bound = 0, []
    while pc < len(c):
        bound.append(pc)
        pc = k.next_pc(pc)
    i, want = 0, []
    while i < len(c):
        want.append(i)
        i = ref_next(i, c[i])
    return bound == want and pc == i and k.decode_instruction(pc).opcode == STOP


def chk_getitem(c: bytes, x: int) -> bool:
    return Contract(c)[x] == ref_byte(c, x)


def _as_bytes(v) -> bytes:
    u = v.unwrap()
    return u if isinstance(u, bytes) else None


def chk_slice(c: bytes, start: int, size: int) -> bool:
    got = Contract(c).slice(start, size)
    return len(got) == size and _as_bytes(got) == ref_read(c, start, size)


def chk_slice2(c: bytes, d: bytes, start: int, size: int) -> bool:
    """code held in two concrete chunks (fast path covers the first one only)"""
    k = Contract(ByteVec([c, d]))
    got = k.slice(start, size)
    return len(got) == size and _as_bytes(got) == ref_read(c + d, start, size)


def chk_two_jd(c: bytes, d: bytes) -> bool:
    """jump destinations when the concrete prefix chunk is followed by a second concrete chunk: the fast path ends at
    len(c) although the code continues (a PUSH may straddle the chunk border)"""
    k = Contract(ByteVec([c, d]))
    return k.valid_jumpdests() == ref_jumpdests(c + d) and len(k) == len(c) + len(d)


def chk_two_dec(c: bytes, d: bytes, pc: int) -> bool:
    k = Contract(ByteVec([c, d]))
    whole = c + d
    return insn_ok(k.decode_instruction(pc), whole, pc) and k[pc] == ref_byte(whole, pc)


def mk_push(pre: bytes, op: int, data: bytes) -> bytes:
    return pre + bytes([op]) + data


def chk_push(pre: bytes, op: int, data: bytes) -> bool:
    """[prefix] [PUSHn] [data, possibly shorter than n (truncated) or longer (trailing bytes)]"""
    c = mk_push(pre, op, data)
    k = Contract(c)
    pc = len(pre)
    n = op - PUSH1 + 1
    return (insn_ok(k.decode_instruction(pc), c, pc) and insn_ok(k.decode_instruction(pc + 1 + n), c, pc + 1 + n)
            and insn_ok(k.decode_instruction(len(c)), c, len(c)) and k.valid_jumpdests() == ref_jumpdests(c))


def chk_push_jd(pre: bytes, op: int, data: bytes) -> bool:
    c = mk_push(pre, op, data)
    return Contract(c).valid_jumpdests() == ref_jumpdests(c)


def chk_push_dec(pre: bytes, op: int, data: bytes) -> bool:
    c = mk_push(pre, op, data)
    pc = len(pre)
    return insn_ok(Contract(c).decode_instruction(pc), c, pc)


# --------------------------------------------------------------------------- feature predicates for reachability twins
def feat_jd(c: bytes) -> bool:
    """a JUMPDEST byte inside PUSH data next to a genuine one"""
    jd = ref_jumpdests(c)
    return len(jd) >= 1 and c.count(JUMPDEST) > len(jd)


def feat_dec(c: bytes, pc: int) -> bool:
    """a PUSH whose operand is cut by the end of the code"""
    w, operand, nxt = ref_decode(c, pc)
    return nxt is not None and nxt > len(c) and operand is not None and operand > 0


def feat_pushjd(pre: bytes, op: int, data: bytes) -> bool:
    """complete PUSH whose data holds a JUMPDEST byte, followed by a genuine JUMPDEST, after a genuine JUMPDEST"""
    n = op - PUSH1 + 1
    return len(data) == n + 1 and data[n] == JUMPDEST and data[0] == JUMPDEST and pre == bytes([JUMPDEST]) and n > 8


def feat_push(pre: bytes, op: int, data: bytes) -> bool:
    n = op - PUSH1 + 1
    return 0 < len(data) < n and data[0] != 0


# --------------------------------------------------------------------------- concrete replay (under /venv/bin/python)
def observe(family: str, args: tuple, body: str = "") -> dict:
    """what the real code and the reference say on a concrete witness (`body` carries a pc baked into the condition)"""
    import re

    out = {"family": family, "args": [a.hex() if isinstance(a, bytes) else a for a in args]}
    m = re.search(r", (\d+)\)$", body or "")
    baked = int(m.group(1)) if m else None

    def insn(k, pc):
        try:
            i = k.decode_instruction(pc)
            return {"opcode": i.opcode, "next_pc": i.next_pc, "pc": i.pc,
                    "operand": None if i.operand is None else hex(i.operand.value)}
        except Exception as e:  # noqa: BLE001
            return f"{type(e).__name__}: {e}"

    def refinsn(c, pc):
        w, operand, nxt = ref_decode(c, pc)
        return {"opcode": w, "next_pc": nxt, "operand": None if operand is None else hex(operand)}

    def jd(k):
        try:
            return sorted(k.valid_jumpdests())
        except Exception as e:  # noqa: BLE001
            return f"{type(e).__name__}: {e}"

    try:
        if family in ("jd", "chain", "cache", "dec"):
            c = args[0]
            k = Contract(c)
            out["halmos_jumpdests"], out["evm_jumpdests"] = jd(k), sorted(ref_jumpdests(c))
            pcs = range(len(c) + 2) if baked is None else [baked]
            out["halmos_insns"] = {pc: insn(k, pc) for pc in pcs}
            out["evm_insns"] = {pc: refinsn(c, pc) for pc in pcs}
        elif family == "getitem":
            c, x = args
            out["halmos"], out["evm"] = Contract(c)[x], ref_byte(c, x)
        elif family == "slice":
            c, start, size = args
            out["halmos"], out["evm"] = str(Contract(c).slice(start, size).unwrap()), str(ref_read(c, start, size))
        elif family == "slice2":
            c, d, start, size = args
            out["halmos"] = str(Contract(ByteVec([c, d])).slice(start, size).unwrap())
            out["evm"] = str(ref_read(c + d, start, size))
        elif family == "two":
            c, d = args
            k = Contract(ByteVec([c, d]))
            out["halmos_jumpdests"], out["evm_jumpdests"] = jd(k), sorted(ref_jumpdests(c + d))
            pcs = range(len(c + d) + 2) if baked is None else [baked]
            out["halmos_insns"] = {pc: insn(k, pc) for pc in pcs}
            out["evm_insns"] = {pc: refinsn(c + d, pc) for pc in pcs}
        elif family.startswith("push"):
            pre, op, data = args
            c = mk_push(pre, op, data)
            k = Contract(c)
            out["code"] = c.hex()
            out["halmos_jumpdests"], out["evm_jumpdests"] = jd(k), sorted(ref_jumpdests(c))
            pcs = [len(pre), len(pre) + op - PUSH1 + 2, len(c)]
            out["halmos_insns"] = {pc: insn(k, pc) for pc in pcs}
            out["evm_insns"] = {pc: refinsn(c, pc) for pc in pcs}
    except Exception as e:  # noqa: BLE001
        out["exception"] = f"{type(e).__name__}: {e}"
    return out
