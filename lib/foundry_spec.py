"""Foundry cheatcode specification for the reference EVM (lib/refevm.py), written from forge-std's documented
behaviour (Vm.sol natspec), not from halmos:

  prank(a) / prank(a,o)            next call or creation made by the pranking frame has msg.sender a (tx.origin o for its
                                   duration); one-shot; cheatcode calls do not consume it
  startPrank(a) / startPrank(a,o)  same for every call/creation of that frame until stopPrank()
  stopPrank()
  deal(a, v)                       balance[a] := v
  store(a, slot, v) / load(a, slot)
  etch(a, code)                    (concrete code only)
  warp/roll/fee/chainId/coinbase/difficulty|prevrandao
  assume(c)                        restrict the path to c
  assertTrue/False, assertEq/NotEq (bool,uint256,int256,address,bytes32), assertLt/Gt/Le/Ge (uint256,int256)
                                   word-typed variants without message: a failure ends the test ("fail" end)
  store(HEVM, "failed", 1)         legacy DSTest failure flag

Prank state is per frame (Frame.prank); nested frames and later transactions never see it.
"""

from __future__ import annotations

import z3
from eth_hash.auto import keccak

from lib import refevm
from lib.refevm import End, Halt, Unsupported, bv, conc, simp

HEVM = refevm.HEVM_ADDR
FAILED_SLOT = int.from_bytes(b"failed".ljust(32, b"\0"), "big")


def sel(sig: str) -> int:
    return int.from_bytes(keccak(sig.encode())[:4], "big")


def _s(x):
    return x  # readability marker for signed interpretation


WORD_T = ["bool", "uint256", "int256", "address", "bytes32"]
ASSERTS = {}
for t in WORD_T:
    ASSERTS[sel(f"assertEq({t},{t})")] = ("eq", t)
    ASSERTS[sel(f"assertNotEq({t},{t})")] = ("ne", t)
for t in ("uint256", "int256"):
    for nm, op in (("Lt", "lt"), ("Gt", "gt"), ("Le", "le"), ("Ge", "ge")):
        ASSERTS[sel(f"assert{nm}({t},{t})")] = (op, t)
ASSERTS[sel("assertTrue(bool)")] = ("true", "bool")
ASSERTS[sel("assertFalse(bool)")] = ("false", "bool")


def relation(op, t, a, b=None):
    signed = t == "int256"
    if op == "true":
        return a != bv(0)
    if op == "false":
        return a == bv(0)
    if op == "eq":
        return a == b
    if op == "ne":
        return a != b
    if op == "lt":
        return (a < b) if signed else z3.ULT(a, b)
    if op == "gt":
        return (a > b) if signed else z3.UGT(a, b)
    if op == "le":
        return (a <= b) if signed else z3.ULE(a, b)
    if op == "ge":
        return (a >= b) if signed else z3.UGE(a, b)
    raise ValueError(op)


class Cheats:
    """cheat hook for RefEVM: `ev.cheat = Cheats()`"""

    def __init__(self):
        self.fail_ends = []

    # ---- prank ------------------------------------------------------------------------------------------------
    def consume_prank(self, st, f, sender_word):
        pr = getattr(f, "prank", None)
        if not pr:
            return sender_word, None
        sender, origin, keep = pr
        if not keep:
            f.prank = None
        return sender, origin

    # ---- dispatch -----------------------------------------------------------------------------------------------
    def handle(self, ev, st, f, to_c, args, out_off, out_size, work):
        if to_c == refevm.CONSOLE_ADDR:
            return self._ret(ev, f, [], out_off, out_size)
        if len(args) < 4:
            raise Unsupported("cheatcode call without selector")
        sb = [conc(b) for b in args[:4]]
        if any(b is None for b in sb):
            raise Unsupported("symbolic cheatcode selector")
        s = int.from_bytes(bytes(sb), "big")
        words = [simp(refevm.bytes_word(ev.padded(args, 4 + 32 * k, 32))) for k in range((len(args) - 4 + 31) // 32)]

        def w(k):
            if k >= len(words):
                raise Unsupported("cheatcode argument missing")
            return words[k]

        def addr(k):
            return simp(z3.Extract(159, 0, w(k)))

        if to_c != HEVM:
            raise Unsupported("svm cheatcodes are not in the reference")
        if s in ASSERTS:
            op, t = ASSERTS[s]
            rel = simp(relation(op, t, w(0), w(1) if op not in ("true", "false") else None))
            return self._branch_fail(ev, st, f, rel, out_off, out_size, work)
        if s == sel("assume(bool)"):
            c = simp(w(0) != bv(0))
            if z3.is_false(c) or ev.feasible(st, c) == "unsat":
                raise Halt("assume-false")  # the path is dropped (see RefEVM.explore)
            if not z3.is_true(c):
                st.rc.append(c)
            return self._ret(ev, f, [], out_off, out_size)
        if s in (sel("prank(address)"), sel("prank(address,address)"), sel("startPrank(address)"),
                 sel("startPrank(address,address)")):
            if getattr(f, "prank", None):
                raise Unsupported("prank while a prank is active (Foundry error)")
            two = s in (sel("prank(address,address)"), sel("startPrank(address,address)"))
            keep = s in (sel("startPrank(address)"), sel("startPrank(address,address)"))
            f.prank = (z3.ZeroExt(96, addr(0)), z3.ZeroExt(96, addr(1)) if two else None, keep)
            return self._ret(ev, f, [], out_off, out_size)
        if s == sel("stopPrank()"):
            f.prank = None
            return self._ret(ev, f, [], out_off, out_size)
        if s == sel("deal(address,uint256)"):
            st.balance = z3.Store(st.balance, addr(0), w(1))
            st.assumptions.append(z3.ULE(w(1), bv(refevm.MAX_ETH)))
            return self._ret(ev, f, [], out_off, out_size)
        if s == sel("store(address,bytes32,bytes32)"):
            a = conc(addr(0))
            if a is None:
                raise Unsupported("store to a symbolic account")
            if a == HEVM:
                slot, val = conc(w(1)), w(2)
                if slot == FAILED_SLOT:
                    # the legacy DSTest failure flag: the test has failed for the inputs that store a non-zero value
                    return self._branch_fail(ev, st, f, simp(val == bv(0)), out_off, out_size, work)
                return self._ret(ev, f, [], out_off, out_size)
            if a not in st.accounts:
                raise Unsupported("store to a non-existent account")
            acc = st.accounts[a]
            st.accounts[a] = refevm.Account(acc.code, z3.Store(acc.storage, w(1), w(2)), acc.tstorage)
            return self._ret(ev, f, [], out_off, out_size)
        if s == sel("load(address,bytes32)"):
            a = conc(addr(0))
            if a is None or a not in st.accounts:
                raise Unsupported("load from a symbolic / non-existent account")
            v = simp(z3.Select(st.accounts[a].storage, w(1)))
            return self._ret(ev, f, refevm.word_bytes(v), out_off, out_size)
        simple_env = {sel("warp(uint256)"): "timestamp", sel("roll(uint256)"): "number", sel("fee(uint256)"): "basefee",
                      sel("chainId(uint256)"): "chainid", sel("difficulty(uint256)"): "difficulty",
                      sel("prevrandao(bytes32)"): "difficulty", sel("prevrandao(uint256)"): "difficulty"}
        if s in simple_env:
            st.env[simple_env[s]] = w(0)
            return self._ret(ev, f, [], out_off, out_size)
        if s == sel("coinbase(address)"):
            st.env["coinbase"] = z3.ZeroExt(96, addr(0))
            return self._ret(ev, f, [], out_off, out_size)
        if s == sel("etch(address,bytes)"):
            a = conc(addr(0))
            n = conc(simp(refevm.bytes_word(ev.padded(args, 4 + 64, 32))))
            if a is None or n is None:
                raise Unsupported("symbolic etch")
            code = [conc(b) for b in ev.padded(args, 4 + 96, n)]
            if any(b is None for b in code):
                raise Unsupported("symbolic code in etch")
            old = st.accounts.get(a)
            st.accounts[a] = refevm.Account(bytes(code), old.storage if old else refevm.empty_storage(),
                                            old.tstorage if old else refevm.empty_storage())
            return self._ret(ev, f, [], out_off, out_size)
        raise Unsupported(f"cheatcode 0x{s:08x} not in the reference spec")

    # ---- helpers ---------------------------------------------------------------------------------------------
    def _ret(self, ev, f, data, out_off, out_size):
        f.retdata = list(data)
        ev.mwrite(f, out_off, data[:out_size])
        ev._push(f, bv(1))
        f.pc += 1
        return None

    def _branch_fail(self, ev, st, f, rel, out_off, out_size, work):
        """continuing path under rel; a failing end under not(rel)"""
        nrel = simp(z3.Not(rel))
        can_fail = not z3.is_false(nrel) and ev.feasible(st, nrel) != "unsat"
        can_pass = not z3.is_false(rel) and ev.feasible(st, rel) != "unsat"
        if can_fail:
            other = st.fork() if can_pass else st
            if not z3.is_true(nrel):
                other.rc.append(nrel)
            other.env["failed_flag"] = True
            self.fail_ends.append(End("fail", [], other.rc, other.assumptions, other, other.taint))
            ev.extra_ends.append(self.fail_ends[-1])
            if not can_pass:
                raise Halt("assume-false")  # nothing continues
        if can_pass and not z3.is_true(rel):
            st.rc.append(rel)
        return self._ret(ev, f, [], out_off, out_size)
