"""C12 helper: ABI type trees, an independent ABI encoder/decoder written from the Solidity ABI specification.

Nothing here imports halmos.  Sources: https://docs.soliditylang.org/en/latest/abi-spec.html
("Formal Specification of the Encoding", "Use of Dynamic Types", "Strict Encoding Mode").

Type trees (plain tuples, hashable):
    ("e", "uint256")       static elementary: uintN / intN / address / bool / bytesN
    ("b", "bytes"|"string") dynamic byte string
    ("da", T)              T[]
    ("fa", T, k)           T[k]      (k >= 1; Solidity rejects zero-length arrays)
    ("tu", (T1, ..., Tn))  tuple     (n >= 1; Solidity rejects empty structs)
A function's parameter list is a ("tu", ...) whose items are the parameters.

Values (for the encoder) mirror the type: "e" -> 256-bit z3 term / int; "b" -> (n, term of 8n bits | None);
"da"/"fa"/"tu" -> python list of values.

Everything in the ABI encoding is a multiple of 32 bytes (byte strings are right-padded to 32), therefore the encoder
produces a list of 32-byte *words* (z3 256-bit terms), and the decoder reads words / byte ranges through a `Reader`.
"""

from __future__ import annotations

import random
from dataclasses import dataclass, field

import z3

STATIC_ELEMS = ["uint8", "uint256", "int128", "address", "bool", "bytes4", "bytes32"]
DYN_ELEMS = ["bytes", "string"]


# ---------------------------------------------------------------------------------------------------------------------
# type algebra (ABI spec: "Definition: The following types are called dynamic ...")
# ---------------------------------------------------------------------------------------------------------------------
def E(name):
    return ("b", name) if name in DYN_ELEMS else ("e", name)


def DA(t):
    return ("da", t)


def FA(t, k):
    return ("fa", t, k)


def TU(*ts):
    return ("tu", tuple(ts))


def is_dynamic(t) -> bool:
    k = t[0]
    if k == "e":
        return False
    if k in ("b", "da"):
        return True
    if k == "fa":
        return is_dynamic(t[1])
    return any(is_dynamic(x) for x in t[1])


def static_size(t) -> int:
    """byte size of the in-place encoding of a static type"""
    k = t[0]
    if k == "e":
        return 32
    if k == "fa":
        return t[2] * static_size(t[1])
    if k == "tu":
        return sum(static_size(x) for x in t[1])
    raise ValueError(f"not static: {t}")


def head_size(t) -> int:
    return 32 if is_dynamic(t) else static_size(t)


def depth(t) -> int:
    """nesting of composite constructors (a leaf has depth 0)"""
    k = t[0]
    if k in ("e", "b"):
        return 0
    if k in ("da", "fa"):
        return 1 + depth(t[1])
    return 1 + max(depth(x) for x in t[1])


def type_str(t) -> str:
    k = t[0]
    if k in ("e", "b"):
        return t[1]
    if k == "da":
        return type_str(t[1]) + "[]"
    if k == "fa":
        return f"{type_str(t[1])}[{t[2]}]"
    return "(" + ",".join(type_str(x) for x in t[1]) + ")"


def fun_sig(name: str, params) -> str:
    return name + "(" + ",".join(type_str(p) for p in params) + ")"


def count_dyn(t) -> int:
    k = t[0]
    if k == "e":
        return 0
    if k == "b":
        return 1
    if k == "da":
        return 1 + count_dyn(t[1])
    if k == "fa":
        return count_dyn(t[1])
    return sum(count_dyn(x) for x in t[1])


# ---------------------------------------------------------------------------------------------------------------------
# ABI json (what solc emits): {"name","type","components"?}
# ---------------------------------------------------------------------------------------------------------------------
def abi_param(t, name_fn, path=()) -> dict:
    """name_fn(path) -> the json "name" of the parameter / struct member at `path` (tuple of indices)"""
    base = t
    while base[0] in ("da", "fa"):
        base = base[1]
    # note: for T[k][] the ABI type string is "T[k][]": the *outermost* constructor is the last suffix
    suffix = _suffix(t)
    name = name_fn(path)
    if base[0] == "tu":
        comps = [abi_param(x, name_fn, path + (i,)) for i, x in enumerate(base[1])]
        return {"name": name, "type": "tuple" + suffix, "internalType": "struct S" + suffix, "components": comps}
    return {"name": name, "type": base[1] + suffix, "internalType": base[1] + suffix}


def _suffix(t) -> str:
    s = ""
    while t[0] in ("da", "fa"):
        s = ("[]" if t[0] == "da" else f"[{t[2]}]") + s
        t = t[1]
    return s


def abi_item(fname: str, params, name_fn) -> dict:
    return {"type": "function", "name": fname, "inputs": [abi_param(p, name_fn, (i,)) for i, p in enumerate(params)],
            "outputs": [], "stateMutability": "nonpayable"}


def named(path) -> str:
    return "p" + "_".join(str(i) for i in path)


def unnamed(path) -> str:
    return ""


def half_named(path) -> str:
    """parameters named, struct members unnamed"""
    return f"a{path[0]}" if len(path) == 1 else ""


NAMINGS = {"named": named, "unnamed": unnamed, "half": half_named}


# ---------------------------------------------------------------------------------------------------------------------
# the dynamic parameters of a signature, by the user-facing naming rule of --array-lengths
# (parameter name; struct member: <struct>.<member>; array element: <array>[i])
# ---------------------------------------------------------------------------------------------------------------------
@dataclass
class DynSpec:
    name: str
    kind: str  # "array" | "bytes"
    path: tuple  # structural path in the type tree (indices; ("i", n) for array elements)


def dyn_names(params, name_fn, max_len) -> list:
    """Every dynamic-size node, in left-to-right depth-first order, with the name it is looked up under.
    `max_len(name, kind)` -> number of element slots the node is expanded to (its largest candidate)."""
    out = []

    def walk(t, name, tpath, jpath):
        k = t[0]
        if k == "e":
            return
        if k == "b":
            out.append(DynSpec(name, "bytes", tpath))
            return
        if k == "tu":
            prefix = f"{name}." if name else ""
            # struct members: json path of the struct (array suffixes do not add json levels)
            for i, x in enumerate(t[1]):
                walk(x, prefix + name_fn(jpath + (i,)), tpath + (i,), jpath + (i,))
            return
        if k == "fa":
            for i in range(t[2]):
                walk(t[1], f"{name}[{i}]", tpath + (("i", i),), jpath)
            return
        if k == "da":
            out.append(DynSpec(name, "array", tpath))
            for i in range(max_len(name, "array")):
                walk(t[1], f"{name}[{i}]", tpath + (("i", i),), jpath)
            return
        raise ValueError(t)

    for i, p in enumerate(params):
        walk(p, name_fn((i,)), (i,), (i,))
    return out


# ---------------------------------------------------------------------------------------------------------------------
# canonical encoder (strict mode), word level
# ---------------------------------------------------------------------------------------------------------------------
def W(n: int):
    return z3.BitVecVal(n, 256)


def enc(t, v) -> list:
    """enc(X) of the specification -> list of 256-bit words"""
    k = t[0]
    if k == "e":
        return [v if z3.is_expr(v) else W(v)]
    if k == "b":
        n, term = v
        words = [W(n)]
        if n:
            pad = (-n) % 32
            full = z3.Concat(term, z3.BitVecVal(0, 8 * pad)) if pad else term
            total = (n + pad) // 32
            for i in range(total):
                hi = 256 * (total - i) - 1
                words.append(z3.simplify(z3.Extract(hi, hi - 255, full)) if total > 1 else full)
        return words
    if k == "da":
        return [W(len(v))] + enc_seq([t[1]] * len(v), v)
    if k == "fa":
        assert len(v) == t[2]
        return enc_seq([t[1]] * t[2], v)
    if k == "tu":
        return enc_seq(list(t[1]), v)
    raise ValueError(t)


def enc_seq(ts, vs) -> list:
    """enc of a tuple X = (X1..Xk): head(X1)..head(Xk) tail(X1)..tail(Xk)"""
    head_total = sum(head_size(t) for t in ts)
    heads, tails = [], []
    for t, v in zip(ts, vs, strict=True):
        if is_dynamic(t):
            heads.append(W(head_total + 32 * len(tails)))
            tails += enc(t, v)
        else:
            heads += enc(t, v)
    return heads + tails


def enc_size(t, lens, name_fn=None) -> int:
    """byte size of the canonical encoding when every dynamic node has length lens(kind) (used for size estimates)"""
    k = t[0]
    if k == "e":
        return 32
    if k == "b":
        n = lens("bytes")
        return 32 + ((n + 31) // 32) * 32
    if k == "da":
        n = lens("array")
        return 32 + n * (enc_size(t[1], lens) + (32 if is_dynamic(t[1]) else 0))
    if k == "fa":
        return t[2] * (enc_size(t[1], lens) + (32 if is_dynamic(t[1]) else 0))
    return sum(enc_size(x, lens) + (32 if is_dynamic(x) else 0) for x in t[1])


# ---------------------------------------------------------------------------------------------------------------------
# decoder over an abstract reader
# ---------------------------------------------------------------------------------------------------------------------
class DecodeError(Exception):
    def __init__(self, kind, path, detail):
        super().__init__(f"{kind} at {path}: {detail}")
        self.kind, self.path, self.detail = kind, path, detail


@dataclass
class Decoded:
    value: object = None
    leaves: list = field(default_factory=list)  # (path, type name, term)   static words and byte-string contents
    paddings: list = field(default_factory=list)  # (path, term)
    lengths: list = field(default_factory=list)  # (path, pos, raw word, value, kind)
    offsets: list = field(default_factory=list)  # (path, pos, value, target pos)
    regions: list = field(default_factory=list)  # (start, end, what, path)
    end: int = 0  # highest byte position read (exclusive)


class Reader:
    """interface: size -> int; word(pos) -> (raw, concrete int | None, term); blob(pos, n) -> term of 8n bits"""


def decode_params(rd, params, base: int) -> Decoded:
    d = Decoded()
    d.value = _dec_seq(rd, list(params), base, d, ())
    return d


def _concrete(rd, pos, d, path, what):
    if pos < 0 or pos + 32 > rd.size:
        raise DecodeError("out-of-range", path, f"{what} word at byte {pos} but calldata has {rd.size} bytes")
    raw, val, term = rd.word(pos)
    if val is None:
        raise DecodeError("not-concrete", path, f"{what} word at byte {pos} is {term}")
    return raw, val


def _dec_seq(rd, ts, base, d, path):
    """decode a tuple whose encoding starts at byte `base` (offsets of dynamic members are relative to `base`)"""
    out = []
    cur = base
    for i, t in enumerate(ts):
        p = path + (i,)
        if is_dynamic(t):
            _, off = _concrete(rd, cur, d, p, "offset")
            d.regions.append((cur, cur + 32, "offset", p))
            tgt = base + off
            d.offsets.append((p, cur, off, tgt))
            out.append(_dec_dyn(rd, t, tgt, d, p))
            cur += 32
        else:
            out.append(_dec_static(rd, t, cur, d, p))
            cur += static_size(t)
    d.end = max(d.end, cur)
    return out


def _dec_static(rd, t, pos, d, path):
    k = t[0]
    if k == "e":
        if pos < 0 or pos + 32 > rd.size:
            raise DecodeError("out-of-range", path, f"value word at byte {pos} but calldata has {rd.size} bytes")
        _, _, term = rd.word(pos)
        d.regions.append((pos, pos + 32, "value", path))
        d.leaves.append((path, t[1], term))
        d.end = max(d.end, pos + 32)
        return term
    if k == "fa":
        sz = static_size(t[1])
        return [_dec_static(rd, t[1], pos + i * sz, d, path + (("i", i),)) for i in range(t[2])]
    if k == "tu":
        out, cur = [], pos
        for i, x in enumerate(t[1]):
            out.append(_dec_static(rd, x, cur, d, path + (i,)))
            cur += static_size(x)
        return out
    raise ValueError(t)


def _dec_dyn(rd, t, pos, d, path):
    k = t[0]
    if k == "b":
        raw, n = _concrete(rd, pos, d, path, "length")
        d.regions.append((pos, pos + 32, "length", path))
        d.lengths.append((path, pos, raw, n, "bytes"))
        padded = ((n + 31) // 32) * 32
        if pos + 32 + padded > rd.size:
            raise DecodeError("out-of-range", path,
                              f"{n}-byte string body at byte {pos + 32} (padded {padded}) but calldata has {rd.size} bytes")
        term = None
        if n:
            term = rd.blob(pos + 32, n)
            d.regions.append((pos + 32, pos + 32 + padded, "body", path))
            d.leaves.append((path, t[1], term))
            if padded > n:
                d.paddings.append((path, rd.blob(pos + 32 + n, padded - n)))
        d.end = max(d.end, pos + 32 + padded)
        return (n, term)
    if k == "da":
        raw, n = _concrete(rd, pos, d, path, "length")
        d.regions.append((pos, pos + 32, "length", path))
        d.lengths.append((path, pos, raw, n, "array"))
        d.end = max(d.end, pos + 32)
        if n > 4096:
            raise DecodeError("out-of-range", path, f"array length {n}")
        return _dec_seq_arr(rd, t[1], n, pos + 32, d, path)
    if k == "fa":
        return _dec_seq_arr(rd, t[1], t[2], pos, d, path)
    if k == "tu":
        return _dec_seq(rd, list(t[1]), pos, d, path)
    raise ValueError(t)


def _dec_seq_arr(rd, base_t, n, base, d, path):
    out, cur = [], base
    dyn = is_dynamic(base_t)
    sz = 32 if dyn else static_size(base_t)
    for i in range(n):
        p = path + (("i", i),)
        if dyn:
            _, off = _concrete(rd, cur, d, p, "offset")
            d.regions.append((cur, cur + 32, "offset", p))
            tgt = base + off
            d.offsets.append((p, cur, off, tgt))
            out.append(_dec_dyn(rd, base_t, tgt, d, p))
        else:
            out.append(_dec_static(rd, base_t, cur, d, p))
        cur += sz
    d.end = max(d.end, cur)
    return out


def overlapping(regions):
    """first pair of overlapping regions or None"""
    rs = sorted(regions)
    for a, b in zip(rs, rs[1:]):
        if b[0] < a[1]:
            return a, b
    return None


# concrete reader over python bytes (replay)
class BytesReader(Reader):
    def __init__(self, data: bytes):
        self.data = data
        self.size = len(data)

    def word(self, pos):
        v = int.from_bytes(self.data[pos:pos + 32], "big")
        return v, v, v

    def blob(self, pos, n):
        return int.from_bytes(self.data[pos:pos + n], "big")


# ---------------------------------------------------------------------------------------------------------------------
# Solidity-level admissible values of a static elementary type, as a function of a fresh constant of natural width
# ---------------------------------------------------------------------------------------------------------------------
def clean_target(typ: str, tag: str):
    """-> (256-bit term over fresh constants, list of the fresh constants)"""
    if typ.startswith("uint"):
        n = int(typ[4:] or 256)
        c = z3.BitVec(f"T_{tag}", n)
        return (c if n == 256 else z3.ZeroExt(256 - n, c)), [c]
    if typ.startswith("int"):
        n = int(typ[3:] or 256)
        c = z3.BitVec(f"T_{tag}", n)
        return (c if n == 256 else z3.SignExt(256 - n, c)), [c]
    if typ == "address":
        c = z3.BitVec(f"T_{tag}", 160)
        return z3.ZeroExt(96, c), [c]
    if typ == "bool":
        c = z3.Bool(f"T_{tag}")
        return z3.If(c, W(1), W(0)), [c]
    if typ.startswith("bytes") and typ != "bytes":
        n = int(typ[5:])
        c = z3.BitVec(f"T_{tag}", 8 * n)
        return (c if n == 32 else z3.Concat(c, z3.BitVecVal(0, 256 - 8 * n))), [c]
    raise ValueError(typ)


def pattern_value(typ: str, k: int) -> int:
    """k-th concrete admissible 256-bit value of a static type; distinct for distinct k (except bool)"""
    seed = (0x9E3779B97F4A7C15F39CC0605CEDC8341082276BF3A27251F86C6A11D0C18E95 * (k + 1)
            + 0x0123456789ABCDEF0123456789ABCDEF0123456789ABCDEF0123456789ABCDEF) % (1 << 256)
    if typ.startswith("uint"):
        n = int(typ[4:] or 256)
        return seed >> (256 - n) if n < 256 else seed
    if typ.startswith("int"):
        n = int(typ[3:] or 256)
        v = seed >> (256 - n)
        if v >> (n - 1):  # negative: sign extend
            v |= ((1 << 256) - 1) ^ ((1 << n) - 1)
        return v
    if typ == "address":
        return seed >> 96
    if typ == "bool":
        return (k + 1) & 1
    n = int(typ[5:])
    return (seed >> (256 - 8 * n)) << (256 - 8 * n)


# ---------------------------------------------------------------------------------------------------------------------
# enumeration of function signatures
# ---------------------------------------------------------------------------------------------------------------------
def leaves_all():
    return [E(n) for n in STATIC_ELEMS + DYN_ELEMS]


def level1_exhaustive():
    L0 = leaves_all()
    out = []
    for t in L0:
        out += [DA(t), FA(t, 1), FA(t, 2), FA(t, 3)]
    out += [TU(t) for t in L0]
    out += [TU(a, b) for a in L0 for b in L0]
    return out


def _rand_type(rng, d, leaves, wide):
    """a type of depth exactly <= d with at least one constructor when d > 0"""
    if d == 0:
        return rng.choice(leaves)
    k = rng.random()
    sub = lambda: _rand_type(rng, rng.choice([d - 1, d - 1, max(0, d - 2)]), leaves, wide)  # noqa: E731
    first = _rand_type(rng, d - 1, leaves, wide)
    if k < 0.30:
        return DA(first)
    if k < 0.50:
        return FA(first, rng.choice([1, 2, 2, 3]))
    ar = rng.choice([1, 2, 2, 3, 3] if wide else [1, 2, 2])
    items = [first] + [sub() for _ in range(ar - 1)]
    rng.shuffle(items)
    return TU(*items)


def must_include():
    """signatures every tier checks (parameter lists)"""
    u, b, s, a8 = E("uint256"), E("bytes"), E("string"), E("uint8")
    L = []
    L += [[t] for t in leaves_all()]
    L += [[u, u], [b, b], [s, s], [a8, a8, a8], [E("address"), E("address")], [E("bool"), E("bool")]]
    L += [[DA(u)], [DA(b)], [DA(s)], [FA(u, 2)], [FA(b, 2)], [DA(DA(u))], [DA(FA(u, 2))], [FA(DA(u), 2)],
          [DA(DA(b))], [FA(FA(s, 2), 2)], [DA(DA(DA(a8)))]]
    L += [[DA(u), DA(u)], [DA(u), u, DA(u)], [b, u, DA(E("address")), s], [u, b, u], [b, DA(b)], [DA(u), b, s]]
    L += [[TU(u, b)], [TU(b, u)], [TU(u, u), TU(u, u)], [TU(b, b)], [TU(u, TU(b, DA(u)))], [DA(TU(u, b))],
          [FA(TU(a8, DA(s)), 2)], [b, FA(TU(a8, DA(s)), 2)], [TU(DA(TU(u, b)), s)], [DA(TU(u, u))],
          [TU(TU(TU(u, b), u), b)], [TU(DA(u), DA(u))], [FA(TU(u, u), 2), FA(TU(u, u), 2)]]
    return [tuple(x) for x in L]


def enumerate_signatures(tier: str, seed: int = 0) -> list:
    """deterministic list of parameter lists (tuples of types); nesting <= 3, arity <= 3 (<= 4 for one hand-picked
    signature)"""
    rng = random.Random(0xC12 + seed)
    L0 = leaves_all()
    reps = [E("uint256"), E("address"), E("bool"), E("bytes"), E("string"), E("bytes4")]
    sigs = list(must_include())
    seen = set(sigs)

    def add(ps):
        ps = tuple(ps)
        if ps in seen:
            return
        if max(depth(p) for p in ps) > 3 or len(ps) > 4:
            return
        seen.add(ps)
        sigs.append(ps)

    L1 = level1_exhaustive()
    if tier == "thorough":
        for t in L1:
            add([t])
        for a in L0:
            for b in L0:
                add([a, b])
        for a in reps:
            for b in reps:
                for c in reps[:4]:
                    add([a, b, c])
        n2, n3, m2, m3 = 1000, 800, 800, 550
    else:
        for t in L1[::9]:
            add([t])
        pairs = [(a, b) for a in L0 for b in L0]
        for a, b in pairs[::5]:
            add([a, b])
        n2, n3, m2, m3 = 70, 60, 50, 35
    # depth 2 / depth 3 single parameters
    for _ in range(n2):
        add([_rand_type(rng, 2, L0, True)])
    for _ in range(n3):
        add([_rand_type(rng, 3, L0, False)])
    # two / three parameters of mixed depth
    for _ in range(m2):
        add([_rand_type(rng, rng.choice([0, 1, 1, 2, 3]), L0, False) for _ in range(2)])
    for _ in range(m3):
        add([_rand_type(rng, rng.choice([0, 0, 1, 1, 2]), L0, False) for _ in range(3)])
    return sigs
