"""C07 helpers (Route Z): flat reference model, deterministic history generator, executor on the *real*
halmos ByteVec, observers that turn every public read into (impl term, reference term) pairs.

Nothing here models ByteVec: the reference is a Python list of byte elements (8-bit z3 terms, or ints when a
witness is replayed) with zero fill; the implementation side is whatever /repo's ByteVec returns.

History = (init, ops).  `init` names a pre-built vector; ops are tuples:
  ("sb", tgt, off, kind)            tgt.set_byte(off, v)
  ("sw", tgt, off, kind)            tgt.set_word(off, w)
  ("ss", tgt, start, n, kind)       tgt.set_slice(start, start+n, value)
  ("mc", tgt, dst, src, n)          tgt.set_slice(dst, dst+n, tgt.slice(src, src+n))      (MCOPY-like self copy)
  ("ap", tgt, kind)                 tgt.append(value)
  ("fk", how[, s, e])               B = A.copy() | deepcopy(State(memory=A)).memory | A.slice(s,e) | A[s:e]
  ("sv", tgt, start)                tgt.set_slice(start, start+len(other), other)          (other variable as value)
  ("av", tgt)                       tgt.append(other)
tgt in {"A","B"}; B exists after the (single) fork.
"""

from __future__ import annotations

import copy as _copy

import z3

from halmos.bitvec import HalmosBitVec as BV
from halmos.bytevec import ByteVec, SymbolicChunk

Z8 = [z3.BitVecVal(i, 8) for i in range(256)]
_CTX = z3.main_ctx()


# ---------------------------------------------------------------------------
# value domains: how content becomes (halmos value, reference byte list)
# ---------------------------------------------------------------------------
class SymDom:
    """content symbols are z3 constants; reference bytes are 8-bit z3 terms"""

    concrete = False
    zero = Z8[0]

    def sym(self, name, nbytes):
        t = z3.BitVec(name, 8 * nbytes)
        if nbytes == 1:
            return t, [t]
        return t, [z3.Extract(8 * (nbytes - i) - 1, 8 * (nbytes - i) - 8, t) for i in range(nbytes)]

    def boolean(self, name):
        c = z3.Bool(name)
        return c, z3.If(c, Z8[1], Z8[0])

    def conc(self, bs: bytes):
        return [Z8[b] for b in bs]


class IntDom:
    """content symbols take the witness' values; halmos gets *concrete* inputs; reference bytes are ints"""

    concrete = True
    zero = 0

    def __init__(self, model: dict):
        self.model = model

    def sym(self, name, nbytes):
        v = int(self.model.get(name, 0)) & ((1 << (8 * nbytes)) - 1)
        return z3.BitVecVal(v, 8 * nbytes), list(v.to_bytes(nbytes, "big"))

    def boolean(self, name):
        v = bool(self.model.get(name, False))
        return z3.BoolVal(v), int(v)

    def conc(self, bs: bytes):
        return list(bs)


def pattern(p: int, n: int, salt: int = 0) -> bytes:
    """distinct non-zero concrete filler for position p"""
    return bytes((((p + 1) * 37 + salt * 101 + i * 11) % 254) + 1 for i in range(n))


def mk_value(dom, kind: str, n: int, tag: str):
    """-> (value to hand to ByteVec, reference byte list of length n).  tag makes symbol names unique."""
    if kind == "c":  # python bytes
        b = pattern(len(tag) + sum(map(ord, tag)), n)
        return b, dom.conc(b)
    if kind == "cv":  # z3 numeral (is_bv_value fast path)
        b = pattern(len(tag) + sum(map(ord, tag)), n, 1)
        return z3.BitVecVal(int.from_bytes(b, "big"), 8 * n), dom.conc(b)
    if kind == "s":  # one symbolic term of n bytes
        t, rb = dom.sym(f"s_{tag}", n)
        return t, rb
    if kind == "h":  # HalmosBitVec wrapping a symbolic term
        t, rb = dom.sym(f"h_{tag}", n)
        return BV(t, size=8 * n), rb
    if kind == "hc":  # HalmosBitVec wrapping a concrete value (what SEVM passes for concrete stack words)
        b = pattern(len(tag) + sum(map(ord, tag)), n, 2)
        return BV(int.from_bytes(b, "big"), size=8 * n), dom.conc(b)
    if kind in ("v", "w"):  # fresh ByteVec of mixed chunks ("w": symbolic part first)
        if n == 1:
            t, rb = dom.sym(f"v_{tag}", 1)
            return ByteVec(t), rb
        k = n // 2
        t, rb = dom.sym(f"v_{tag}", n - k)
        cb = pattern(len(tag) + sum(map(ord, tag)), k, 3)
        if kind == "v":
            return ByteVec([cb, t]), dom.conc(cb) + rb
        return ByteVec([t, cb]), rb + dom.conc(cb)
    if kind == "n":  # ByteVec whose only chunk is itself a ByteVec stored by the aligned-write fast path
        inner = ByteVec(pattern(1, n, 4))
        val, rb = mk_value(dom, "v", n, tag + "n")
        inner.set_slice(0, n, val)
        return inner, rb
    raise ValueError(kind)


# ---------------------------------------------------------------------------
# reference model
# ---------------------------------------------------------------------------
def ref_write(R: list, start: int, data: list, zero):
    if not data:
        return
    if start > len(R):
        R.extend([zero] * (start - len(R)))
    R[start:start + len(data)] = data


def ref_read(R: list, start: int, stop: int, zero) -> list:
    n = len(R)
    return [R[i] if i < n else zero for i in range(start, stop)]


# ---------------------------------------------------------------------------
# initial vectors (enumerated dimension)
# ---------------------------------------------------------------------------
INITS = ("E", "W3", "M", "N")


def mk_init(dom, name: str):
    A, R = ByteVec(), []
    if name == "E":
        return A, R
    if name == "W3":  # [sym word | 32 concrete | sym word]   boundaries 0/32/64/96
        for i, kind in enumerate(("s", "c", "s")):
            v, rb = mk_value(dom, kind, 32, f"i{i}")
            A.append(v)
            R.extend(rb)
        return A, R
    if name == "M":  # [2 conc | 3 sym | 27 conc | sym word]   boundaries 0/2/5/32/64
        for i, (kind, n) in enumerate((("c", 2), ("s", 3), ("c", 27), ("s", 32))):
            v, rb = mk_value(dom, kind, n, f"i{i}")
            A.append(v)
            R.extend(rb)
        return A, R
    if name == "N":  # W3 whose middle word was overwritten, aligned, by a mixed ByteVec (stored nested)
        A, R = mk_init(dom, "W3")
        v, rb = mk_value(dom, "w", 32, "i3")
        A.set_slice(32, 64, v)
        ref_write(R, 32, rb, dom.zero)
        return A, R
    raise ValueError(name)


# ---------------------------------------------------------------------------
# executor
# ---------------------------------------------------------------------------
class HarnessBug(Exception):
    pass


class OpError(Exception):
    """the real ByteVec raised on a well-formed, in-range operation"""

    def __init__(self, pos, op, exc):
        super().__init__(f"op#{pos} {op}: {type(exc).__name__}: {exc}")
        self.pos, self.op, self.exc = pos, op, exc


def _stats_before_write(T: ByteVec, start: int, stop: int, st: dict):
    """vacuity counters only (reads ByteVec.chunks; never used for a verdict)"""
    try:
        c = T.chunks.get(start)
        if c is not None and start + len(c) == stop:
            st["aligned"] += 1
        for off in (start, stop):
            if 0 < off < len(T):
                idx = T.chunks.bisect_right(off) - 1
                k, ch = T.chunks.peekitem(idx)
                if k < off < k + len(ch) and isinstance(ch, SymbolicChunk):
                    st["split_sym"] += 1
                    break
    except Exception:
        pass


def _stats_after(T: ByteVec, st: dict):
    try:
        for ch in T.chunks.values():
            if isinstance(ch, ByteVec):
                st["nested"] += 1
                break
    except Exception:
        pass


def new_stats():
    return {"aligned": 0, "split_sym": 0, "nested": 0, "overlap": 0, "fork": 0, "value_use": 0, "sym": 0,
            "write_after_fork": 0, "write_after_value_use": 0, "value_use_aligned": 0, "read_barrier": 0}


def valid(ops) -> bool:
    forked = False
    for op in ops:
        k = op[0]
        if k == "fk":
            if forked:
                return False
            forked = True
        elif k in ("sv", "av") or op[1] == "B":
            if not forked:
                return False
    return True


def run_history(dom, init: str, ops, state_cls=None):
    """Execute on the real ByteVec and on the reference.  -> (env, refs, stats)"""
    st = new_stats()
    A, R = mk_init(dom, init)
    env = {"A": A, "B": None}
    refs = {"A": R, "B": None}
    zero = dom.zero
    for p, op in enumerate(ops):
        k = op[0]
        try:
            if k == "fk":
                how = op[1]
                st["fork"] += 1
                if how == "copy":
                    env["B"] = env["A"].copy()
                    refs["B"] = list(refs["A"])
                elif how == "state":
                    from halmos.sevm import State

                    s0 = State(stack=[], memory=env["A"])
                    env["B"] = _copy.deepcopy(s0).memory
                    refs["B"] = list(refs["A"])
                elif how == "slice":
                    env["B"] = env["A"].slice(op[2], op[3])
                    refs["B"] = ref_read(refs["A"], op[2], op[3], zero)
                elif how == "getitem":
                    env["B"] = env["A"][op[2]:op[3]]
                    refs["B"] = ref_read(refs["A"], op[2], op[3], zero)
                elif how == "fresh":  # an unrelated vector, used as a *value* later
                    v, rb = mk_value(dom, "v", op[2], f"f{p}")
                    env["B"], refs["B"] = v, list(rb)
                else:
                    raise HarnessBug(op)
                continue
            if k == "rd":
                # read barrier: observable reads in the middle of a history (results are discarded here; a read must not
                # change what later reads return -- e.g. through a stale memo)
                V = env[op[1]]
                if V is not None:
                    for fn in (lambda: V.unwrap(), lambda: len(V), lambda: V.get_word(0), lambda: V.slice(1, 34).unwrap(),
                               lambda: V.get_byte(33)):
                        try:
                            fn()
                        except Exception:
                            pass
                    st["read_barrier"] = st.get("read_barrier", 0) + 1
                continue
            tgt = op[1]
            oth = "B" if tgt == "A" else "A"
            T, R = env[tgt], refs[tgt]
            if st["fork"]:
                st["write_after_fork"] += 1
            if st["value_use"]:
                st["write_after_value_use"] += 1
            if k == "sb":
                _, _, off, kind = op
                v, rb = mk_value(dom, kind, 1, f"{p}")
                if kind == "c":
                    v = v[0]  # a python int byte
                _stats_before_write(T, off, off + 1, st)
                T.set_byte(off, v)
                ref_write(R, off, rb, zero)
            elif k == "sw":
                _, _, off, kind = op
                if kind == "b":
                    c, rbyte = dom.boolean(f"c_{p}")
                    v, rb = c, [zero] * 31 + [rbyte]
                elif kind == "c":
                    b, rb = mk_value(dom, "c", 32, f"{p}")
                    v = int.from_bytes(b, "big")
                elif kind == "cb":
                    v, rb = mk_value(dom, "c", 32, f"{p}")
                else:
                    v, rb = mk_value(dom, kind, 32, f"{p}")
                _stats_before_write(T, off, off + 32, st)
                T.set_word(off, v)
                ref_write(R, off, rb, zero)
            elif k == "ss":
                _, _, start, n, kind = op
                v, rb = mk_value(dom, kind, n, f"{p}")
                _stats_before_write(T, start, start + n, st)
                T.set_slice(start, start + n, v)
                ref_write(R, start, rb, zero)
            elif k == "mc":
                _, _, dst, src, n = op
                if src != dst and abs(src - dst) < n and max(src, dst) < len(R):
                    st["overlap"] += 1
                _stats_before_write(T, dst, dst + n, st)
                data = T.slice(src, src + n)
                T.set_slice(dst, dst + n, data)
                ref_write(R, dst, ref_read(R, src, src + n, zero), zero)
            elif k == "ap":
                _, _, kind = op
                n = {"s8": 1, "s24": 3, "c3": 3}.get(kind, 32)
                kk = {"s8": "s", "s24": "s", "c3": "c"}.get(kind, kind)
                v, rb = mk_value(dom, kk, n, f"{p}")
                T.append(v)
                R.extend(rb)
            elif k == "sv":
                _, _, start = op
                O, RO = env[oth], refs[oth]
                st["value_use"] += 1
                before = st["aligned"]
                _stats_before_write(T, start, start + len(RO), st)
                if st["aligned"] > before:
                    st["value_use_aligned"] += 1
                T.set_slice(start, start + len(RO), O)
                ref_write(R, start, list(RO), zero)
            elif k == "av":
                O, RO = env[oth], refs[oth]
                st["value_use"] += 1
                T.append(O)
                R.extend(list(RO))
            else:
                raise HarnessBug(op)
            _stats_after(T, st)
        except HarnessBug:
            raise
        except Exception as e:  # noqa: BLE001 - any exception of the real code is a finding candidate
            raise OpError(p, op, e) from e
    st["sym"] = int(any(_has_symbolic_chunk(v) for v in env.values() if v is not None))
    return env, refs, st


def _has_symbolic_chunk(V) -> bool:
    try:
        stack, seen = list(V.chunks.values()), set()
        while stack:
            ch = stack.pop()
            if isinstance(ch, SymbolicChunk):
                return True
            if isinstance(ch, ByteVec) and id(ch) not in seen:
                seen.add(id(ch))
                stack.extend(ch.chunks.values())
    except Exception:
        pass
    return False


# ---------------------------------------------------------------------------
# observers: every public read -> (label, impl z3 term, ref z3 term) or a concrete mismatch
# ---------------------------------------------------------------------------
class ReadError(Exception):
    def __init__(self, label, exc):
        super().__init__(f"{label}: {type(exc).__name__}: {exc}")
        self.label, self.exc = label, exc


def to_term(x, nbytes: int, label: str):
    """own conversion of a ByteVec read result into a z3 term of 8*nbytes bits (None = wrong shape)"""
    if isinstance(x, bool):
        return None
    if isinstance(x, int):
        if not 0 <= x < (1 << (8 * nbytes)):
            return None
        return Z8[x] if nbytes == 1 else z3.BitVecVal(x, 8 * nbytes)
    if isinstance(x, bytes):
        if len(x) != nbytes:
            return None
        if nbytes == 0:
            return None
        return z3.BitVecVal(int.from_bytes(x, "big"), 8 * nbytes)
    if isinstance(x, BV):
        x = x.as_z3()
    if isinstance(x, z3.BitVecRef):
        c = _CTX.ref()
        return x if z3.Z3_get_bv_sort_size(c, z3.Z3_get_sort(c, x.as_ast())) == 8 * nbytes else None
    return None


def cat(bs: list):
    """Concat of 8-bit elements (ints or z3 terms), built through z3core to avoid one Python wrapper per step"""
    bs = [Z8[b] if isinstance(b, int) else b for b in bs]
    if len(bs) == 1:
        return bs[0]
    c = _CTX.ref()
    ast = bs[0].as_ast()
    for t in bs[1:]:
        ast = z3.Z3_mk_concat(c, ast, t.as_ast())
    return z3.BitVecRef(ast, _CTX)


def word_offsets(n: int):
    offs = {0, 1, 31, 32, 33, n - 32, n - 31, n - 1, n}
    return sorted(o for o in offs if o >= 0)


def slice_ranges(n: int):
    rs = [(0, n), (0, n + 3), (1, n - 1), (31, 33), (32, 64), (33, 65), (2, 34), (n - 1, n + 2), (n, n + 5),
          (n + 2, n + 4), (n // 2, n // 2 + 1), (5, 5), (7, 3)]
    out, seen = [], set()
    for s, e in rs:
        if s < 0 or (s, e) in seen:
            continue
        seen.add((s, e))
        out.append((s, e))
    return out


def observe(V: ByteVec, R: list, zero, name: str, extra_pass: bool = False):
    """-> (pairs [(label, impl, ref)], concrete_mismatches [(label, got, want)])"""
    pairs, bad = [], []
    n = len(R)

    def guard(label, f):
        try:
            return f()
        except Exception as e:  # noqa: BLE001
            raise ReadError(f"{name}.{label}", e) from e

    ln = guard("len", lambda: len(V))
    if ln != n:
        bad.append((f"{name}.len", ln, n))
    # every byte, two past the end
    for rnd in range(2 if extra_pass else 1):
        impl = []
        for i in range(n + 3):
            b = guard(f"get_byte({i})", lambda i=i: V.get_byte(i) if (i + rnd) % 5 else V[i])
            t = to_term(b, 1, "")
            if t is None:
                bad.append((f"{name}.get_byte({i})", repr(b)[:80], "a byte"))
                t = Z8[0]
            impl.append(t)
        pairs.append((f"{name}.bytes#{rnd}", cat(impl), cat(ref_read(R, 0, n + 3, zero)), n + 3))
    for off in word_offsets(n):
        w = guard(f"get_word({off})", lambda off=off: V.get_word(off))
        t = to_term(w, 32, "")
        if t is None:
            bad.append((f"{name}.get_word({off})", repr(w)[:80], "a 32-byte word"))
            continue
        pairs.append((f"{name}.get_word({off})", t, cat(ref_read(R, off, off + 32, zero)), 32))
    for j, (s, e) in enumerate(slice_ranges(n)):
        sl = guard(f"slice({s},{e})", lambda s=s, e=e, j=j: V.slice(s, e) if j % 3 else V[s:e])
        want = max(0, e - s)
        if not isinstance(sl, ByteVec) or len(sl) != want:
            bad.append((f"{name}.slice({s},{e}).len", repr(sl)[:80], want))
            continue
        u = guard(f"slice({s},{e}).unwrap", lambda sl=sl: sl.unwrap())
        if want == 0:
            if not (isinstance(u, bytes) and u == b""):
                bad.append((f"{name}.slice({s},{e}).unwrap", repr(u)[:80], "b''"))
            continue
        t = to_term(u, want, "")
        if t is None:
            bad.append((f"{name}.slice({s},{e}).unwrap", repr(u)[:80], f"{want} bytes"))
            continue
        pairs.append((f"{name}.slice({s},{e}).unwrap", t, cat(ref_read(R, s, e, zero)), want))
        if j % 2 == 0 and want <= 40:  # the slice is itself a byte sequence: read it back byte-wise
            sb = []
            for i in range(want + 1):
                b = guard(f"slice({s},{e}).get_byte({i})", lambda sl=sl, i=i: sl.get_byte(i))
                t = to_term(b, 1, "")
                if t is None:
                    bad.append((f"{name}.slice({s},{e}).get_byte({i})", repr(b)[:80], "a byte"))
                    t = Z8[0]
                sb.append(t)
            pairs.append((f"{name}.slice({s},{e}).bytes", cat(sb), cat(ref_read(R, s, e, zero) + [zero]), want + 1))
    u = guard("unwrap", lambda: V.unwrap())
    if n == 0:
        if not (isinstance(u, bytes) and u == b""):
            bad.append((f"{name}.unwrap", repr(u)[:80], "b''"))
    else:
        t = to_term(u, n, "")
        if t is None:
            bad.append((f"{name}.unwrap", repr(u)[:80], f"{n} bytes"))
        else:
            pairs.append((f"{name}.unwrap", t, cat(R), n))
    return pairs, bad


# ---------------------------------------------------------------------------
# operation alphabets (enumerated dimension; offsets sit around the chunk boundaries of the initial vectors)
# ---------------------------------------------------------------------------
def alphabet(level: str):
    """deterministic, duplicate-free list of operations"""
    return list(dict.fromkeys(_alphabet(level)))


def _alphabet(level: str):
    ops = []
    if level == "small":
        ops += [("sb", "A", 33, "s"), ("sb", "A", 97, "h")]
        ops += [("sw", "A", 0, "s"), ("sw", "A", 32, "hc"), ("sw", "A", 33, "h"), ("sw", "A", 65, "s")]
        ops += [("ss", "A", 32, 32, "v"), ("ss", "A", 31, 2, "s"), ("ss", "A", 1, 64, "w"), ("ss", "A", 64, 33, "c"),
                ("ss", "A", 0, 64, "s")]
        ops += [("mc", "A", 33, 32, 32), ("mc", "A", 0, 1, 64), ("mc", "A", 32, 64, 32)]
        ops += [("ap", "A", "s")]
        ops += [("fk", "copy"), ("fk", "state"), ("fk", "slice", 32, 64)]
        ops += [("sv", "A", 32), ("av", "A"), ("sv", "B", 0)]
        ops += [("sb", "B", 0, "s"), ("sb", "B", 33, "c"), ("sw", "B", 1, "s"), ("ss", "B", 32, 32, "v"),
                ("mc", "B", 1, 0, 32)]
        ops += [("rd", "A"), ("sb", "A", 33, "c")]
        return ops
    if level == "medium":
        boff = [0, 1, 31, 32, 33, 64, 65, 97]
        woff = [0, 1, 31, 32, 33, 64, 65, 96, 97]
        ops += [("sb", "A", o, "s") for o in boff] + [("sb", "A", o, "c") for o in (0, 32, 65)]
        ops += [("sb", "A", 1, "h"), ("sb", "A", 33, "hc")]
        ops += [("sw", "A", o, "s") for o in woff] + [("sw", "A", o, "hc") for o in (0, 32, 64)]
        ops += [("sw", "A", 33, "h"), ("sw", "A", 32, "b"), ("sw", "A", 2, "c"), ("sw", "A", 64, "cv")]
        for s in (0, 1, 32, 33, 64):
            for n in (1, 32, 33):
                ops += [("ss", "A", s, n, "s"), ("ss", "A", s, n, "v" if (s + n) % 2 else "w")]
            ops.append(("ss", "A", s, 32, "c"))
        ops += [("ss", "A", 2, 3, "v"), ("ss", "A", 5, 27, "s"), ("ss", "A", 32, 32, "n"), ("ss", "A", 0, 96, "w"),
                ("ss", "A", 31, 34, "cv")]
        for d in (0, 1, 32, 64):
            for s in (0, 31, 32, 33):
                for n in (1, 33):
                    if d != s:
                        ops.append(("mc", "A", d, s, n))
        ops += [("mc", "A", 32, 64, 32), ("mc", "A", 64, 32, 32), ("mc", "A", 96, 0, 96), ("mc", "A", 2, 5, 3),
                ("mc", "A", 33, 32, 32), ("mc", "A", 0, 1, 64)]
        ops += [("ap", "A", k) for k in ("s", "c3", "s8", "s24", "h", "v")]
        ops += [("fk", "copy"), ("fk", "state"), ("fk", "slice", 32, 64), ("fk", "slice", 1, 98),
                ("fk", "getitem", 0, 32), ("fk", "fresh", 32), ("fk", "slice", 33, 63)]
        ops += [("sv", "A", 32), ("sv", "A", 0), ("sv", "A", 33), ("sv", "A", 64), ("av", "A"), ("sv", "B", 0),
                ("av", "B")]
        ops += [("sb", "B", 0, "s"), ("sb", "B", 33, "c"), ("sw", "B", 0, "s"),
                ("sw", "B", 1, "s"), ("ss", "B", 32, 32, "v"), ("ss", "B", 0, 32, "w"),
                ("ss", "B", 1, 2, "s"), ("mc", "B", 1, 0, 32), ("ap", "B", "s")]
        ops += [("rd", "A"), ("rd", "B")]
        return ops
    if level == "full":
        grid = [0, 1, 2, 4, 5, 6, 31, 32, 33, 34, 63, 64, 65, 95, 96, 97, 128, 129]
        for o in grid:
            ops += [("sb", "A", o, k) for k in ("s", "c", "h", "hc")]
            ops += [("sw", "A", o, k) for k in ("s", "c", "h", "hc", "b", "cv", "cb")]
        for s in grid:
            for n in (1, 2, 3, 27, 31, 32, 33, 64, 96):
                for k in ("s", "c", "v", "w"):
                    ops.append(("ss", "A", s, n, k))
            ops += [("ss", "A", s, 32, "n"), ("ss", "A", s, 32, "cv")]
        mg = [0, 1, 2, 5, 31, 32, 33, 63, 64, 65, 96, 97]
        for d in mg:
            for s in mg:
                for n in (1, 3, 31, 32, 33, 64):
                    if d != s:
                        ops.append(("mc", "A", d, s, n))
        ops += [("ap", "A", k) for k in ("s", "c", "c3", "s8", "s24", "h", "hc", "v", "w", "n", "cv")]
        for how in ("slice", "getitem"):
            for s in (0, 1, 31, 32, 33, 64, 95):
                for e in (32, 33, 64, 65, 96, 98, 130):
                    if s < e:
                        ops.append(("fk", how, s, e))
        ops += [("fk", "copy"), ("fk", "state"), ("fk", "fresh", 32), ("fk", "fresh", 1), ("fk", "fresh", 33)]
        for t in ("A", "B"):
            ops += [("sv", t, o) for o in grid] + [("av", t)]
        for o in (0, 1, 31, 32, 33, 64, 97):
            ops += [("sb", "B", o, k) for k in ("s", "c")]
            ops += [("sw", "B", o, k) for k in ("s", "hc")]
            for n in (1, 32, 33):
                ops += [("ss", "B", o, n, k) for k in ("s", "v")]
        for d in (0, 1, 32, 33):
            for s in (0, 1, 31, 32):
                if d != s:
                    ops += [("mc", "B", d, s, 32), ("mc", "B", d, s, 2)]
        ops += [("ap", "B", k) for k in ("s", "c3", "v")]
        return ops
    if level == "mid3":  # length-3 histories, thorough tier
        ops = _alphabet("small")
        ops += [("ss", "A", 33, 32, "s"), ("ss", "A", 0, 32, "n"), ("sb", "A", 32, "s"), ("sb", "A", 64, "hc"),
                ("sw", "A", 64, "s"), ("sw", "A", 96, "c"), ("mc", "A", 1, 0, 33), ("mc", "A", 64, 0, 64),
                ("fk", "fresh", 32), ("av", "B"), ("ss", "A", 2, 3, "v"), ("sw", "A", 32, "b")]
        return ops
    if level == "large":  # length-2 histories, thorough tier
        grid = [0, 1, 2, 5, 31, 32, 33, 64, 65, 96, 97]
        for o in grid:
            ops += [("sb", "A", o, "s"), ("sb", "A", o, "c" if o % 2 else "hc")]
            ops += [("sw", "A", o, "s"), ("sw", "A", o, "hc" if o % 2 else "c")]
        ops += [("sb", "A", 33, "h"), ("sw", "A", 33, "h"), ("sw", "A", 32, "b"), ("sw", "A", 64, "cv"),
                ("sw", "A", 1, "cb")]
        for s in (0, 1, 2, 5, 31, 32, 33, 64, 96):
            for n in (1, 3, 32, 33, 64):
                ops += [("ss", "A", s, n, "s"), ("ss", "A", s, n, "v" if (s + n) % 2 else "w")]
            ops.append(("ss", "A", s, 32, "c"))
        ops += [("ss", "A", 32, 32, "n"), ("ss", "A", 0, 32, "n"), ("ss", "A", 5, 27, "cv"), ("ss", "A", 0, 96, "w")]
        for d in (0, 1, 32, 33, 64):
            for s in (0, 1, 31, 32, 33, 64):
                for n in (1, 32, 33):
                    if d != s:
                        ops.append(("mc", "A", d, s, n))
        ops += [("mc", "A", 96, 0, 96), ("mc", "A", 2, 5, 3), ("mc", "A", 5, 2, 27)]
        ops += [("ap", "A", k) for k in ("s", "c3", "s8", "s24", "h", "v", "n")]
        ops += [("fk", "copy"), ("fk", "state"), ("fk", "slice", 32, 64), ("fk", "slice", 1, 98),
                ("fk", "getitem", 0, 32), ("fk", "fresh", 32), ("fk", "slice", 33, 63), ("fk", "getitem", 31, 65)]
        ops += [("sv", "A", o) for o in (0, 1, 32, 33, 64, 96)] + [("av", "A"), ("sv", "B", 0), ("sv", "B", 1),
                                                                   ("av", "B")]
        ops += [("sb", "B", 0, "s"), ("sb", "B", 33, "c"), ("sb", "B", 31, "s"), ("sw", "B", 0, "s"),
                ("sw", "B", 1, "s"), ("sw", "B", 32, "hc"), ("ss", "B", 32, 32, "v"), ("ss", "B", 0, 32, "w"),
                ("ss", "B", 1, 2, "s"), ("mc", "B", 1, 0, 32), ("mc", "B", 0, 1, 31), ("ap", "B", "s"),
                ("sb", "B", 97, "s"), ("ss", "B", 31, 2, "v"), ("sw", "B", 33, "s")]
        return ops
    if level == "tiny":  # length-4 histories
        ops += [("sb", "A", 33, "s"), ("sw", "A", 32, "s"), ("sw", "A", 33, "hc"), ("sw", "A", 65, "s")]
        ops += [("ss", "A", 32, 32, "v"), ("ss", "A", 31, 2, "s"), ("ss", "A", 1, 64, "w"), ("ss", "A", 64, 33, "c")]
        ops += [("mc", "A", 33, 32, 32), ("mc", "A", 0, 1, 64), ("mc", "A", 32, 64, 32)]
        ops += [("ap", "A", "s")]
        ops += [("fk", "copy"), ("fk", "slice", 32, 64), ("fk", "state")]
        ops += [("sv", "A", 32), ("sv", "B", 0)]
        ops += [("sb", "B", 0, "s"), ("sw", "B", 1, "s"), ("ss", "B", 32, 32, "v"), ("mc", "B", 1, 0, 32)]
        return ops
    raise ValueError(level)


def op_sig(op) -> str:
    k = op[0]
    if k == "fk":
        return f"fk.{op[1]}"
    if k in ("sb", "sw", "ap"):
        return f"{k}{op[1]}.{op[-1]}"
    if k == "ss":
        return f"ss{op[1]}.{op[4]}"
    return f"{k}{op[1]}"


def hist_sig(init, ops) -> str:
    return init + ":" + ">".join(op_sig(o) for o in ops)


def hist_cls(ops) -> str:
    ks = [o[0] for o in ops]
    if "sv" in ks or "av" in ks:
        return "Z.value_copy"
    if "fk" in ks:
        return "Z.fork_copy"
    return "Z.flat"
