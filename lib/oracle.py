"""Ground truth for end-to-end test verdicts: the reference EVM (lib/refevm.py + lib/foundry_spec.py) runs the
hand-assembled test contract from its post-setUp state on calldata built by an independent canonical ABI encoder over
symbolic argument values; "some admissible input reaches a configured Panic code, a failed vm.assert* or the legacy
failure flag" is then one sat/unsat query per failing reference path, decided by the solver portfolio.
"""

from __future__ import annotations

import itertools
from dataclasses import dataclass, field

import z3

from lib import e2e, foundry_spec, portfolio, refevm
from lib.refevm import bv

TEST = 0x7FA9385BE102AC3EAC297483DD6233D62B3E1496
CALLER = 0x1804C8AB1F12E6BBF3894D4083F33E07309D1F38
TEST_BALANCE = 0xFFFFFFFFFFFFFFFFFFFFFFFF
BLOCK = dict(basefee=bv(0), chainid=bv(31337), coinbase=bv(0), difficulty=bv(0), gaslimit=bv(2**63 - 1),
             number=bv(1), timestamp=bv(1))
PANIC_SEL = 0x4E487B71


# ---------------------------------------------------------------------------
# canonical ABI encoding of (symbolic) argument values
# ---------------------------------------------------------------------------
def sig_types(sig: str) -> list[str]:
    inner = sig[sig.index("(") + 1: sig.rindex(")")]
    return [t for t in e2e._split_top(inner)] if inner else []


def is_dynamic(t: str) -> bool:
    return t in ("bytes", "string") or t.endswith("[]")


def admissible(t: str, w):
    """the values Solidity accepts for a static type held in a 256-bit word"""
    if t == "bool":
        return z3.ULE(w, bv(1))
    if t == "address":
        return z3.ULT(w, bv(1 << 160))
    if t.startswith("uint"):
        n = int(t[4:] or 256)
        return z3.BoolVal(True) if n == 256 else z3.ULT(w, bv(1 << n))
    if t.startswith("int"):
        n = int(t[3:] or 256)
        return z3.BoolVal(True) if n == 256 else z3.SignExt(256 - n, z3.Extract(n - 1, 0, w)) == w
    if t.startswith("bytes") and t != "bytes":
        n = int(t[5:])
        return z3.BoolVal(True) if n == 32 else z3.Extract(255 - 8 * n, 0, w) == 0
    raise ValueError(t)


@dataclass
class Args:
    types: list
    lens: dict  # index of dynamic arg -> length
    words: dict = field(default_factory=dict)  # (i,) or (i,k) -> 256-bit term / 8-bit term
    constraints: list = field(default_factory=list)
    names: list = field(default_factory=list)  # z3 consts in a fixed order


def mk_args(types, lens, concrete: dict | None = None, tag="a") -> Args:
    """fresh symbolic values (or the concrete ones given as {name: int})"""
    a = Args(list(types), dict(lens))
    c = concrete or {}

    def mk(name, n):
        t = z3.BitVecVal(c[name], n) if name in c else z3.BitVec(name, n)
        a.names.append(name)
        return t

    for i, t in enumerate(types):
        if not is_dynamic(t):
            w = mk(f"{tag}{i}", 256)
            a.words[(i,)] = w
            a.constraints.append(admissible(t, w))
        elif t in ("bytes", "string"):
            for k in range(lens[i]):
                a.words[(i, k)] = mk(f"{tag}{i}_b{k}", 8)
        elif t.endswith("[]"):
            base = t[:-2]
            for k in range(lens[i]):
                w = mk(f"{tag}{i}_e{k}", 256)
                a.words[(i, k)] = w
                a.constraints.append(admissible(base, w))
        else:
            raise ValueError(t)
    return a


def encode(selector: bytes, a: Args) -> list:
    """canonical encoding -> list of 8-bit terms"""
    heads, tails = [], []
    head_size = 32 * len(a.types)
    for i, t in enumerate(a.types):
        if not is_dynamic(t):
            heads.append(refevm.word_bytes(a.words[(i,)]))
            continue
        off = head_size + sum(len(x) for x in tails)
        heads.append(refevm.word_bytes(bv(off)))
        n = a.lens[i]
        tail = refevm.word_bytes(bv(n))
        if t in ("bytes", "string"):
            body = [a.words[(i, k)] for k in range(n)]
            body += [bv(0, 8)] * ((32 - n % 32) % 32)
            tail += body
        else:
            for k in range(n):
                tail += refevm.word_bytes(a.words[(i, k)])
        tails.append(tail)
    out = [bv(b, 8) for b in selector]
    for h in heads:
        out += h
    for t in tails:
        out += t
    return out


# ---------------------------------------------------------------------------
# reference runs
# ---------------------------------------------------------------------------
class OracleError(Exception):
    pass


def _ev(max_paths=64, loop_bound=None, timeout_ms=1000):
    ev = refevm.RefEVM(block=BLOCK, solver_timeout_ms=timeout_ms, loop_bound=loop_bound, max_paths=max_paths)
    ev.cheat = foundry_spec.Cheats()
    return ev


def post_setup(spec: e2e.Spec, others=(), address_oracle=None):
    """-> (accounts, balance, env) after constructor and setUp(), as concrete-state transactions"""
    accounts = {TEST: refevm.Account(spec.creation(), refevm.empty_storage(), refevm.empty_storage())}
    bal = z3.Store(z3.K(z3.BitVecSort(160), bv(0)), bv(TEST, 160), bv(TEST_BALANCE))
    env = {"address_oracle": list(address_oracle or [])}
    ev = _ev()
    ends = ev.run_tx(accounts, bal, TEST, bv(CALLER), bv(CALLER), bv(0), [], env=env)
    ok = [e for e in ends if e.kind == "return"]
    if len(ends) != 1 or not ok:
        raise OracleError(f"constructor: {[e.kind for e in ends]}")
    code = [refevm.conc(b) for b in ok[0].data]
    if any(b is None for b in code):
        raise OracleError("symbolic runtime code")
    st = ok[0].state
    accounts = dict(st.accounts)
    accounts[TEST] = refevm.Account(bytes(code), st.accounts[TEST].storage, refevm.empty_storage())
    bal, created = st.balance, list(st.created)
    if "setUp()" in spec.sigs():
        ev = _ev()
        env2 = {"address_oracle": list(address_oracle or [])[len(created):]}
        ends = ev.run_tx(accounts, bal, TEST, bv(CALLER), bv(CALLER), bv(0), [bv(b, 8) for b in e2e.selector("setUp()")],
                         env=env2)
        ok = [e for e in ends if e.success]
        if len(ok) != 1:
            raise OracleError(f"setUp: {[e.kind for e in ends]}")
        st = ok[0].state
        accounts, bal = dict(st.accounts), st.balance
        for a, acc in list(accounts.items()):  # transient storage does not survive the transaction
            accounts[a] = refevm.Account(acc.code, acc.storage, refevm.empty_storage())
        env = {k: v for k, v in st.env.items() if k in ("timestamp", "number", "basefee", "chainid", "coinbase", "difficulty")}
        if st.env.get("failed_flag"):
            env["failed_flag"] = True
    else:
        env = {}
    return accounts, bal, env


def fail_condition(end, panic_codes) -> object:
    """z3 Bool: this reference end is a test failure"""
    if end.kind == "fail":
        return z3.BoolVal(True)
    flag = bool(end.state.env.get("failed_flag"))
    if end.kind == "revert":
        d = end.data
        alts = []
        if len(d) == 36:
            for c in (panic_codes if panic_codes != "*" else [None]):
                want = PANIC_SEL.to_bytes(4, "big") + (b"" if c is None else c.to_bytes(32, "big"))
                alts.append(z3.And(*[x == bv(b, 8) for x, b in zip(d, want)]))
        pc = z3.simplify(z3.Or(*alts)) if alts else z3.BoolVal(False)
        # a reverted top frame also rolls back a failure flag set inside it?  the flag lives in the HEVM account, which
        # Foundry does not roll back for the legacy global-failure slot check -> halmos looks at the trace; we follow
        # the DSTest reading: a flag stored in a frame that reverted is lost unless the revert is itself a Panic
        return pc
    if end.success:
        return z3.BoolVal(flag)
    return z3.BoolVal(False)


@dataclass
class Truth:
    status: str  # 'fails' | 'safe' | 'unknown'
    witness: dict | None = None
    lens: dict | None = None
    detail: str = ""
    queries: int = 0
    solver_time: float = 0.0
    fail_paths: int = 0
    paths: int = 0


def ground_truth(spec: e2e.Spec, sig: str, state, len_candidates: dict, panic_codes=(1,), cap=20.0, loop_bound=None,
                 max_paths=96) -> Truth:
    """len_candidates: {arg index: [lengths]} for the dynamic parameters"""
    accounts, bal, env0 = state
    types = sig_types(sig)
    dyn = [i for i, t in enumerate(types) if is_dynamic(t)]
    combos = list(itertools.product(*[len_candidates[i] for i in dyn])) if dyn else [()]
    tr = Truth("safe")
    unknown = []
    for combo in combos:
        lens = dict(zip(dyn, combo))
        a = mk_args(types, lens)
        cd = encode(e2e.selector(sig), a)
        ev = _ev(max_paths=max_paths, loop_bound=loop_bound)
        try:
            ends = ev.run_tx(accounts, bal, TEST, bv(CALLER), bv(CALLER), bv(0), cd, env=dict(env0))
        except refevm.Unsupported as e:
            unknown.append(f"reference unsupported ({e}) for lengths {lens}")
            continue
        tr.paths += len(ends)
        for e in ends:
            if e.kind.startswith("unsupported"):
                unknown.append(f"{e.kind} for lengths {lens}")
                continue
            fc = fail_condition(e, panic_codes)
            if z3.is_false(fc):
                continue
            tr.fail_paths += 1
            consts = [z3.BitVec(n, 8 if "_b" in n else 256) for n in a.names]
            res = portfolio.solve(list(e.rc) + list(e.assumptions) + a.constraints + [fc], timeout=cap, model_consts=consts)
            tr.queries += 1
            tr.solver_time += res.time
            if res.status == "sat":
                w = {n: int(res.model.get(n, 0)) for n in a.names}
                return Truth("fails", w, lens, f"reference end {e.kind}", tr.queries, tr.solver_time, tr.fail_paths, tr.paths)
            if res.status != "unsat":
                unknown.append(f"solver {res.status} on a failing reference path for lengths {lens}")
    if unknown:
        tr.status, tr.detail = "unknown", "; ".join(unknown[:3])
    return tr


def replay(spec: e2e.Spec, sig: str, state, lens: dict, values: dict, panic_codes=(1,)):
    """concrete reference run -> (failed: bool|None, kind)"""
    accounts, bal, env0 = state
    types = sig_types(sig)
    a = mk_args(types, lens, concrete={n: v for n, v in values.items()})
    # fill missing values with 0
    a = mk_args(types, lens, concrete={n: int(values.get(n, 0)) for n in a.names})
    cd = encode(e2e.selector(sig), a)
    ev = _ev()
    try:
        ends = ev.run_tx(accounts, bal, TEST, bv(CALLER), bv(CALLER), bv(0), cd, env=dict(env0))
    except refevm.Unsupported as e:
        return None, f"unsupported: {e}"
    if len(ends) != 1:
        return None, f"{len(ends)} reference paths on concrete input"
    e = ends[0]
    if e.kind.startswith("unsupported"):
        return None, e.kind
    fc = z3.simplify(fail_condition(e, panic_codes))
    if z3.is_true(fc):
        return True, e.kind
    if z3.is_false(fc):
        return False, e.kind
    return None, "failure condition not concrete"
