"""C06 Route P conditions: the concrete fast paths of halmos.bitvec.HalmosBitVec under CrossHair with symbolic Python
ints covering all 256-bit values.  Only operations whose concrete path makes no z3 call are here (add, sub, mul, div,
mod, addmod, mulmod, exp with small exponents, not, byte, shifts, unsigned comparisons through their int fields);
sdiv/smod/signextend/ashr go through z3 on concrete operands and are covered by route Z cells instead.

Every function returns True iff the EVM-specified result was produced (lib/chx.py conventions).  The specification
side is plain integer arithmetic written from the Yellow Paper (division/remainder/modular arithmetic by zero = 0).
"""

from halmos.bitvec import HalmosBitVec as BV

M = 1 << 256
LAST_DETAIL = None


def _v(r):
    global LAST_DETAIL
    LAST_DETAIL = repr(r)
    x = r.value if hasattr(r, "value") else r
    return x if isinstance(x, int) else None


def add_256(a: int, b: int) -> bool:
    """
    pre: 0 <= a < 2**256 and 0 <= b < 2**256
    post: __return__
    """
    return _v(BV(a, size=256).add(BV(b, size=256))) == (a + b) % M


def sub_256(a: int, b: int) -> bool:
    """
    pre: 0 <= a < 2**256 and 0 <= b < 2**256
    post: __return__
    """
    return _v(BV(a, size=256).sub(BV(b, size=256))) == (a - b) % M


def mul_256(a: int, b: int) -> bool:
    """
    pre: 0 <= a < 2**256 and 0 <= b < 2**256
    post: __return__
    """
    return _v(BV(a, size=256).mul(BV(b, size=256))) == (a * b) % M


def div_256(a: int, b: int) -> bool:
    """
    pre: 0 <= a < 2**256 and 0 <= b < 2**256
    post: __return__
    """
    return _v(BV(a, size=256).div(BV(b, size=256))) == (0 if b == 0 else a // b)


def mod_256(a: int, b: int) -> bool:
    """
    pre: 0 <= a < 2**256 and 0 <= b < 2**256
    post: __return__
    """
    return _v(BV(a, size=256).mod(BV(b, size=256))) == (0 if b == 0 else a % b)


def addmod_256(a: int, b: int, n: int) -> bool:
    """
    pre: 0 <= a < 2**256 and 0 <= b < 2**256 and 0 <= n < 2**256
    post: __return__
    """
    return _v(BV(a, size=256).addmod(BV(b, size=256), BV(n, size=256))) == (0 if n == 0 else (a + b) % n)


def mulmod_256(a: int, b: int, n: int) -> bool:
    """
    pre: 0 <= a < 2**256 and 0 <= b < 2**256 and 0 <= n < 2**256
    post: __return__
    """
    return _v(BV(a, size=256).mulmod(BV(b, size=256), BV(n, size=256))) == (0 if n == 0 else (a * b) % n)


def not_256(a: int) -> bool:
    """
    pre: 0 <= a < 2**256
    post: __return__
    """
    return _v(BV(a, size=256).bitwise_not()) == M - 1 - a


def byte_256(a: int, i: int) -> bool:
    """
    pre: 0 <= a < 2**256 and 0 <= i < 40
    post: __return__
    """
    want = 0 if i >= 32 else (a >> (8 * (31 - i))) & 0xFF
    return _v(BV(a, size=256).byte(i, output_size=256)) == want


def shl_256(a: int, s: int) -> bool:
    """
    pre: 0 <= a < 2**256 and 0 <= s < 300
    post: __return__
    """
    return _v(BV(a, size=256).lshl(BV(s, size=256))) == (0 if s >= 256 else (a << s) % M)


def shr_256(a: int, s: int) -> bool:
    """
    pre: 0 <= a < 2**256 and 0 <= s < 300
    post: __return__
    """
    return _v(BV(a, size=256).lshr(BV(s, size=256))) == (0 if s >= 256 else a >> s)


def exp_small(a: int, e: int) -> bool:
    """
    pre: 0 <= a < 2**256 and 0 <= e <= 4
    post: __return__
    """
    return _v(BV(a, size=256).exp(BV(e, size=256))) == pow(a, e, M)


def truncation(a: int) -> bool:
    """
    pre: -2**256 <= a < 2**257
    post: __return__
    """
    return _v(BV(a, size=256)) == a % M
