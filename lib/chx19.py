"""Route P runner used by props/C19.py: writes modules of CrossHair conditions, runs each module (a *batch* of
conditions) in its own `crosshair check` subprocess - batches run in parallel, every condition has a CrossHair time-out,
every subprocess a hard wall time-out, and the whole route a deadline - and classifies the verdicts.

A condition is described by `Cond(name, params, pre, body, kind)`:
    def <name>(<params>) -> bool:
        '''
        pre: ...
        post: __return__          (kind 'claim')   |   post: not __return__   (kind 'twin': must be *refuted*)
        '''
        return <body>
Verdicts: 'confirmed' (CrossHair: "Confirmed over all paths."), 'refuted' (counterexample call, parsed back to concrete
arguments), 'exception' (the body raised), 'unknown' (Not confirmed / Unable to meet precondition / time-out / killed /
anything unrecognised).  Nothing here decides a violation: the caller replays refuted claims under /venv/bin/python.
"""

from __future__ import annotations

import ast
import os
import re
import subprocess
import threading
import time
from concurrent.futures import ThreadPoolExecutor
from dataclasses import dataclass, field

from lib import common

CROSSHAIR = os.path.join(common.VERIF, ".venv", "bin", "crosshair")


@dataclass
class Cond:
    name: str
    params: str  # e.g. "c: bytes, pc: int"
    pre: list  # list of python expressions
    body: str  # python expression -> bool
    kind: str = "claim"  # 'claim' | 'twin'
    family: str = ""
    cost: float = 5.0  # rough CPU seconds (used for batching only)
    timeout: float = 60.0  # CrossHair per-condition time-out
    meta: dict = field(default_factory=dict)


@dataclass
class Verdict:
    cond: Cond
    status: str  # confirmed | refuted | exception | unknown
    message: str = ""
    args: tuple | None = None  # concrete arguments of the counterexample call (positional order)
    seconds: float = 0.0  # wall time of the batch the condition ran in
    batch: int = -1


def ensure_crosshair() -> str | None:
    """-> error text or None"""
    if not os.access(CROSSHAIR, os.X_OK):
        p = subprocess.run([os.path.join(common.VERIF, "setup.sh")], capture_output=True, text=True, timeout=900)
        if p.returncode != 0 or not os.access(CROSSHAIR, os.X_OK):
            return f"setup.sh failed: {(p.stdout + p.stderr)[-300:]}"
    return None


def write_module(path: str, header: str, conds: list) -> dict:
    """-> {cond name: (first line, last line)} (1-based, inclusive, def line .. return line)"""
    lines = header.rstrip("\n").split("\n") + ["", ""]
    where = {}
    for c in conds:
        first = len(lines) + 1
        lines.append(f"def {c.name}({c.params}) -> bool:")
        lines.append('    """')
        for p in c.pre:
            lines.append(f"    pre: {p}")
        lines.append("    post: __return__" if c.kind == "claim" else "    post: not __return__")
        lines.append('    """')
        lines.append(f"    return {c.body}")
        where[c.name] = (first, len(lines))
        lines += ["", ""]
    with open(path, "w") as f:
        f.write("\n".join(lines))
    return where


def child_env() -> dict:
    env = dict(os.environ)
    # the overlay venv's .pth names /repo/src; PYTHONPATH comes first, so VERIF_REPO_SRC (mutant trees) wins
    env["PYTHONPATH"] = f"{common.REPO_SRC}:{common.VERIF}"
    env["PYTHONDONTWRITEBYTECODE"] = "1"
    env["PYTHONHASHSEED"] = "0"
    return env


_CALL = re.compile(r"when calling (\w+)(\(.*?\))(?: \(which (?:returns|raises) .*\))?$", re.S)


def parse_call(name: str, argtext: str, cond: Cond):
    """'f', '(b"..", 3)' -> tuple of python values in parameter order (None if it cannot be read back as literals)"""
    try:
        node = ast.parse(name + argtext.strip(), mode="eval").body
        if not isinstance(node, ast.Call):
            return None
        names = [p.split(":")[0].strip() for p in cond.params.split(",")]
        vals = [ast.literal_eval(a) for a in node.args]
        kw = {k.arg: ast.literal_eval(k.value) for k in node.keywords}
        for n in names[len(vals):]:
            vals.append(kw[n])
        return tuple(vals)
    except Exception:  # noqa: BLE001
        return None


def classify_batch(path: str, where: dict, conds: list, out: str) -> dict:
    """CrossHair stdout of one batch -> {cond name: Verdict}; conditions without any message are 'unknown'"""
    byname = {c.name: c for c in conds}
    msgs: dict[str, list] = {c.name: [] for c in conds}
    base = os.path.basename(path)
    cur = None
    for line in out.splitlines():
        m = re.match(r"^(.*?\.py):(\d+): (info|error|warning): (.*)$", line)
        if not m:
            if cur is not None and line.strip():
                cur[1] += "\n" + line
            continue
        fn, ln, kind, text = m.group(1), int(m.group(2)), m.group(3), m.group(4)
        cur = [kind, text]
        owner = None
        mc = _CALL.search(text)
        if mc and mc.group(1) in byname:
            owner = mc.group(1)
        elif os.path.basename(fn) == base:
            for n, (a, b) in where.items():
                if a <= ln <= b:
                    owner = n
        if owner is None:
            cur = None
            continue
        msgs[owner].append(cur)
    res = {}
    for c in conds:
        ms = msgs[c.name]
        errs = [t for k, t in ms if k == "error"]
        infos = [t for k, t in ms if k == "info"]
        if errs:
            t = errs[0]
            mc = _CALL.search(t)
            args = parse_call(mc.group(1), mc.group(2), c) if mc else None
            res[c.name] = Verdict(c, "refuted" if t.startswith("false when calling") else "exception", t[:600], args)
        elif len(infos) == 1 and infos[0].startswith("Confirmed over all paths"):
            res[c.name] = Verdict(c, "confirmed", infos[0])
        else:
            res[c.name] = Verdict(c, "unknown", "; ".join(infos)[:300] or "no verdict printed (time-out or killed)")
    return res


class Runner:
    def __init__(self, tmpdir: str, header: str, jobs: int, deadline: float, verbose=False, log=None):
        self.tmp, self.header, self.jobs, self.deadline = tmpdir, header, max(1, jobs), deadline
        self.verbose, self.log = verbose, log
        self.env = child_env()
        self.procs: set = set()
        self.lock = threading.Lock()
        self.stopped = False

    def run_batch(self, idx: int, conds: list) -> dict:
        path = os.path.join(self.tmp, f"c19_batch{idx:02d}.py")
        where = write_module(path, self.header, conds)
        left = self.deadline - time.time()
        if self.stopped or left < 15:
            return {c.name: Verdict(c, "unknown", "not started: route P deadline of this tier reached", batch=idx)
                    for c in conds}
        tmo = max(c.timeout for c in conds)
        wall = min(left, sum(c.timeout for c in conds) * 1.3 + 60)
        cmd = [CROSSHAIR, "check", "--report_all", "--per_condition_timeout", str(tmo),
               "--per_path_timeout", str(max(10.0, tmo / 3)), path]
        if self.verbose:
            cmd.insert(2, "-v")
        t0 = time.time()
        p = subprocess.Popen(cmd, stdout=subprocess.PIPE, stderr=subprocess.PIPE, text=True, env=self.env, cwd=self.tmp)
        with self.lock:
            self.procs.add(p)
        killed = False
        try:
            out, err = p.communicate(timeout=wall)
        except subprocess.TimeoutExpired:
            p.kill()
            out, err = p.communicate()
            killed = True
        finally:
            with self.lock:
                self.procs.discard(p)
        res = classify_batch(path, where, conds, out or "")
        dt = time.time() - t0
        for v in res.values():
            v.seconds, v.batch = dt, idx
            if v.status == "unknown":
                if killed:
                    v.message += " [subprocess killed at the wall time-out]"
                elif p.returncode not in (0, 1):
                    v.message += f" [crosshair exit {p.returncode}: {(err or '').strip()[-160:]}]"
        if self.log:
            self.log(idx, conds, res, dt, (out or "") + ("\n" + err if self.verbose and err else ""))
        return res

    def run(self, batches: list) -> dict:
        out = {}
        with ThreadPoolExecutor(max_workers=self.jobs) as ex:
            futs = [ex.submit(self.run_batch, i, b) for i, b in enumerate(batches)]
            for f in futs:
                out.update(f.result())
        return out

    def kill_all(self):
        self.stopped = True
        with self.lock:
            for p in list(self.procs):
                try:
                    p.kill()
                except Exception:  # noqa: BLE001
                    pass


def make_batches(conds: list, nbatches: int, startup_cost: float = 6.0) -> list:
    """longest-processing-time-first packing of the conditions' cost hints; expensive conditions stay alone"""
    conds = sorted(conds, key=lambda c: -c.cost)
    total = sum(c.cost for c in conds)
    target = max(total / max(1, nbatches), max((c.cost for c in conds), default=0))
    bins: list = []
    for c in conds:
        best = None
        for b in bins:
            load = sum(x.cost for x in b)
            if load + c.cost <= target * 1.05 and (best is None or load < sum(x.cost for x in best)):
                best = b
        if best is None:
            bins.append([c])
        else:
            best.append(c)
    bins.sort(key=lambda b: -sum(x.cost for x in b))
    return bins


def probe_import(tmpdir: str) -> str:
    """which halmos the CrossHair interpreter imports (recorded in the evidence; must be under REPO_SRC)"""
    py = os.path.join(common.VERIF, ".venv", "bin", "python")
    p = subprocess.run([py, "-c", "import halmos, z3; print(halmos.__file__); print(z3.get_version_string())"],
                       capture_output=True, text=True, env=child_env(), cwd=tmpdir, timeout=120)
    return p.stdout.strip().replace("\n", " z3=") if p.returncode == 0 else f"ERROR {p.stderr.strip()[-200:]}"
