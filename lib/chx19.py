"""Route P runner used by props/C19.py: writes a module of CrossHair conditions, runs every condition in its own
`crosshair check` subprocess (parallel, each with a CrossHair time-out and a hard wall time-out), classifies the verdicts.

A condition is described by `Cond(name, params, pre, body, kind)`:
    def <name>(<params>) -> bool:
        '''
        pre: ...
        post: __return__          (kind 'claim')   |   post: not __return__   (kind 'twin': must be *refuted*)
        '''
        return <body>
Verdicts: 'confirmed' (CrossHair: "Confirmed over all paths."), 'refuted' (counterexample call, parsed to concrete
arguments), 'exception' (the body raised), 'unknown' (Not confirmed / Unable to meet precondition / time-out / anything
unrecognised).  Nothing here decides a violation: the caller replays refuted claims under /venv/bin/python.
"""

from __future__ import annotations

import ast
import os
import re
import subprocess
import time
from concurrent.futures import ThreadPoolExecutor
from dataclasses import dataclass, field

from lib import common

CROSSHAIR = os.path.join(common.VERIF, ".venv", "bin", "crosshair")


@dataclass
class Cond:
    name: str
    params: str  # e.g. "c: bytes, pc: int"
    pre: list  # list of python expressions
    body: str  # python expression -> bool
    kind: str = "claim"  # 'claim' | 'twin'
    family: str = ""
    meta: dict = field(default_factory=dict)


@dataclass
class Verdict:
    cond: Cond
    status: str  # confirmed | refuted | exception | unknown
    message: str = ""
    args: tuple | None = None  # concrete arguments of the counterexample call (positional order)
    seconds: float = 0.0
    raw: str = ""


def ensure_crosshair() -> str | None:
    """-> error text or None"""
    if not os.access(CROSSHAIR, os.X_OK):
        p = subprocess.run([os.path.join(common.VERIF, "setup.sh")], capture_output=True, text=True, timeout=900)
        if p.returncode != 0 or not os.access(CROSSHAIR, os.X_OK):
            return f"setup.sh failed: {(p.stdout + p.stderr)[-300:]}"
    return None


def write_module(path: str, header: str, conds: list) -> dict:
    """-> {cond name: line number inside the def body}"""
    lines = header.rstrip("\n").split("\n") + ["", ""]
    where = {}
    for c in conds:
        lines.append(f"def {c.name}({c.params}) -> bool:")
        lines.append('    """')
        where[c.name] = len(lines) + 1  # 1-based line of the first docstring content line
        for p in c.pre:
            lines.append(f"    pre: {p}")
        lines.append("    post: __return__" if c.kind == "claim" else "    post: not __return__")
        lines.append('    """')
        lines.append(f"    return {c.body}")
        lines += ["", ""]
    with open(path, "w") as f:
        f.write("\n".join(lines))
    return where


def child_env() -> dict:
    env = dict(os.environ)
    # the overlay venv's .pth names /repo/src; PYTHONPATH comes first, so VERIF_REPO_SRC (mutant trees) wins
    env["PYTHONPATH"] = f"{common.REPO_SRC}:{common.VERIF}"
    env["PYTHONDONTWRITEBYTECODE"] = "1"
    env["PYTHONHASHSEED"] = "0"
    return env


_CALL = re.compile(r"when calling (.*?)(?: \(which (?:returns|raises) .*\))?$", re.S)


def parse_call(text: str, cond: Cond):
    """'f(b"..", 3)' -> tuple of python values in parameter order (None if it cannot be read back as literals)"""
    try:
        node = ast.parse(text.strip(), mode="eval").body
        if not isinstance(node, ast.Call):
            return None
        names = [p.split(":")[0].strip() for p in cond.params.split(",")]
        vals = [ast.literal_eval(a) for a in node.args]
        kw = {k.arg: ast.literal_eval(k.value) for k in node.keywords}
        for n in names[len(vals):]:
            vals.append(kw[n])
        return tuple(vals)
    except Exception:  # noqa: BLE001
        return None


def classify(cond: Cond, out: str) -> Verdict:
    msgs = []
    for line in out.splitlines():
        m = re.match(r"^.*?\.py:\d+: (info|error|warning): (.*)$", line)
        if m:
            msgs.append((m.group(1), m.group(2)))
        elif msgs and line.strip():
            # continuation of a multi-line message
            msgs[-1] = (msgs[-1][0], msgs[-1][1] + "\n" + line)
    errs = [t for k, t in msgs if k == "error"]
    if errs:
        t = errs[0]
        m = _CALL.search(t)
        args = parse_call(m.group(1), cond) if m else None
        if t.startswith("false when calling"):
            return Verdict(cond, "refuted", t, args)
        return Verdict(cond, "exception", t, args)
    infos = [t for k, t in msgs if k == "info"]
    if any(t.startswith("Confirmed over all paths") for t in infos) and len(infos) == 1:
        return Verdict(cond, "confirmed", infos[0])
    return Verdict(cond, "unknown", "; ".join(infos) or out.strip()[-200:] or "no verdict printed")


def run_one(path: str, line: int, cond: Cond, timeout: float, env: dict, verbose=False) -> Verdict:
    cmd = [CROSSHAIR, "check", "--report_all", "--per_condition_timeout", str(timeout),
           "--per_path_timeout", str(max(10.0, timeout / 4)), f"{path}:{line}"]
    if verbose:
        cmd.insert(2, "-v")
    t0 = time.time()
    try:
        p = subprocess.run(cmd, capture_output=True, text=True, timeout=timeout * 1.5 + 60, env=env,
                           cwd=os.path.dirname(path))
        out = p.stdout + ("\n" + p.stderr if verbose else "")
        v = classify(cond, p.stdout)
        if v.status == "unknown" and p.returncode not in (0, 1):
            v.message += f" [exit {p.returncode}: {p.stderr.strip()[-200:]}]"
    except subprocess.TimeoutExpired:
        out = ""
        v = Verdict(cond, "unknown", "wall time-out (subprocess killed)")
    v.seconds = time.time() - t0
    v.raw = out[-2000:]
    return v


def run_all(path: str, where: dict, conds: list, timeout: float, jobs: int, verbose=False, progress=None) -> list:
    env = child_env()
    out = []
    # longest first: conditions carry an optional cost hint
    order = sorted(conds, key=lambda c: -c.meta.get("cost", 1))
    with ThreadPoolExecutor(max_workers=max(1, jobs)) as ex:
        futs = [ex.submit(run_one, path, where[c.name], c, c.meta.get("timeout", timeout), env, verbose) for c in order]
        for f in futs:
            v = f.result()
            out.append(v)
            if progress:
                progress(v)
    return out


def probe_import(tmpdir: str) -> str:
    """which halmos the CrossHair interpreter imports (recorded in the evidence; must be under REPO_SRC)"""
    py = os.path.join(common.VERIF, ".venv", "bin", "python")
    p = subprocess.run([py, "-c", "import halmos, z3; print(halmos.__file__); print(z3.get_version_string())"],
                       capture_output=True, text=True, env=child_env(), cwd=tmpdir, timeout=120)
    return p.stdout.strip().replace("\n", " z3=") if p.returncode == 0 else f"ERROR {p.stderr.strip()[-200:]}"
