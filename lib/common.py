"""Shared plumbing for all property checks: CLI, evidence, replays, known findings.

Every props/Cxx.py builds a `Run` object, registers obligations / violations on it
and finishes with `run.finish()`, which writes evidence/<id>.json (validated against
the schema) and exits 0 / 1 / 2 as DESIGN §0.3 describes.
"""

from __future__ import annotations

import argparse
import hashlib
import json
import os
import sys
import time
import traceback

VERIF = os.path.dirname(os.path.dirname(os.path.abspath(__file__)))
REPO = os.environ.get("VERIF_REPO", "/repo")
REPO_SRC = os.environ.get("VERIF_REPO_SRC", os.path.join(REPO, "src"))
EVIDENCE_DIR = os.environ.get("VERIF_EVIDENCE_DIR") or os.path.join(VERIF, "evidence")
REPLAY_DIR = os.environ.get("VERIF_REPLAY_DIR") or os.path.join(VERIF, "replays")
KNOWN_FINDINGS = os.path.join(VERIF, "known_findings.json")
EVIDENCE_SCHEMA = "/root/.vp/EVIDENCE.schema.json"

EXIT_OK, EXIT_VIOLATION, EXIT_HARNESS = 0, 1, 2


def parse_args(prop: str):
    ap = argparse.ArgumentParser(prog=f"check {prop}")
    ap.add_argument("--tier", default=os.environ.get("VERIF_TIER", "quick"))
    ap.add_argument("--replay", default=None)
    ap.add_argument("--only", default=None, help="comma separated obligation-class filter")
    ap.add_argument("--jobs", type=int, default=int(os.environ.get("VERIF_JOBS", "14")))
    ap.add_argument("-v", "--verbose", action="store_true")
    args = ap.parse_args()
    if args.tier not in ("quick", "thorough"):
        ap.error("tier must be quick or thorough")
    args.seed = int(os.environ.get("VERIF_SEED", "0") or 0)
    return args


def load_known(prop: str) -> list[dict]:
    try:
        with open(KNOWN_FINDINGS) as f:
            data = json.load(f)
    except FileNotFoundError:
        return []
    return [e for e in data.get("findings", []) if e.get("property") == prop]


class Run:
    def __init__(self, prop: str, level: str, args=None):
        self.prop = prop
        self.level = level
        self.args = args or parse_args(prop)
        self.tier = self.args.tier
        self.seed = self.args.seed
        self.t0 = time.time()
        self.known = load_known(prop)
        self.known_hit: dict[str, int] = {}
        self.violations: list[dict] = []
        self.inconclusive: list[dict] = []
        self.harness_errors: list[str] = []
        self.classes: dict[str, dict] = {}
        self.samples: list = []
        self.assumptions: list[str] = []
        self.functions_encoded: list[str] = []
        self.bounds: dict = {}
        self.extra: dict = {}
        self.solver_time = 0.0
        self.backend_wins: dict[str, int] = {}
        self.distinct: set[str] = set()
        self.evaluations = 0
        self.discharged = 0
        self.obligations = 0

    # ---- bookkeeping ---------------------------------------------------
    def cls(self, name: str) -> dict:
        return self.classes.setdefault(
            name, {"obligations": 0, "discharged": 0, "inconclusive": 0, "violations": 0, "known": 0}
        )

    def ok(self, cls: str, key: str | None = None, nontrivial: bool = True):
        c = self.cls(cls)
        c["obligations"] += 1
        c["discharged"] += 1
        self.obligations += 1
        self.discharged += 1
        self.evaluations += 1
        if nontrivial and key is not None:
            self.distinct.add(f"{cls}:{key}")

    def inconc(self, cls: str, key: str, reason: str):
        c = self.cls(cls)
        c["obligations"] += 1
        c["inconclusive"] += 1
        self.obligations += 1
        self.evaluations += 1
        if len(self.inconclusive) < 200:
            self.inconclusive.append({"class": cls, "key": key, "reason": reason})

    def sample(self, s, limit: int = 12):
        if len(self.samples) < limit:
            self.samples.append(s)

    def note_solver(self, res):
        """res: portfolio.Result"""
        self.solver_time += getattr(res, "time", 0.0)
        b = getattr(res, "backend", None)
        if b:
            self.backend_wins[b] = self.backend_wins.get(b, 0) + 1

    def harness_error(self, msg: str):
        self.harness_errors.append(msg)
        print(f"HARNESS-ERROR: {msg}", flush=True)

    # ---- violations ------------------------------------------------------
    def match_known(self, key: str) -> dict | None:
        for e in self.known:
            if e.get("status") != "known":
                continue
            k = e.get("key", "")
            if k and (k == key or key.startswith(k)):
                return e
        return None

    def violation(self, cls: str, key: str, what: str, witness: dict):
        """Report a *replayed* violation. `key` identifies the failing input class."""
        c = self.cls(cls)
        c["obligations"] += 1
        self.obligations += 1
        self.evaluations += 1
        e = self.match_known(key)
        if e is not None:
            c["known"] += 1
            if e["key"] not in self.known_hit:
                print(f"KNOWN-FINDING: property={self.prop} {e['what']} [key={e['key']}]", flush=True)
            self.known_hit[e["key"]] = self.known_hit.get(e["key"], 0) + 1
            return
        c["violations"] += 1
        os.makedirs(REPLAY_DIR, exist_ok=True)
        blob = json.dumps({"property": self.prop, "class": cls, "key": key, "what": what, "witness": witness},
                          indent=1, sort_keys=True, default=str)
        h = hashlib.sha1(blob.encode()).hexdigest()[:10]
        path = os.path.join(REPLAY_DIR, f"{self.prop}-{h}.json")
        with open(path, "w") as f:
            f.write(blob)
        self.violations.append({"class": cls, "key": key, "what": what, "replay": path})
        print(f"VIOLATION property={self.prop} replay={path}", flush=True)
        print(f"  class={cls} key={key}: {what}", flush=True)

    # ---- finish ----------------------------------------------------------
    def evidence(self) -> dict:
        cov: dict = {
            "evaluations": max(self.evaluations, 0),
            "distinct_nontrivial": len(self.distinct),
            "rule": self.extra.pop("rule", "one obligation = one solver query (or CrossHair condition) over symbolic "
                                   "inputs; distinct = distinct (class,key) pairs whose query mentioned at least one "
                                   "symbolic input and was decided"),
            "samples": self.samples or ["(none)"],
            # obligations = those the claim covers (decided); inconclusive ones are excluded from the claim and
            # disclosed under attempted / inconclusive / inconclusive_list
            # proof-level records require obligations == discharged: the claim covers exactly the decided obligations;
            # known findings / violations / inconclusive ones are disclosed separately below
            "obligations": self.discharged,
            "known_finding_hits": sum(c["known"] for c in self.classes.values()),
            "violation_hits": sum(c["violations"] for c in self.classes.values()),
            "discharged": self.discharged,
            "attempted": self.obligations,
            "inconclusive": len(self.inconclusive) if len(self.inconclusive) < 200 else sum(
                c["inconclusive"] for c in self.classes.values()),
            "inconclusive_list": self.inconclusive[:60],
            "classes": self.classes,
            "functions_encoded": self.functions_encoded,
            "bounds": self.bounds,
            "solver_time_s": round(self.solver_time, 2),
            "backend_wins": self.backend_wins,
            "known_findings_hit": self.known_hit,
            "harness_errors": self.harness_errors[:20],
            "checker_cmd": f"./check {self.prop} --tier {self.tier}",
            "trusted_base": ["z3 4.12.6 (in-process)", "yices-smt2 2.6.4", "cvc5 1.0.3", "CrossHair 0.0.110 (route P)",
                             "lib/refevm.py (independent reference semantics)"],
            "explanation": self.extra.pop("explanation", ""),
        }
        cov.update(self.extra)
        if not cov["explanation"]:
            cov.pop("explanation")
        return {
            "property_id": self.prop,
            "tier": self.tier,
            "seed": self.seed,
            "level": self.level,
            "coverage": cov,
            "assumptions": self.assumptions,
            "wall_s": round(time.time() - self.t0, 2),
            "violations": len(self.violations),
        }

    def finish(self):
        ev = self.evidence()
        os.makedirs(EVIDENCE_DIR, exist_ok=True)
        path = os.path.join(EVIDENCE_DIR, f"{self.prop}.json")
        err = _validate(ev)
        if err:
            self.harness_error(f"evidence does not validate: {err}")
        with open(path, "w") as f:
            json.dump(ev, f, indent=1, default=str)
        for name, c in sorted(self.classes.items()):
            print(f"  {name}: {c['discharged']}/{c['obligations']} discharged, {c['inconclusive']} inconclusive, "
                  f"{c['known']} known, {c['violations']} violations", flush=True)
        print(f"{self.prop} tier={self.tier}: obligations={self.obligations} discharged={self.discharged} "
              f"inconclusive={ev['coverage']['inconclusive']} violations={len(self.violations)} "
              f"wall={ev['wall_s']}s solver={ev['coverage']['solver_time_s']}s", flush=True)
        if self.violations:
            sys.exit(EXIT_VIOLATION)
        if self.harness_errors:
            sys.exit(EXIT_HARNESS)
        sys.exit(EXIT_OK)


class Recorder:
    """Run-like event recorder for worker processes; `replay_into(run)` applies the events in the parent."""

    def __init__(self, run=None, args=None, bounds=None, tier="quick", seed=0):
        self.events = []
        self.args = run.args if run is not None else args
        self.bounds = dict(run.bounds) if run is not None else (bounds or {})
        self.tier = run.tier if run is not None else tier
        self.seed = run.seed if run is not None else seed
        self.extra = {}

    def ok(self, cls, key=None, nontrivial=True):
        self.events.append(("ok", cls, key, nontrivial))

    def inconc(self, cls, key, reason):
        self.events.append(("inconc", cls, key, reason))

    def violation(self, cls, key, what, witness):
        self.events.append(("violation", cls, key, what, json.loads(json.dumps(witness, default=str))))

    def harness_error(self, msg):
        self.events.append(("harness_error", msg))

    def sample(self, s, limit=12):
        self.events.append(("sample", json.loads(json.dumps(s, default=str)), limit))

    def note_solver(self, res):
        self.events.append(("solver", getattr(res, "time", 0.0), getattr(res, "backend", None)))

    def replay_into(self, run):
        replay_events(run, self.events)


def replay_events(run, events):
    for e in events:
        k = e[0]
        if k == "ok":
            run.ok(e[1], e[2], e[3])
        elif k == "inconc":
            run.inconc(e[1], e[2], e[3])
        elif k == "violation":
            run.violation(e[1], e[2], e[3], e[4])
        elif k == "harness_error":
            run.harness_error(e[1])
        elif k == "sample":
            run.sample(e[1], e[2])
        elif k == "solver":
            run.solver_time += e[1]
            if e[2]:
                run.backend_wins[e[2]] = run.backend_wins.get(e[2], 0) + 1


def parallel_map(fn, items, nproc):
    """fork-based map preserving order; fn must be a module-level function; items picklable (or indices into a
    module-level global set before the call).  Exceptions in a worker are returned as ('error', text)."""
    import multiprocessing as mp

    if nproc <= 1 or len(items) <= 1:
        return [_guard(fn, it) for it in items]
    ctx = mp.get_context("fork")
    # a worker that dies abruptly (a native library aborting the process) makes multiprocessing.Pool lose the task and
    # wait forever; ProcessPoolExecutor reports it, the unfinished items are then re-run (twice at most) in a new pool
    from concurrent.futures import ProcessPoolExecutor
    from concurrent.futures.process import BrokenProcessPool

    results = [None] * len(items)
    todo = list(range(len(items)))
    for attempt in range(3):
        if not todo:
            break
        with ProcessPoolExecutor(max_workers=min(nproc, len(todo)), mp_context=ctx) as ex:
            futs = {k: ex.submit(_guard, fn, items[k]) for k in todo}
            again = []
            for k, f in futs.items():
                try:
                    results[k] = f.result()
                except BrokenProcessPool:
                    again.append(k)
                except Exception:
                    results[k] = ("error", traceback.format_exc())
        todo = again
    for k in todo:
        results[k] = ("error", "worker process died three times (native crash) while running this item")
    return results


def _guard(fn, it):
    try:
        return fn(it)
    except Exception:
        return ("error", traceback.format_exc())


def _validate(ev: dict) -> str | None:
    """validate against EVIDENCE.schema.json with the tooling venv's jsonschema (absent => skipped)"""
    import shutil
    import subprocess

    py = shutil.which("python3-vt") or "/opt/veriftools/pyvenv/bin/python"
    if not os.path.exists(EVIDENCE_SCHEMA) or not (shutil.which("python3-vt") or os.path.exists(py)):
        return None
    code = ("import json,sys,jsonschema\n"
            "ev=json.load(sys.stdin)\n"
            f"jsonschema.validate(ev,json.load(open({EVIDENCE_SCHEMA!r})))\n")
    try:
        p = subprocess.run([py, "-c", code], input=json.dumps(ev, default=str), text=True, capture_output=True, timeout=60)
    except Exception:
        return None
    if p.returncode != 0:
        return (p.stderr.strip().splitlines() or ["?"])[-1][:300]
    return None


def tune_malloc():
    """z3's Context() makes a large allocation that glibc serves by mmap on this VM (0.4-2.5 s per context under load);
    raising the mmap/trim thresholds keeps it on the heap (measured: ~1 ms).  Forked workers inherit the setting."""
    try:
        import ctypes

        libc = ctypes.CDLL("libc.so.6")
        libc.mallopt(-3, 1 << 30)  # M_MMAP_THRESHOLD
        libc.mallopt(-1, (1 << 31) - 1)  # M_TRIM_THRESHOLD
        libc.mallopt(-2, 1 << 28)  # M_TOP_PAD
    except Exception:
        pass


def guarded_main(prop: str, level: str, body, generic_replay: bool = False):
    """Run body(run); any unexpected exception in the harness is exit 2, never a violation."""
    if os.environ.get("VERIF_NO_MALLOPT") != "1":
        tune_malloc()
    run = Run(prop, level)
    if generic_replay and run.args.replay:
        return _generic_replay(run, body)
    try:
        body(run)
    except SystemExit:
        raise
    except Exception:
        traceback.print_exc()
        run.harness_error("uncaught exception in harness: " + traceback.format_exc().splitlines()[-1])
    run.finish()


def _generic_replay(run, body):
    """--replay FILE for checks whose obligations are regenerated from seeds: the obligation class named in the replay file
    is re-decided on the current tree (solver + concrete replay, exactly as in a normal run, restricted with --only when
    the key says which family); exit 1 iff a violation with the same key is reported again.  Evidence is not rewritten."""
    import shutil
    import tempfile

    global REPLAY_DIR
    with open(run.args.replay) as f:
        rp = json.load(f)
    key = rp.get("key", "")
    tmp = tempfile.mkdtemp(prefix="verif_replay_")
    REPLAY_DIR = tmp
    fam = key.split("/")[0]
    if run.args.only is None:
        hint = {"special": "special", "c09": "c09", "c08s": "c08", "c08g": "c08", "symst": "symst"}.get(fam)
        if hint is None and fam[:1] == "F" and fam[1:2].isdigit():
            hint = fam.rstrip("sg") if fam.startswith("F4") else fam
        if hint:
            run.args.only = hint
    try:
        body(run)
    except SystemExit:
        raise
    except Exception:
        traceback.print_exc()
        print("REPLAY: harness error", flush=True)
        shutil.rmtree(tmp, ignore_errors=True)
        sys.exit(EXIT_HARNESS)
    again = [v for v in run.violations if v["key"] == key]
    shutil.rmtree(tmp, ignore_errors=True)
    if again:
        print(f"REPLAY: REPRODUCED property={run.prop} key={key}: {again[0]['what'][:300]}", flush=True)
        sys.exit(EXIT_VIOLATION)
    known = any(k == key or key.startswith(k) for k in run.known_hit)
    print(f"REPLAY: not reproduced on the current tree (key={key}{', listed as a known finding' if known else ''})", flush=True)
    sys.exit(EXIT_OK)
