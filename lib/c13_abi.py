"""C13: independent canonical ABI encoder over symbolic 256-bit words, abstract operand values and the
relation each vm.assert* signature states.  Shares no code with halmos (z3 only).

Abstract values
    word types     : a 256-bit z3 term
    bytes / string : list of 8-bit z3 terms
    T[]            : list of values of T
`encode(types, values)` is the Solidity ABI head/tail encoding (canonical: tails in parameter order, offsets
relative to the start of the enclosing tuple, bytes right-padded with zeros to a multiple of 32).
"""

from __future__ import annotations

import z3

from lib.c13_sigs import BYTES_TYPES, WORD_TYPES, Sem


def bv(v, n=256):
    return z3.BitVecVal(v, n)


# ---------------------------------------------------------------------------
# encoder
# ---------------------------------------------------------------------------
def is_dynamic(t: str) -> bool:
    return t.endswith("[]") or t in BYTES_TYPES


def _pad_words(bs: list) -> list:
    out = []
    for i in range(0, len(bs), 32):
        chunk = list(bs[i:i + 32])
        chunk += [bv(0, 8)] * (32 - len(chunk))
        out.append(z3.simplify(z3.Concat(*chunk)))
    return out


def enc_value(t: str, v) -> list:
    """-> list of 256-bit terms (for a dynamic type: its tail)"""
    if t.endswith("[]"):
        et = t[:-2]
        return [bv(len(v))] + enc_tuple([et] * len(v), list(v))
    if t in BYTES_TYPES:
        return [bv(len(v))] + _pad_words(v)
    if t in WORD_TYPES:
        assert z3.is_bv(v) and v.size() == 256
        return [v]
    raise ValueError(t)


def enc_tuple(types: list, values: list, tail_order=None) -> list:
    """tail_order: permutation of the indices of the dynamic members (None = canonical, parameter order)"""
    heads: list = [None] * len(types)
    tails = {}
    for i, (t, v) in enumerate(zip(types, values)):
        if is_dynamic(t):
            tails[i] = enc_value(t, v)
        else:
            heads[i] = enc_value(t, v)[0]
    order = list(tails) if tail_order is None else [i for i in tail_order if i in tails]
    assert sorted(order) == sorted(tails)
    pos = 32 * len(types)
    tail_words: list = []
    for i in order:
        heads[i] = bv(pos)
        tail_words += tails[i]
        pos += 32 * len(tails[i])
    return heads + tail_words


def calldata_words(sem: Sem, values: list, tail_order=None) -> list:
    return enc_tuple(sem.param_types, values, tail_order)


# ---------------------------------------------------------------------------
# symbolic operand values
# ---------------------------------------------------------------------------
def fresh_word(name):
    return z3.BitVec(name, 256)


def fresh_bytes(name, n):
    return [z3.BitVec(f"{name}_{i}", 8) for i in range(n)]


def canon(t: str, v) -> list:
    """well-formedness of an ABI value of type t (what every Solidity encoder guarantees)"""
    if t.endswith("[]"):
        out = []
        for e in v:
            out += canon(t[:-2], e)
        return out
    if t == "bool":
        return [z3.ULE(v, bv(1))]
    if t == "address":
        return [z3.Extract(255, 160, v) == bv(0, 96)]
    return []


# ---------------------------------------------------------------------------
# the stated relation
# ---------------------------------------------------------------------------
def _sign(a):
    return z3.Extract(255, 255, a) == bv(1, 1)


def slt(a, b):
    """two's complement a < b, written without z3's signed operators"""
    sa, sb = _sign(a), _sign(b)
    return z3.If(sa == sb, z3.ULT(a, b), sa)


def eq_value(t: str, a, b):
    if t.endswith("[]"):
        if len(a) != len(b):
            return z3.BoolVal(False)
        return z3.And([z3.BoolVal(True)] + [eq_value(t[:-2], x, y) for x, y in zip(a, b)])
    if t in BYTES_TYPES:
        if len(a) != len(b):
            return z3.BoolVal(False)
        return z3.And([z3.BoolVal(True)] + [x == y for x, y in zip(a, b)])
    if t == "bool":
        return (a != bv(0)) == (b != bv(0))
    if t == "address":
        return z3.Extract(159, 0, a) == z3.Extract(159, 0, b)
    return a == b


def relation(sem: Sem, ops: list):
    """the relation the signature states, over the abstract operand values; None = the harness has no spec"""
    t = sem.typ + ("[]" if sem.array else "")
    if sem.op == "True":
        return ops[0] != bv(0)
    if sem.op == "False":
        return ops[0] == bv(0)
    if sem.op == "Eq":
        return eq_value(t, ops[0], ops[1])
    if sem.op == "NotEq":
        return z3.Not(eq_value(t, ops[0], ops[1]))
    if sem.op in ("Lt", "Gt", "Le", "Ge"):
        if sem.array or sem.typ not in ("uint256", "int256"):
            return None
        a, b = ops
        lt = (lambda x, y: slt(x, y)) if sem.signed else (lambda x, y: z3.ULT(x, y))
        if sem.op == "Lt":
            return lt(a, b)
        if sem.op == "Gt":
            return lt(b, a)
        if sem.op == "Le":
            return z3.Not(lt(b, a))
        return z3.Not(lt(a, b))
    return None


# ---------------------------------------------------------------------------
# shapes: which operand sizes / aliasing / concreteness a case uses (enumerated bound)
# ---------------------------------------------------------------------------
def mk_operand(sem: Sem, name: str, n: int | None, concrete: bool = False):
    """one operand of the signature's operand type; n = length for dynamic types"""
    if sem.array:
        if sem.typ in BYTES_TYPES:
            return [fresh_bytes(f"{name}{k}", 1 + k) for k in range(n)]
        if concrete:
            return [bv((k + 1) % 2 if sem.typ == "bool" else 0x1111 * (k + 1)) for k in range(n)]
        return [fresh_word(f"{name}{k}") for k in range(n)]
    if sem.typ in BYTES_TYPES:
        if concrete:
            return [bv((0x41 + k) & 0xFF, 8) for k in range(n)]
        return fresh_bytes(name, n)
    if concrete:
        return bv(1)
    return fresh_word(name)


def mk_case(sem: Sem, shape: dict):
    """shape: n1, n2 (lengths, dynamic operand types only), alias ('none' | 'same' | 'prefix'),
    conc ('none' | 'lhs' | 'rhs'), msg (length of the error string, symbolic content; -1 = concrete 'err'),
    extra words are fresh symbols.  -> (param values, operand values, canon constraints)"""
    t = sem.typ + ("[]" if sem.array else "")
    dyn = is_dynamic(t)
    n1 = shape.get("n1", 0) if dyn else None
    n2 = shape.get("n2", 0) if dyn else None
    alias = shape.get("alias", "none")
    conc = shape.get("conc", "none")
    a = mk_operand(sem, "a", n1, concrete=(conc == "lhs"))
    if conc == "both" and not dyn:
        a = bv(shape["vals"][0])
    ops = [a]
    if sem.nops == 2:
        if conc == "both" and not dyn:
            b = bv(shape["vals"][1])
        elif alias == "same":
            b = a
        elif alias == "prefix" and dyn:
            # the shorter operand is a prefix of the longer one ([x] vs [x,y])
            full = mk_operand(sem, "b", max(n1, n2), concrete=(conc == "rhs"))
            k = min(n1, n2)
            if n1 <= n2:
                b = list(a[:k]) + list(full[k:n2])
            else:
                b = list(a[:n2])
        else:
            b = mk_operand(sem, "b", n2, concrete=(conc == "rhs"))
        ops.append(b)
    values = list(ops)
    for k in range(sem.extra):
        values.append(fresh_word(f"extra{k}"))
    if sem.has_msg:
        m = shape.get("msg", 0)
        values.append([bv(c, 8) for c in b"err"] if m < 0 else fresh_bytes("msg", m))
    cs = []
    for o in ops:
        cs += canon(t, o)
    return values, ops, cs
