"""C05 part 3: the real run_test / run_contract / _main driven with hand-assembled contracts and a scripted stub solver.

A *scenario* fixes
  outcomes   one of {success, revert, panic, failflag, stuck} per path of the test function (paths are selected by
             `arg0 == MARK_j`; every other input takes a plain revert, which contributes to no count),
  replies    the scripted answer of the "solver" for the query of each path (first query and, when the query is
             refinable, the refined query), with per-query delays that force a completion order,
  options    --early-exit, --cache-solver, --solver-threads.
The stub recognises the path a query belongs to by the marker constants that occur in the query text, so no
assumption about halmos' path numbering is made.  `expected_counts` is the bookkeeping specification (what each
scripted reply is *documented* to mean); the predicted verdict is the function proved in part 1 applied to it.
"""

from __future__ import annotations

import json
import os
import re
import sys
import time

from lib import e2e

MARK_BASE = 0xC05A0000
TIMING = {"timeout": 5.0, "delay": 0.4}  # overwritten by calibrate() in the parent before the workers are forked
OUTCOMES = ("success", "revert", "panic", "failflag", "stuck", "stuckcallee")
QUERYING = ("panic", "failflag", "stuck", "stuckcallee")

# reply kind -> documented classification of the solver output
REPLY_CLASS = {
    "sat_model": "sat",      # sat + model of halmos variables              -> counterexample (valid)
    "sat_abs": "sat",        # sat + model mentioning f_evm_* abstraction   -> counterexample (potentially invalid)
    "unsat": "unsat",
    "unknown": "unknown",
    "timeout": "unknown",    # sleeps past --solver-timeout-assertion       -> unknown (solve_low_level)
    "garbage": "err",
    "empty": "err",
    "exit3": "err",          # no output, stderr text, exit status 3
    # thorough extras
    "unsat_prefix": "err",   # first line "unsatisfiable-core-error"
    "err_then_unsat": "err",  # "(error ...)" first, "unsat" on the second line
    "unsat_exit3": "unsat",  # first line exactly "unsat" but exit status 3: halmos documents that only the first line
                             # counts (z3 itself exits 1 after unsat because (get-model) fails)
    "sat_space": "err",      # "sat " with a trailing blank is not a recognised answer
}
REPLIES_CORE = ("sat_model", "sat_abs", "unsat", "unknown", "timeout", "garbage", "empty", "exit3")
REPLIES_EXTRA = ("unsat_prefix", "err_then_unsat", "unsat_exit3", "sat_space")

STUB_SRC = r'''
# scripted stub solver: no imports beyond the frozen builtins (start-up latency matters on a loaded machine)
import os, sys, time
plan = eval(open(sys.argv[1]).read())
qfile = sys.argv[-1]
try:
    text = open(qfile).read()
except Exception as e:
    text = ""
low = text.lower()
present = [m for m in plan["replies"] if ("bv%d " % int(m, 16)) in text or ("#x" + "0" * 56 + m.lower()) in low]
refined = qfile.endswith(".refined.smt2")
key = max(present, key=lambda m: int(m, 16)) if present else None
ent = plan["replies"].get(key) if key else None
if ent is None:
    kind, delay = plan.get("default", "unknown"), 0.0
else:
    kind = ent["refined"] if refined and ent.get("refined") else ent["first"]
    delay = ent.get("delay_refined", 0.0) if refined else ent.get("delay", 0.0)
want_core = "(get-unsat-core)" in text
rec = '{"q": "%s", "key": %s, "refined": %s, "kind": "%s", "t": %.3f, "core": %s, "fevm": %s}\n' % (
    os.path.basename(qfile), ('"%s"' % key) if key else "null", "true" if refined else "false", kind, time.time(),
    "true" if want_core else "false", "true" if "f_evm_" in text else "false")
fd = os.open(plan["log"], os.O_WRONLY | os.O_APPEND | os.O_CREAT, 0o644)
os.write(fd, rec.encode())
os.close(fd)
if kind == "timeout":
    time.sleep(plan.get("sleep", 30.0))
    sys.stdout.write("unsat\n")   # a late answer must never be used
    sys.exit(0)
if delay:
    time.sleep(delay)
core = ""
if want_core:
    ids, pos = [], 0
    while True:
        pos = text.find(":named <", pos)
        if pos < 0:
            break
        end = text.find(">", pos)
        ids.append(text[pos + 7:end + 1])
        pos = end
    core = "(" + " ".join(ids) + ")\n"
out, err, rc = "", "", 0
if kind == "sat_model":
    out = "sat\n(\n  (define-fun p_p0_uint256_c05_00 () (_ BitVec 256) #x%064x)\n)\n" % (int(key, 16) if key else 0)
elif kind == "sat_abs":
    out = ("sat\n(\n  (define-fun p_p0_uint256_c05_00 () (_ BitVec 256) #x%064x)\n"
           "  (define-fun f_evm_bvudiv_256 ((x!0 (_ BitVec 256)) (x!1 (_ BitVec 256))) (_ BitVec 256) #x%064x)\n)\n"
           % (int(key, 16) if key else 0, 7))
elif kind == "unsat":
    out, rc = "unsat\n(error \"line 9 column 10: model is not available\")\n" + core, 1
elif kind == "unsat_exit3":
    out, err, rc = "unsat\n" + core, "boom", 3
elif kind == "unknown":
    out = "unknown\n(error \"model is not available\")\n"
elif kind == "garbage":
    out = "Segmentation fault (core dumped)\nunsat\n"
elif kind == "empty":
    out = ""
elif kind == "exit3":
    out, err, rc = "", "stub: simulated crash\n", 3
elif kind == "unsat_prefix":
    out = "unsatisfiable-core-error\n"
elif kind == "err_then_unsat":
    out = "(error \"unsupported option\")\nunsat\n"
elif kind == "sat_space":
    out = "sat \n(\n)\n"
else:
    out = "unknown\n"
sys.stdout.write(out)
sys.stderr.write(err)
sys.stdout.flush()
sys.stderr.flush()
try:
    t_q = os.stat(qfile).st_mtime   # halmos writes the query right before it starts the solver
except Exception:
    t_q = 0.0
now = time.time()
rec = '{"q": "%s", "done": true, "t": %.3f, "lat": %.3f}\n' % (os.path.basename(qfile), now, now - t_q)
fd = os.open(plan["log"], os.O_WRONLY | os.O_APPEND | os.O_CREAT, 0o644)
os.write(fd, rec.encode())
os.close(fd)
sys.exit(rc)
'''


def marker(t: int, j: int) -> int:
    return MARK_BASE + 16 * t + j + 1


def marker_hex(t: int, j: int) -> str:
    return "%08x" % marker(t, j)


def write_stub(d: str) -> str:
    p = os.path.join(d, "stub_solver.py")
    with open(p, "w") as f:
        f.write(STUB_SRC)
    return p


def calibrate(d: str, stub: str, n: int = 6) -> dict:
    """latency of the stub process on this machine right now -> timeout / order delay used by the scenarios"""
    import subprocess

    pf, _ = make_plan(d, "calib", [(0, ("panic",), [("unsat", None)], None)], 1.0)
    q = os.path.join(d, "calib.smt2")
    with open(q, "w") as f:
        f.write("(assert (= x (_ bv%d 256)))\n" % marker(0, 0))
    ts = []
    for _ in range(n):
        t0 = time.time()
        subprocess.run(solver_command(stub, pf).split() + [q], capture_output=True)
        ts.append(time.time() - t0)
    lat = max(ts)
    return {"latency_max": round(lat, 3), "latency_min": round(min(ts), 3),
            "timeout": round(min(8.0, max(5.0, 4 * lat + 1.0)), 2), "delay": round(min(0.8, max(0.3, 2 * lat)), 2)}


def solver_command(stub: str, plan_file: str) -> str:
    return f"{sys.executable} -S -E {stub} {plan_file}"


# ---------------------------------------------------------------------------
# contracts
# ---------------------------------------------------------------------------
def outcome_code(o: str) -> list:
    if o == "success":
        return ["STOP"]
    if o == "revert":
        return ["PUSH0", "PUSH0", "REVERT"]
    if o == "panic":
        return e2e.panic(1)
    if o == "failflag":
        return e2e.fail_flag() + ["STOP"]
    if o == "stuck":
        # MLOAD at a symbolic offset (second argument): halmos ends the path with NotConcreteError
        return e2e.arg(1) + ["MLOAD", "POP", "STOP"]
    if o == "stuckcallee":
        # the same internal error, but inside a nested frame (a call to this contract's helper)
        return e2e.ext_call(["ADDRESS"], "stuckhelper(uint256)", words=[e2e.arg(1)]) + ["POP", "STOP"]
    raise ValueError(o)


def fn_body(t: int, outcomes, refinable: bool) -> list:
    items = []
    if refinable:
        # `arg2 / arg3 == 7` -> plain revert; every later query then declares f_evm_bvudiv_256, so an invalid (abstract)
        # model makes halmos refine and re-solve
        items += e2e.arg(3) + e2e.arg(2) + ["DIV", ("PUSH", 7), "EQ", ("PUSHL", "dflt"), "JUMPI"]
    for j, _ in enumerate(outcomes):
        items += e2e.arg(0) + [("PUSH", marker(t, j), 4), "EQ", ("PUSHL", f"o{j}"), "JUMPI"]
    items += [("LABEL", "dflt"), "PUSH0", "PUSH0", "REVERT"]
    for j, o in enumerate(outcomes):
        items += [("LABEL", f"o{j}")] + outcome_code(o)
    return items


def fn_sig(t: int) -> str:
    return f"check_t{t}(uint256,uint256,uint256,uint256)"


def build_spec(name: str, tests: list, refinable=False, setup: str | None = None) -> e2e.Spec:
    """tests: list of outcome tuples (one test function each)"""
    fns = []
    if setup == "ok":
        fns.append(("setUp()", [("PUSH", 5), ("PUSH", 0), "SSTORE"]))
    elif setup == "revert":
        fns.append(("setUp()", ["PUSH0", "PUSH0", "REVERT"]))
    for t, outcomes in tests:
        fns.append((fn_sig(t), fn_body(t, outcomes, refinable)))
    if any("stuckcallee" in outcomes for _, outcomes in tests):
        fns.append(("stuckhelper(uint256)", e2e.arg(0) + ["MLOAD", "POP", "STOP"]))
    return e2e.Spec(name, fns=fns)


# ---------------------------------------------------------------------------
# bookkeeping specification: scripted scenario -> counts
# ---------------------------------------------------------------------------
def final_reply_class(first: str, refined: str | None, refinable: bool, asynchronous: bool) -> str:
    """documented meaning of the scripted reply chain of one query"""
    c = REPLY_CLASS[first]
    if asynchronous and first == "sat_abs" and refinable:
        # solve_end_to_end: sat with an invalid model on a refinable query -> the refined query decides
        return REPLY_CLASS[refined or first]
    return c


def expected_counts(outcomes, replies, refinable: bool) -> dict:
    """replies[j] = (first, refined|None) for querying paths, None otherwise"""
    c = {"sat": 0, "unsat": 0, "unknown": 0, "err": 0, "stuck": 0, "normal": 0, "valid_sat": 0}
    for o, r in zip(outcomes, replies):
        if o == "success":
            c["normal"] += 1
        elif o in ("panic", "failflag"):
            k = final_reply_class(r[0], r[1], refinable, True)
            c[k] += 1
            last = r[1] if (r[0] == "sat_abs" and refinable and r[1]) else r[0]
            if k == "sat" and last == "sat_model":
                c["valid_sat"] += 1
        elif o in ("stuck", "stuckcallee"):
            # run_test confirms a stuck path with one synchronous solve_low_level: anything but unsat keeps it stuck
            if final_reply_class(r[0], None, refinable, False) != "unsat":
                c["stuck"] += 1
    return c


# ---------------------------------------------------------------------------
# running one scenario (inside a worker process)
# ---------------------------------------------------------------------------
def make_plan(d: str, tag: str, tests, timeout_sleep: float) -> tuple[str, str]:
    """tests: list of (t, outcomes, replies, delays)"""
    log = os.path.join(d, f"{tag}.log")
    plan = {"replies": {}, "log": log, "sleep": timeout_sleep, "default": "unknown"}
    for t, outcomes, replies, delays in tests:
        for j, (o, r) in enumerate(zip(outcomes, replies)):
            if o in QUERYING:
                dl = delays[j] if delays else 0.0
                plan["replies"][marker_hex(t, j)] = {"first": r[0], "refined": r[1], "delay": dl, "delay_refined": 0.0}
    pf = os.path.join(d, f"{tag}.plan.json")
    with open(pf, "w") as f:
        f.write(repr(plan))
    return pf, log


def read_log(log: str) -> list:
    """start records of the stub, each completed with `done` / `lat` (seconds from the query file's mtime to the end of
    the stub, scripted delay included) when the stub ran to completion"""
    try:
        with open(log) as f:
            recs = [json.loads(ln) for ln in f if ln.strip()]
    except FileNotFoundError:
        return []
    starts = [r for r in recs if not r.get("done")]
    for r in starts:
        r["done"] = False
    for d in (r for r in recs if r.get("done") and "kind" not in r):
        for r in starts:
            if r["q"] == d["q"] and not r["done"]:
                r["done"], r["lat"] = True, d["lat"]
                break
    return starts


def slow_queries(log: list, tmo: float) -> list:
    """stub invocations that were killed before they finished, or took a sizeable part of the solver timeout: the
    run says nothing about halmos (machine load), it is discarded"""
    out = []
    for r in log:
        if r.get("kind") == "timeout":
            continue
        if not r.get("done"):
            out.append(f"{r['q']}: stub did not finish")
        elif r.get("lat", 0.0) > 0.6 * tmo:
            out.append(f"{r['q']}: {r['lat']:.2f}s of a {tmo:.2f}s timeout")
    return out


def run_scenario(sc: dict, d: str, stub: str, scale: float = 1.0) -> dict:
    """sc: {id, outcomes, replies, delays, early_exit, cache_solver, refinable, threads}"""
    tag = re.sub(r"[^A-Za-z0-9]+", "_", sc["id"])[:80] + "_%d" % (time.time_ns() % 10 ** 9)
    outcomes, replies = sc["outcomes"], sc["replies"]
    delays = [x * TIMING["delay"] * scale for x in sc.get("delays") or [0.0] * len(outcomes)]  # units of the order delay
    tmo = sc.get("timeout", TIMING["timeout"]) * scale
    pf, log = make_plan(d, tag, [(0, outcomes, replies, delays)], timeout_sleep=tmo + 20)
    spec = build_spec("C05T", [(0, outcomes)], refinable=sc.get("refinable", False), setup=sc.get("setup"))
    over = dict(solver_command=solver_command(stub, pf), solver_timeout_assertion=tmo,
                early_exit=bool(sc.get("early_exit")), cache_solver=bool(sc.get("cache_solver")))
    if sc.get("threads"):
        over["solver_threads"] = sc["threads"]
    if sc.get("fs_fault"):
        # file-system fault at the point where halmos saves a failed query for debugging: regular files sit where it
        # wants to create the sibling directories `<dump dir>-timeout` / `<dump dir>-error`
        dd = os.path.join(d, tag + "_dump")
        os.makedirs(dd, exist_ok=True)
        for sfx in ("timeout", "error"):
            with open(os.path.join(dd, f"check_t0-{sfx}"), "w") as f:
                f.write("in the way\n")
        over["dump_smt_directory"] = dd
    t0 = time.time()
    o = e2e.run(spec, **over)
    dt = time.time() - t0
    obs = {"id": sc["id"], "seconds": round(dt, 2), "exception": repr(o.exception) if o.exception else None,
           "n_results": len(o.results), "log": read_log(log), "timeout": tmo}
    obs["slow"] = slow_queries(obs["log"], tmo)
    if o.results:
        r = o.results[0]
        obs.update(exitcode=r.exitcode, num_models=r.num_models, num_paths=list(r.num_paths) if r.num_paths else None)
    line = o.line("check_t0")
    m = re.search(r"\[(PASS|FAIL|ERROR|TIMEOUT)\]", line)
    obs["label"] = m.group(0) if m else None
    obs["errors"] = [msg[:200] for lvl, msg in o.warnings if lvl in ("ERROR", "CRITICAL")][:6]
    obs["warnings"] = [msg[:160] for lvl, msg in o.warnings if lvl == "WARNING"][:6]
    return obs


def run_main_scenario(sc: dict, d: str, stub: str, scale: float = 1.0) -> dict:
    """sc: {id, contracts: [{name, setup, tests: [(outcomes, replies)]}], early_exit, cache_solver}"""
    tag = re.sub(r"[^A-Za-z0-9]+", "_", sc["id"])[:80] + "_%d" % (time.time_ns() % 10 ** 9)
    tmo = sc.get("timeout", TIMING["timeout"]) * scale
    plan_tests, specs, t = [], [], 0
    sel = []
    for c in sc["contracts"]:
        tests = []
        for outcomes, replies in c["tests"]:
            plan_tests.append((t, outcomes, replies, None))
            tests.append((t, outcomes))
            sel.append((c["name"], fn_sig(t)))
            t += 1
        specs.append(build_spec(c["name"], tests, refinable=False, setup=c.get("setup")))
    pf, log = make_plan(d, tag, plan_tests, timeout_sleep=tmo + 20)
    argv = ["--function", "check_", "--solver-command", solver_command(stub, pf),
            "--solver-timeout-assertion", f"{int(tmo * 1000)}ms"]
    if sc.get("early_exit"):
        argv.append("--early-exit")
    if sc.get("cache_solver"):
        argv.append("--cache-solver")
    t0 = time.time()
    o = e2e.run_main(specs, argv)
    obs = {"id": sc["id"], "seconds": round(time.time() - t0, 2),
           "exception": repr(o.exception) if o.exception else None,
           "main_exit": o.main.exitcode if o.main is not None else None,
           "results": {r.name: r.exitcode for r in o.results}, "selected": sel, "log": read_log(log), "timeout": tmo,
           "errors": [msg[:200] for lvl, msg in o.warnings if lvl in ("ERROR", "CRITICAL")][:6]}
    m = re.findall(r"Symbolic test result: (\d+) passed; (\d+) failed", o.stdout)
    obs["summary"] = [(int(a), int(b)) for a, b in m]
    obs["slow"] = slow_queries(obs["log"], tmo)
    return obs
