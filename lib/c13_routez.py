"""C13 route Z: the real assert handler's `cond` against the relation the signature states, per selector and shape."""

from __future__ import annotations

import z3

from lib import c13_abi as abi
from lib import portfolio
from lib.c13_sevm import mk_bytevec
from lib.c13_sigs import BYTES_TYPES, Sem
from lib.portfolio import free_consts


def shapes_for(sem: Sem, tier: str) -> list[dict]:
    t_dyn = sem.array or sem.typ in BYTES_TYPES
    msgs = [0, 3, -1] if sem.has_msg else [None]
    out = []
    if not t_dyn:
        base = [dict(alias="none"), dict(conc="lhs")]
        if sem.nops == 2:
            base += [dict(alias="same"), dict(conc="rhs")]
        for i, b in enumerate(base):
            for m in (msgs if i == 0 else msgs[:1]):
                s = dict(b)
                if m is not None:
                    s["msg"] = m
                out.append(s)
        # both operands concrete (the handlers' concrete fast paths): boundary pairs incl. opposite signs
        if sem.nops == 2:
            M = (1 << 256) - 1
            pairs = [(M, 0), (0, M), (1 << 255, 1), (1, 1 << 255), (5, 5), ((1 << 255) - 1, 1 << 255), (M, M - 1)] \
                if sem.typ in ("uint256", "int256") else [(1, 0), (1, 1), (0, 1)]
            for pr in pairs:
                s = dict(conc="both", vals=pr)
                if msgs[0] is not None:
                    s["msg"] = msgs[0]
                out.append(s)
        return out
    if sem.array:
        lens = [0, 1, 2] if tier == "quick" else [0, 1, 2, 3]
    else:
        lens = [0, 1, 2, 33] if tier == "quick" else [0, 1, 2, 31, 32, 33, 64, 65]
    first = True
    for n1 in lens:
        for n2 in lens:
            variants = [dict(alias="none")]
            if n1 == n2 and n1 > 0:
                variants.append(dict(alias="same"))
            if n1 != n2 and min(n1, n2) > 0:
                variants.append(dict(alias="prefix"))
            if n1 > 0 and n2 > 0 and not (sem.array and sem.typ in BYTES_TYPES):
                variants.append(dict(conc="lhs"))
                if tier == "thorough":
                    variants.append(dict(conc="rhs"))
            for v in variants:
                for m in (msgs if first else msgs[:1]):
                    s = dict(n1=n1, n2=n2, **v)
                    if m is not None:
                        s["msg"] = m
                    out.append(s)
                first = False
    return out


def shape_key(s: dict) -> str:
    return ",".join(f"{k}={s[k]}" for k in sorted(s))


def real_cond(sem: Sem, words):
    """the real handler on calldata built from `words`; -> z3 Bool term"""
    from halmos.assertions import assert_cheatcode_handler

    data = mk_bytevec(sem.selector.to_bytes(4, "big"), words)
    va = assert_cheatcode_handler[sem.selector](data)
    c = va.cond
    if isinstance(c, bool):
        c = z3.BoolVal(c)
    if not z3.is_bool(c):
        raise TypeError(f"handler returned a condition of type {type(c).__name__}")
    return c


def concretise(term, model: dict, syms):
    subs = [(s, z3.BitVecVal(int(model.get(str(s), 0)), s.size())) for s in syms]
    return z3.simplify(z3.substitute(term, *subs)) if subs else z3.simplify(term)


def check_selector(rc, sem: Sem, tier: str, timeout: float, layouts=("canonical",)) -> dict:
    """all shapes of one selector; returns stats"""
    stats = {"cases": 0, "nonconst": 0, "raised": 0}
    cls = "routeZ-handler"
    for shape in shapes_for(sem, tier):
        for layout in layouts:
            values, ops, canon = abi.mk_case(sem, shape)
            rel = abi.relation(sem, ops)
            key = f"{sem.sig}:{shape_key(shape)}" + ("" if layout == "canonical" else f":layout={layout}")
            if rel is None:
                rc.inconc(cls, key, "the harness has no specification for this operator")
                continue
            order = None
            if layout == "reversed":
                dyn = [i for i, t in enumerate(sem.param_types) if abi.is_dynamic(t)]
                if len(dyn) < 2:
                    continue
                order = list(reversed(dyn))
            words = abi.enc_tuple(sem.param_types, values, order)
            try:
                cond = real_cond(sem, words)
            except NotImplementedError as e:
                stats["raised"] += 1
                rc.ok("unsupported-raises", f"{sem.sig}:{shape_key(shape)}", nontrivial=False)
                stats.setdefault("raise_text", str(e))
                continue
            stats["cases"] += 1
            syms = [s for s in free_consts([z3.And([z3.BoolVal(True)] + canon), rel] + words) if z3.is_bv(s)]
            # vacuity: the well-formedness assumptions are satisfiable
            if canon:
                r0 = portfolio.solve(canon, timeout=timeout)
                if r0.status != "sat":
                    rc.harness_error(f"{key}: canonicity assumptions not satisfiable ({r0.status})")
                    continue
            res = portfolio.solve(canon + [cond != rel], timeout=timeout, model_consts=syms)
            rc.note_solver(res)
            if not (z3.is_true(z3.simplify(rel)) or z3.is_false(z3.simplify(rel))):
                stats["nonconst"] += 1
            if res.status == "unsat":
                rc.ok(cls, key, nontrivial=bool(syms))
                if stats["cases"] == 1:
                    rc.sample({"sig": sem.sig, "shape": shape, "cond": str(z3.simplify(cond))[:160], "verdict": "unsat"}, limit=6)
            elif res.status == "sat":
                model = {str(s): int(res.model.get(str(s), 0)) for s in syms}
                cwords = [concretise(w, model, syms) for w in words]
                try:
                    ccond = z3.simplify(real_cond(sem, cwords))
                except Exception as e:
                    ccond = f"exception {type(e).__name__}: {e}"
                crel = concretise(rel, model, syms)
                ccanon = all(z3.is_true(concretise(c, model, syms)) for c in canon)
                if ccanon and z3.is_expr(ccond) and (z3.is_true(ccond) or z3.is_false(ccond)) and \
                        (z3.is_true(crel) or z3.is_false(crel)) and z3.is_true(ccond) != z3.is_true(crel):
                    rc.violation(cls, key,
                                 f"vm.{sem.sig}: handler condition is {ccond} but the stated relation is {crel} on the witness",
                                 {"sig": sem.sig, "selector": hex(sem.selector), "shape": shape, "layout": layout,
                                  "calldata_words": [hex(w.as_long()) for w in cwords],
                                  "handler_cond_symbolic": str(z3.simplify(cond))[:400],
                                  "handler_cond_on_witness": str(ccond), "relation_on_witness": str(crel)})
                else:
                    rc.inconc(cls, key, f"model did not reproduce on the real handler (cond={ccond}, rel={crel})")
            elif res.status == "disagree":
                rc.harness_error(f"{key}: back ends disagree {res.answers}")
            else:
                rc.inconc(cls, key, f"solver {res.status} {res.answers}")
    return stats
