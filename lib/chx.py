"""Route P runner: CrossHair conditions as parallel subprocesses, verdict parsing, reachability twins, replay.

A *harness module* is an ordinary Python file whose top-level functions carry PEP-316 docstring contracts
(`pre:` lines and exactly one `post: __return__` line) and return True iff the property held on their (symbolic)
arguments.  For every such function this module can

* run `crosshair check --report_all --per_condition_timeout T file.py:LINE` in the overlay venv (/verif/.venv, z3 5.x,
  therefore only for code paths that make no z3 call) with halmos imported from VERIF_REPO_SRC,
* derive the *reachability twin* mechanically (same source, `post: False`): it must be refuted, otherwise the
  harness is vacuous,
* replay a counterexample natively under /venv/bin/python (the pinned interpreter, real halmos code).

Verdict statuses
  confirmed       "Confirmed over all paths"            -> holds for all inputs satisfying the preconditions
  counterexample  "false when calling f(..)" / exception -> `call` holds the printed call; must be replayed
  notconfirmed    "Not confirmed"                       -> inconclusive
  precondition    "Unable to meet precondition"         -> inconclusive (vacuous)
  timeout / error                                       -> inconclusive / harness problem
"""

from __future__ import annotations

import ast
import concurrent.futures as cf
import json
import os
import re
import subprocess
import sys
import time
from dataclasses import dataclass, field

VERIF = os.path.dirname(os.path.dirname(os.path.abspath(__file__)))
CROSSHAIR = os.path.join(VERIF, ".venv", "bin", "crosshair")
NATIVE_PY = "/venv/bin/python"
REPO_SRC = os.environ.get("VERIF_REPO_SRC", "/repo/src")

POST_RE = re.compile(r"^(\s*)post:\s*__return__\s*$", re.M)


def ensure_venv() -> str | None:
    """build the overlay venv if it is missing; returns an error string or None"""
    if os.access(CROSSHAIR, os.X_OK):
        return None
    p = subprocess.run([os.path.join(VERIF, "setup.sh")], capture_output=True, text=True, timeout=900)
    if p.returncode != 0 or not os.access(CROSSHAIR, os.X_OK):
        return f"setup.sh failed: {(p.stdout + p.stderr)[-300:]}"
    return None


def child_env(extra_path=()) -> dict:
    env = dict(os.environ)
    env["PYTHONPATH"] = os.pathsep.join([REPO_SRC, *extra_path, VERIF])
    env["PYTHONDONTWRITEBYTECODE"] = "1"
    env["PYTHONHASHSEED"] = "0"
    return env


@dataclass
class Cond:
    file: str
    name: str
    line: int  # a line inside the def body (what crosshair's file:LINE wants)
    pre: list = field(default_factory=list)
    twin: bool = False
    timeout: float | None = None  # per-condition override of run_many's timeout
    group: str = ""


def conditions(pyfile: str) -> dict[str, Cond]:
    """top-level functions of `pyfile` that carry a `post:` contract"""
    with open(pyfile) as f:
        tree = ast.parse(f.read())
    out = {}
    for node in tree.body:
        if not isinstance(node, ast.FunctionDef):
            continue
        doc = ast.get_docstring(node, clean=False)
        if not doc or "post:" not in doc:
            continue
        pre = [ln.strip()[4:].strip() for ln in doc.splitlines() if ln.strip().startswith("pre:")]
        out[node.name] = Cond(pyfile, node.name, node.body[0].lineno + 1, pre)
    return out


def make_twin(pyfile: str, outdir: str) -> str:
    """copy of the harness module in which every `post: __return__` became `post: False`"""
    with open(pyfile) as f:
        src = f.read()
    twin_src, n = POST_RE.subn(lambda m: f"{m.group(1)}post: False", src)
    if n == 0:
        raise ValueError(f"{pyfile}: no `post: __return__` line")
    base = os.path.splitext(os.path.basename(pyfile))[0]
    path = os.path.join(outdir, f"{base}__reach.py")
    with open(path, "w") as f:
        f.write(twin_src)
    return path


@dataclass
class Verdict:
    name: str
    status: str
    message: str = ""
    call: str | None = None
    elapsed: float = 0.0
    twin: bool = False
    raw: str = ""

    @property
    def inconclusive(self) -> bool:
        return self.status in ("notconfirmed", "precondition", "timeout")


_LINE_RE = re.compile(r"^(?P<file>.*?):(?P<line>\d+): (?P<level>info|error|warning): (?P<msg>.*)$")
_CALL_RE = re.compile(r"when calling (?P<call>.*?)(?: \(which (?:returns|raises) .*\))?$", re.S)


def parse_output(name: str, text: str, only_file: str | None = None) -> Verdict:
    """verdict from crosshair's stdout; with `only_file` just the lines reported for that file are considered"""
    status, msg, call = None, "", None
    for ln in text.splitlines():
        m = _LINE_RE.match(ln.strip())
        if not m:
            continue
        if only_file is not None and os.path.basename(m.group("file")) != os.path.basename(only_file):
            continue
        level, body = m.group("level"), m.group("msg")
        if level == "error":
            status, msg = "counterexample", body
            c = _CALL_RE.search(body)
            call = c.group("call").strip() if c else None
            break
        if "Confirmed over all paths" in body:
            status, msg = "confirmed", body
        elif "Not confirmed" in body:
            status, msg = "notconfirmed", body
        elif "Unable to meet precondition" in body:
            status, msg = "precondition", body
    if status is None:
        return Verdict(name, "error", "unrecognised crosshair output: " + text.strip()[-300:], raw=text)
    return Verdict(name, status, msg, call, raw=text)


def run_group(conds: list[Cond], timeout: float, extra_path=(), extra_args=()) -> list[Verdict]:
    """one crosshair process for several conditions that live in *different* files (e.g. a harness and its
    reachability twin): saves the interpreter/halmos start-up; verdicts are told apart by the reported file name"""
    assert len({os.path.basename(c.file) for c in conds}) == len(conds)
    cmd = [CROSSHAIR, "check", "--report_all", "--per_condition_timeout", str(int(timeout)), *extra_args,
           *[f"{c.file}:{c.line}" for c in conds]]
    t0 = time.time()
    wall = timeout * len(conds) + 90
    dirs = []
    for c in conds:
        if os.path.dirname(c.file) not in dirs:
            dirs.append(os.path.dirname(c.file))
    try:
        p = subprocess.run(cmd, capture_output=True, text=True, timeout=wall, env=child_env([*dirs, *extra_path]),
                           cwd=dirs[0])
        text = p.stdout + "\n" + p.stderr
        vs = [parse_output(c.name, text, c.file if len(conds) > 1 else None) for c in conds]
    except subprocess.TimeoutExpired:
        vs = [Verdict(c.name, "timeout", f"crosshair did not return within {wall:.0f}s") for c in conds]
    for c, v in zip(conds, vs):
        v.elapsed = round(time.time() - t0, 1)
        v.twin = c.twin
    return vs


def run_one(cond: Cond, timeout: float, extra_path=(), extra_args=()) -> Verdict:
    return run_group([cond], timeout, extra_path, extra_args)[0]


def run_many(groups: list, timeout: float, jobs: int = 14, extra_path=(), progress=None) -> list:
    """run conditions (or groups = lists of conditions in different files) as parallel subprocesses.
    Returns verdicts in input order (a list per group when the item was a group)."""
    out: list = [None] * len(groups)

    def job(item):
        if isinstance(item, Cond):
            return run_one(item, item.timeout or timeout, extra_path)
        return run_group(item, max(c.timeout or timeout for c in item), extra_path)

    with cf.ThreadPoolExecutor(max_workers=max(1, jobs)) as ex:
        futs = {ex.submit(job, g): i for i, g in enumerate(groups)}
        for fu in cf.as_completed(futs):
            i = futs[fu]
            g = groups[i]
            try:
                out[i] = fu.result()
            except Exception as e:  # noqa: BLE001
                mk = lambda c: Verdict(c.name, "error", f"{type(e).__name__}: {e}", twin=c.twin)  # noqa: E731
                out[i] = mk(g) if isinstance(g, Cond) else [mk(c) for c in g]
            if progress:
                for c, v in ([(g, out[i])] if isinstance(g, Cond) else zip(g, out[i])):
                    progress(c, v)
    return out


_REPLAY_SNIPPET = r"""
import importlib.util, json, sys, traceback
spec = importlib.util.spec_from_file_location("_h", sys.argv[1])
mod = importlib.util.module_from_spec(spec)
spec.loader.exec_module(mod)
call = sys.argv[2]
out = {}
try:
    r = eval(call, vars(mod))
    out = {"returned": repr(r), "truthy": bool(r)}
except BaseException as e:
    out = {"raised": type(e).__name__ + ": " + str(e)[:300]}
import halmos
out["halmos"] = halmos.__file__
detail = getattr(mod, "LAST_DETAIL", None)
if detail is not None:
    out["detail"] = repr(detail)[:1500]
print("@@REPLAY@@" + json.dumps(out))
"""


def replay(pyfile: str, call: str, extra_path=(), timeout: float = 120) -> dict:
    """evaluate the printed call natively (pinned interpreter, real halmos).  A harness function returns True iff the
    property held, so `reproduced` = it returned a falsy value or raised."""
    # crosshair may append ` with crosshair.patch_to_return({...})` to the printed call: not part of the call itself
    call = re.split(r"\s+with\s+crosshair\.patch_to_return", call)[0].strip()
    try:
        p = subprocess.run([NATIVE_PY, "-c", _REPLAY_SNIPPET, pyfile, call], capture_output=True, text=True,
                           timeout=timeout, env=child_env([os.path.dirname(pyfile), *extra_path]))
    except subprocess.TimeoutExpired:
        return {"reproduced": False, "error": "replay timed out"}
    for ln in p.stdout.splitlines():
        if ln.startswith("@@REPLAY@@"):
            res = json.loads(ln[len("@@REPLAY@@"):])
            raised = res.get("raised", "")
            # a call that cannot even be evaluated (SyntaxError / NameError in the printed text) is not a reproduction
            unevaluable = raised.startswith(("SyntaxError", "NameError"))
            res["reproduced"] = (("raised" in res) and not unevaluable) or (res.get("truthy") is False)
            res["held"] = res.get("truthy") is True
            return res
    return {"reproduced": False, "error": (p.stdout + p.stderr)[-400:]}


if __name__ == "__main__":  # tiny CLI: python -m lib.chx file.py [name ...]
    f = os.path.abspath(sys.argv[1])
    cs = conditions(f)
    sel = [cs[n] for n in (sys.argv[2:] or cs)]
    for v in run_many(sel, float(os.environ.get("CHX_TIMEOUT", "60"))):
        print(v.name, v.status, v.elapsed, v.call or v.message)
