"""C16 run-time monitor of halmos' unsat-core cache (harness-side wrappers only; nothing in /repo is changed).

While the real `run_contract` executes a generated test contract with `cache_solver=True`, the wrappers record
(as plain strings -- no z3 object is kept, so the harness never pins an AST id):

  check  every call of `halmos.solve.check_unsat_cores(query, cores)`: query text + assertion ids, a snapshot of the
         cores visible to the call, and the answer;
  reply  every solver reply processed by `CounterexampleHandler._solve_end_to_end_callback`: the query it answers, the
         raw solver stdout, the core halmos parsed and the core object(s) it appended to the cache.

`analyze()` runs after the contract finished (main thread): every query is re-parsed with z3 into
(hard assertions H, id -> formula F) and the following obligations are decided by lib/portfolio:

  hit-unsat     the query short-circuited by a cache hit is unsat
  hit-core      H_hit /\\ { F_hit(id) : id in matching core } is unsat   (the precise soundness condition of a hit)
  hit-ids       every id of the matching core denotes, in the hitting query, the formula it denoted when stored
  store-valid   H_src /\\ { F_src(id) : id in stored core } is unsat      (what is put in the cache is a core)
  id-stable     at EVERY check: an id shared by the query and a visible stored core denotes the same formula as at
                store time (z3 recycles AST ids after reclamation); if not, the core under its current denotation must
                still be unsat
  empty-core    no empty core is ever stored / visible (an empty core is a subset of every query)
  parse-faithful  the core halmos parsed equals the name list of the solver's get-unsat-core reply

Violations are replayed on the real code by `replay_crafted`: the real `solve_end_to_end` is called on the offending
formula set with the offending core in the cache (-> `unsat` without a solver call) and with an empty cache (-> real
solver says `sat`).
"""

from __future__ import annotations

import gc
import os
import re
import threading
import time

import z3

from lib import portfolio

EVENTS: list = []
_LOCK = threading.Lock()
_KEEP: list = []  # stored core list objects (kept for the life of the process so that id() stays unique)
_REGISTRY: dict = {}  # id(core object) -> store record, for the life of the process: a core that leaks into a LATER
#                       function / contract (it never does on the unchanged tree) is still checked against what it
#                       denoted when it was stored
_STATE = {"installed": False, "policy": "all", "gc_every": 0, "nchecks": 0, "downgraded": 0, "orig": {}, "rng": None,
          "gc_calls": 0}


# ---------------------------------------------------------------------------------------------------------------
# hooks
# ---------------------------------------------------------------------------------------------------------------
def install(policy="all", gc_every=4, seed=0):
    """policy: how the branch-feasibility check of path exploration `times out` (returns unknown instead of unsat):
    'all' | 'half' (seeded coin) | 'none'.  gc_every: force gc.collect() on every n-th branch check and before every
    potential-violation query (0 = never)."""
    import random

    import halmos.__main__ as hm
    import halmos.sevm as sv
    import halmos.solve as hs

    _STATE.update(policy=policy, gc_every=gc_every, nchecks=0, downgraded=0, rng=random.Random(seed), gc_calls=0,
                  rng_seed=seed)
    if _STATE["installed"]:
        return
    o = _STATE["orig"]
    o["check_unsat_cores"] = hs.check_unsat_cores
    o["callback"] = hm.CounterexampleHandler._solve_end_to_end_callback
    o["handle"] = hm.CounterexampleHandler.handle_assertion_violation
    o["path_check"] = sv.Path.check
    o["run_test"] = hm.run_test

    def check_unsat_cores(query, unsat_cores):
        res = o["check_unsat_cores"](query, unsat_cores)
        try:
            snap = [(id(c), [str(x) for x in c]) for c in list(unsat_cores)]
            _STATE["ids_are_str"] = isinstance(query.assertions, str)
            EVENTS.append({"k": "check", "ctx": id(unsat_cores), "smt": query.smtlib,
                           "ids": query.assertions.split() if isinstance(query.assertions, str) else list(query.assertions),
                           "cores": snap, "res": bool(res), "t": time.time()})
        except Exception as e:  # never disturb halmos
            EVENTS.append({"k": "hookerr", "msg": repr(e)})
        return res

    def callback(self, future, **kw):
        with _LOCK:
            cores = self.ctx.solving_ctx.unsat_cores
            before = len(cores)
            nout = len(self.ctx.solver_outputs)
            try:
                return o["callback"](self, future, **kw)
            finally:
                try:
                    pc = kw.get("path_ctx")
                    so = self.ctx.solver_outputs[nout] if len(self.ctx.solver_outputs) > nout else None
                    new = list(cores[before:])
                    _KEEP.extend(new)
                    raw = None
                    if pc is not None:
                        try:
                            with open(str(pc.dump_file) + ".out") as f:
                                raw = f.read()
                        except OSError:
                            raw = None
                    EVENTS.append({
                        "k": "reply", "ctx": id(cores), "path_id": getattr(so, "path_id", None),
                        "result": str(getattr(so, "result", None)), "returncode": getattr(so, "returncode", None),
                        "core": None if so is None or so.unsat_core is None else [str(x) for x in so.unsat_core],
                        "stored": [(id(c), [str(x) for x in c]) for c in new],
                        "smt": pc.query.smtlib if pc is not None else None,
                        "ids": (pc.query.assertions.split() if isinstance(pc.query.assertions, str) else list(pc.query.assertions))
                        if pc is not None else None,
                        "raw": raw, "valid": getattr(getattr(so, "model", None), "is_valid", None),
                    })
                except Exception as e:
                    EVENTS.append({"k": "hookerr", "msg": repr(e)})

    def handle(self, *a, **kw):
        if _STATE["gc_every"]:
            gc.collect()
            _STATE["gc_calls"] += 1
        return o["handle"](self, *a, **kw)

    def path_check(self, cond):
        r = o["path_check"](self, cond)
        _STATE["nchecks"] += 1
        ge = _STATE["gc_every"]
        if ge and _STATE["nchecks"] % ge == 0:
            gc.collect()
            _STATE["gc_calls"] += 1
        if r == z3.unsat:
            pol = _STATE["policy"]
            if pol == "all" or (pol == "half" and _coin(cond)):
                _STATE["downgraded"] += 1
                return z3.unknown  # the branching solver "timed out"
        return r

    def run_test(ctx):
        EVENTS.append({"k": "begin", "ctx": id(ctx.solving_ctx.unsat_cores), "sig": ctx.info.sig})
        try:
            return o["run_test"](ctx)
        finally:
            EVENTS.append({"k": "end", "ctx": id(ctx.solving_ctx.unsat_cores), "sig": ctx.info.sig,
                           "final_cores": [(id(c), [str(x) for x in c]) for c in ctx.solving_ctx.unsat_cores],
                           "outputs": [(so.path_id, str(so.result)) for so in ctx.solver_outputs]})

    hs.check_unsat_cores = check_unsat_cores
    hm.CounterexampleHandler._solve_end_to_end_callback = callback
    hm.CounterexampleHandler.handle_assertion_violation = handle
    sv.Path.check = path_check
    hm.run_test = run_test
    _STATE["installed"] = True


_UID_RE = re.compile(r"_[0-9a-f]{7}_")


def _coin(cond) -> bool:
    """seeded coin that depends only on the condition's text modulo uid suffixes: the same condition times out in the
    cache-on and the cache-off run of a contract, whatever happened before"""
    import zlib

    txt = _UID_RE.sub("_", cond.sexpr()) + f"/{_STATE['rng_seed']}"
    return zlib.crc32(txt.encode()) & 1 == 1


def uninstall():
    if not _STATE["installed"]:
        return
    import halmos.__main__ as hm
    import halmos.sevm as sv
    import halmos.solve as hs

    o = _STATE["orig"]
    hs.check_unsat_cores = o["check_unsat_cores"]
    hm.CounterexampleHandler._solve_end_to_end_callback = o["callback"]
    hm.CounterexampleHandler.handle_assertion_violation = o["handle"]
    sv.Path.check = o["path_check"]
    hm.run_test = o["run_test"]
    _STATE["installed"] = False


def take_events() -> list:
    ev = list(EVENTS)
    EVENTS.clear()
    return ev


def stats() -> dict:
    return {k: _STATE[k] for k in ("nchecks", "downgraded", "gc_calls")}


# ---------------------------------------------------------------------------------------------------------------
# query denotation
# ---------------------------------------------------------------------------------------------------------------
class Denot:
    """(hard assertions, id -> formula) of one halmos query text"""

    __slots__ = ("hard", "F", "err")

    def __init__(self, smt: str, ids):
        self.hard, self.F, self.err = [], {}, None
        idset = {str(i) for i in ids}
        if "declare-fun f_evm_" in smt:
            # halmos answers such a query only after refinement (solve_end_to_end); the monitor decides the same
            # formulas, i.e. with halmos' own refinement applied (f_evm_bvmul/bvudiv/... defined, not uninterpreted)
            try:
                import halmos.solve as hs
                from halmos.sevm import SMTQuery

                smt = hs.refine(SMTQuery(smt, list(ids))).smtlib
            except Exception as e:  # noqa: BLE001
                self.err = f"refine failed: {e!r}"[:200]
                return
        try:
            vec = z3.parse_smt2_string(smt)
        except z3.Z3Exception as e:
            self.err = str(e)[:200]
            return
        for a in vec:
            if z3.is_implies(a) and z3.is_const(a.arg(0)) and a.arg(0).decl().kind() == z3.Z3_OP_UNINTERPRETED \
                    and a.arg(0).decl().name() in idset:
                name = a.arg(0).decl().name()
                if name in self.F:  # the same id tracks two formulas: conjunction
                    self.F[name] = z3.And(self.F[name], a.arg(1))
                else:
                    self.F[name] = a.arg(1)
            else:
                self.hard.append(a)

    def conj(self, ids):
        return list(self.hard) + [self.F[i] for i in ids if i in self.F]

    def full(self):
        return list(self.hard) + list(self.F.values())


_NAME_RE = re.compile(r"<([^<>\s()]+)>")


def independent_core(raw: str):
    """names listed in the reply to (get-unsat-core): the LAST top-level s-expression of the solver's stdout that is a
    flat list of symbols (error lines are strings in parentheses and are skipped).  None if there is none."""
    if raw is None:
        return None
    txt = raw.strip()
    if not txt.startswith("unsat"):
        return None
    # tokenise top-level s-expressions after the first line, honouring string literals
    body = txt[len("unsat"):]
    exprs, depth, cur, instr = [], 0, "", False
    for ch in body:
        if instr:
            cur += ch
            if ch == '"':
                instr = False
            continue
        if ch == '"':
            instr = True
            cur += ch
            continue
        if ch == "(":
            depth += 1
            cur += ch
            continue
        if ch == ")":
            depth -= 1
            cur += ch
            if depth == 0:
                exprs.append(cur)
                cur = ""
            continue
        if depth > 0:
            cur += ch
    for e in reversed(exprs):
        inner = e[1:-1].strip()
        if inner.startswith("error"):
            continue
        toks = inner.split()
        if all(t.startswith("<") and t.endswith(">") for t in toks):
            return [t[1:-1] for t in toks]
        return None
    return None


# ---------------------------------------------------------------------------------------------------------------
# post-mortem analysis
# ---------------------------------------------------------------------------------------------------------------
def _decide(rec, assertions, timeout):
    r = portfolio.solve(assertions, timeout=timeout, inproc_ms=1500)
    rec.note_solver(r)
    return r


def _equiv(rec, a, b, timeout):
    if a.eq(b):
        return "same"
    r = _decide(rec, [a != b], timeout)
    return {"unsat": "equiv", "sat": "differ"}.get(r.status, "unknown")


def analyze(events, rec, tag: str, key_sfx: str, timeout=20.0, trust_solver_cores=True):
    """decide the monitor obligations for one contract run; returns a summary dict.  Violations found here are returned
    as `pending` (list of dicts with everything `replay_crafted` needs) -- the caller replays and reports."""
    summ = {"checks": 0, "hits": 0, "stores": 0, "core_sizes": [], "hit_core_sizes": [], "foreign_ids": 0,
            "empty_replies": 0, "none_cores": 0, "rebound": 0, "fns": 0, "multi_line_cores": 0, "max_visible": 0}
    pending = []
    dcache: dict = {}

    def den(smt, ids):
        k = id(smt)
        d = dcache.get(k)
        if d is None:
            d = dcache[k] = Denot(smt, ids)
        return d

    herr = [e for e in events if e["k"] == "hookerr"]
    for e in herr[:3]:
        rec.harness_error(f"{tag}: monitor hook failed: {e['msg']}")

    # store records: core object id -> record (process-wide registry, see _REGISTRY)
    stores = _REGISTRY
    sig_of: dict = {}
    for e in events:
        if e["k"] == "begin":
            sig_of[e["ctx"]] = e["sig"]
            summ["fns"] += 1
        if e["k"] != "reply":
            continue
        fn = sig_of.get(e["ctx"], "?")
        if e["result"] == "unsat" and e["raw"] is not None:
            if e["core"] is None:
                summ["none_cores"] += 1
            elif not e["core"]:
                summ["empty_replies"] += 1
            # parse-faithful
            ind = independent_core(e["raw"])
            if ind is not None and len(ind) > 1 and "\n" in e["raw"].strip()[e["raw"].strip().rfind("("):]:
                summ["multi_line_cores"] += 1
            if ind is not None and e["core"] is not None:
                if list(ind) == list(e["core"]):
                    rec.ok("parse-faithful", f"{key_sfx}/n={min(len(ind), 9)}")
                else:
                    pending.append({"cls": "parse-faithful", "fn": fn, "raw": e["raw"], "halmos": e["core"],
                                    "independent": ind, "smt": e["smt"], "ids": e["ids"]})
        for cid, core in e["stored"]:
            summ["stores"] += 1
            summ["core_sizes"].append(len(core))
            stores[cid] = {"core": core, "smt": e["smt"], "ids": e["ids"], "raw": e["raw"], "fn": fn,
                           "path_id": e["path_id"], "fn_ctx": e["ctx"], "run": tag}
            if not core:
                pending.append({"cls": "empty-core", "fn": fn, "core": core, "smt": e["smt"], "ids": e["ids"],
                                "raw": e["raw"]})
                continue
            rec.ok("empty-core", f"{key_sfx}/stored-nonempty", nontrivial=False)
            d = den(e["smt"], e["ids"])
            if d.err:
                rec.inconc("store-valid", f"{key_sfx}", f"query does not parse: {d.err}")
                continue
            inq = [i for i in core if i in d.F]
            summ["foreign_ids"] += len(core) - len(inq)
            r = _decide(rec, d.conj(inq), timeout)
            if r.status == "unsat":
                rec.ok("store-valid", f"{key_sfx}/n={min(len(core), 9)}")
            elif r.status == "sat":
                ind = independent_core(e["raw"])
                pending.append({"cls": "store-valid", "fn": fn, "core": core, "smt": e["smt"], "ids": e["ids"],
                                "K": inq, "raw": e["raw"], "independent": ind,
                                "solver_fault": ind is not None and list(ind) == list(core)})
            else:
                rec.inconc("store-valid", f"{key_sfx}", f"portfolio {r.status}")

    for e in events:
        if e["k"] != "check":
            continue
        fn = sig_of.get(e["ctx"], "?")
        summ["checks"] += 1
        summ["max_visible"] = max(summ["max_visible"], len(e["cores"]))
        ids = e["ids"]
        idset = set(ids)
        d = None
        # empty cores visible
        for cid, core in e["cores"]:
            if not core:
                pending.append({"cls": "empty-core", "fn": fn, "core": [], "smt": e["smt"], "ids": ids, "visible": True,
                                "hit": e["res"]})
                break
        # id stability at every check
        for cid, core in e["cores"]:
            st = stores.get(cid)
            if st is None or not core:
                continue
            if st["fn_ctx"] != e["ctx"]:
                summ["leaked_cores_visible"] = summ.get("leaked_cores_visible", 0) + 1
            shared = [i for i in core if i in idset]
            if not shared:
                continue
            if st["smt"] is e["smt"]:
                continue
            d = d or den(e["smt"], ids)
            ds = den(st["smt"], st["ids"])
            if d.err or ds.err:
                continue
            changed = []
            for i in shared:
                if i in d.F and i in ds.F:
                    v = _equiv(rec, d.F[i], ds.F[i], timeout)
                    if v == "differ":
                        changed.append(i)
                    elif v == "unknown":
                        rec.inconc("id-stable", f"{key_sfx}", "equivalence undecided")
            if not changed:
                rec.ok("id-stable", f"{key_sfx}/shared={min(len(shared), 9)}", nontrivial=len(shared) > 0)
                continue
            summ["rebound"] += 1
            # the core under its CURRENT denotation: rebound ids from this query, the others as stored
            mixed = list(d.hard) + [d.F[i] if i in d.F else ds.F[i] for i in core if i in d.F or i in ds.F]
            r = _decide(rec, mixed, timeout)
            if r.status == "sat":
                pending.append({"cls": "id-stable", "fn": fn, "core": core, "changed": changed, "smt": e["smt"],
                                "ids": ids, "K": [i for i in core if i in d.F], "store_smt": st["smt"],
                                "store_ids": st["ids"], "then": {i: ds.F[i].sexpr()[:300] for i in changed},
                                "now": {i: d.F[i].sexpr()[:300] for i in changed}, "hit": e["res"]})
            elif r.status == "unsat":
                rec.ok("id-stable", f"{key_sfx}/rebound-but-still-unsat")
            else:
                rec.inconc("id-stable", f"{key_sfx}", f"portfolio {r.status}")
        if not e["res"]:
            continue
        # ---- a cache hit ----
        summ["hits"] += 1
        d = d or den(e["smt"], ids)
        if d.err:
            rec.inconc("hit-unsat", f"{key_sfx}", f"query does not parse: {d.err}")
            continue
        match = next(((cid, core) for cid, core in e["cores"] if all(i in idset for i in core)), None)
        r = _decide(rec, d.full(), timeout)
        if r.status == "unsat":
            rec.ok("hit-unsat", f"{key_sfx}/{fn.split('(')[0][:9]}/n={min(len(ids), 30)}")
        elif r.status == "sat":
            pending.append({"cls": "hit-unsat", "fn": fn, "smt": e["smt"], "ids": ids, "K": list(d.F),
                            "core": match[1] if match else None, "cores": [c for _, c in e["cores"]],
                            "model": {k: v for k, v in list(r.model.items())[:8]}})
        else:
            rec.inconc("hit-unsat", f"{key_sfx}", f"portfolio {r.status}")
        if match is None:
            # a hit although no visible core is a subset of the query (cannot happen with the specified
            # check_unsat_cores; Route P decides that).  Soundness of the answer itself was decided just above.
            if r.status != "sat":
                rec.inconc("hit-core", f"{key_sfx}", "cache hit without any visible core being a subset of the query "
                                                      "(the query happens to be unsat)")
            continue
        cid, core = match
        summ["hit_core_sizes"].append(len(core))
        r2 = _decide(rec, d.conj(core), timeout)
        if r2.status == "unsat":
            rec.ok("hit-core", f"{key_sfx}/n={min(len(core), 9)}")
        elif r2.status == "sat":
            if r.status != "sat":  # otherwise already pending as hit-unsat
                pending.append({"cls": "hit-core", "fn": fn, "smt": e["smt"], "ids": ids, "K": [i for i in core if i in d.F],
                                "core": core})
        else:
            rec.inconc("hit-core", f"{key_sfx}", f"portfolio {r2.status}")
        st = stores.get(cid)
        if st is None:
            rec.inconc("hit-ids", f"{key_sfx}", "matching core was not seen being stored in this contract run")
        else:
            ds = den(st["smt"], st["ids"])
            bad = []
            for i in core:
                if i in ds.F and i in d.F:
                    v = _equiv(rec, d.F[i], ds.F[i], timeout)
                    if v == "differ":
                        bad.append(i)
            if not bad:
                rec.ok("hit-ids", f"{key_sfx}/n={min(len(core), 9)}")
            # (a differing id was already examined by the id-stable pass above)
    dcache.clear()
    return summ, pending


# ---------------------------------------------------------------------------------------------------------------
# replay on the real code
# ---------------------------------------------------------------------------------------------------------------
def crafted_query(smt: str, ids, K, fallback=None):
    """SMTQuery made of the hard assertions of `smt` and the tracked assertions for the ids in K only (same ids).
    `fallback` = (smt, ids) of the query the core was stored from: ids of K that do not occur in `smt` keep the formula
    they had there (used for a partially re-bound core)."""
    from halmos.sevm import SMTQuery

    d = Denot(smt, ids)
    fb = Denot(*fallback) if fallback else None
    s = z3.Solver()
    for h in d.hard:
        s.add(h)
    used = []
    for i in K:
        f = d.F.get(i)
        if f is None and fb is not None:
            f = fb.F.get(i)
        if f is not None:
            s.assert_and_track(f, str(i))
            used.append(str(i))
    text = s.to_smt2().replace("(check-sat)", "")
    # the container type of `assertions` is whatever the engine's own Path.to_smt2() produces on this tree (seen by the hook)
    return SMTQuery(text, " ".join(used) if _STATE.get("ids_are_str") else used)


def real_solve(query, cores, solver="yices", **over):
    """cores is a list: the real (unwrapped) solve_end_to_end on `query` with exactly `cores` in the cache;
    cores is None: ground truth -- the real solve_end_to_end with cache_solver off and an explicitly empty core list.
    Returns (result string, solver was invoked)"""
    import tempfile

    import halmos.solve as hs
    from lib import e2e

    args = e2e.mk_args(cache_solver=cores is not None, solver=solver, **over)
    td = tempfile.TemporaryDirectory(prefix="c16replay-")
    # the cache content is passed explicitly (not through the field's default factory)
    sc = hs.SolvingContext(dump_dir=td, unsat_cores=[list(c) for c in (cores or [])])
    try:
        pc = hs.PathContext(args=args, path_id=0, solving_ctx=sc, query=query)
        if cores is None:
            # cache off, explicitly empty core list; solve_end_to_end so that refinement is applied as in a real run
            out = hs.solve_end_to_end(pc)
        else:
            cur = hs.check_unsat_cores
            hs.check_unsat_cores = _STATE["orig"].get("check_unsat_cores", cur)
            try:
                out = hs.solve_end_to_end(pc)
            finally:
                hs.check_unsat_cores = cur
        invoked = os.path.exists(str(pc.dump_file) + ".out")
        return str(out.result), invoked
    finally:
        try:
            sc.executor.shutdown(wait=True)
        except Exception:
            pass
        td.cleanup()


def replay_crafted(p: dict, solver="yices") -> dict:
    """replay one pending monitor violation on the real solve_end_to_end; returns witness dict with `reproduced`"""
    cls = p["cls"]
    w = {"class": cls, "function": p.get("fn")}
    if cls == "parse-faithful":
        import halmos.solve as hs

        got = hs.parse_unsat_core(p["raw"])
        w.update(raw=p["raw"][-600:], halmos=got, solver_listed=p["independent"])
        w["reproduced"] = got is not None and [str(x) for x in got] != list(p["independent"])
        return w
    if cls == "empty-core":
        # an empty core in the cache answers ANY query; show it on a trivially satisfiable one
        from halmos.sevm import SMTQuery

        q = SMTQuery("(declare-fun |1| () Bool)\n(declare-fun c16_x () (_ BitVec 8))\n"
                     "(assert (=> |1| (= c16_x #x07)))\n", ["1"])
        a, inv_a = real_solve(q, [[]], solver)
        b, inv_b = real_solve(q, None, solver)
        w.update(with_cache=a, solver_invoked_with_cache=inv_a, without=b, stored_core=p.get("core"),
                 raw=(p.get("raw") or "")[-300:])
        w["reproduced"] = a == "unsat" and b == "sat"
        return w
    K = p["K"]
    core = p.get("core") or K
    if cls == "id-stable":
        # the core under its current denotation: re-bound ids as in the observed query, the others as stored
        q = crafted_query(p["smt"], p["ids"], core, fallback=(p["store_smt"], p["store_ids"]))
        w["partial_rebinding"] = len(K) < len(core)
    else:
        q = crafted_query(p["smt"], p["ids"], K)
    a, inv_a = real_solve(q, [core] if cls != "hit-unsat" else p.get("cores", [core]), solver)
    b, inv_b = real_solve(q, None, solver)
    w.update(core=core, query_ids=K, with_cache=a, solver_invoked_with_cache=inv_a, without=b,
             crafted_query=q.smtlib[-1500:])
    for k in ("changed", "then", "now", "model", "independent", "solver_fault"):
        if k in p:
            w[k] = p[k]
    w["reproduced"] = a == "unsat" and not inv_a and b == "sat"
    return w
