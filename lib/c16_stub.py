"""C16: scripted stub solver (used as halmos' --solver-command).

The stub stays inside a solver's contract: the sat/unsat verdict and the model come from the real yices; on `unsat`
the stub chooses WHICH valid core to report and HOW it is printed.  A superset of an unsat core is an unsat core, so
every `mode` below that returns ids is a valid reply; `empty`, `none`, `garbage` model a back end without (usable)
core support -- halmos must simply not cache then.

modes (core choice)     real | full (all named assertions) | minimal (greedy deletion with yices) | superset (real +
                        up to 2 further ids of this query) | foreign (real + ids named in EARLIER queries of this stub
                        instance that are absent from this query) | reversed | dup (every id twice)
modes (degenerate)      empty `()` | none (no core line) | garbage `(<12> foo)`
format                  err (yices/z3 style `(error "...")` line before the core) | noerr | multiline (one id per line,
                        cvc5 style) | wrap (line break every 3 ids, yices style) | spaces
The n-th unsat reply of a stub instance uses modes[n % len] and formats[(n // len + n) % len] (state file next to the
script), so a script explores reply *orders*.

The stub is a POSIX sh + awk script (a Python stub costs > 1 s of interpreter start-up per query on the loaded VM).
"""

from __future__ import annotations

import os
import stat

CORE_MODES = ["real", "full", "minimal", "superset", "foreign", "reversed", "dup"]
DEGENERATE = ["empty", "none", "garbage"]
FORMATS = ["err", "noerr", "multiline", "wrap", "spaces"]

_SRC = r'''#!/bin/sh
YICES=/venv/bin/yices-smt2
HERE="%(here)s"
MODES="%(modes)s"
FORMATS="%(formats)s"
for f in "$@"; do :; done
out=$("$YICES" "$f")
first=$(printf '%%s\n' "$out" | head -n 1)
if [ "$first" != "unsat" ]; then printf '%%s\n' "$out"; exit 0; fi
n=0; [ -f "$HERE/state" ] && n=$(cat "$HERE/state")
named=$(grep -o ':named <[^>]*>' "$f" | sed 's/:named <\(.*\)>/\1/' | tr '\n' ' ')
real=$(printf '%%s\n' "$out" | tail -n +2 | grep -v '(error' | tr '\n' ' ' | grep -o '<[^>]*>' | tr -d '<>' | tr '\n' ' ')
seen=""; [ -f "$HERE/seen" ] && seen=$(cat "$HERE/seen")
echo $((n + 1)) > "$HERE/state"
printf '%%s %%s\n' "$seen" "$named" | tr ' ' '\n' | sort -u | tr '\n' ' ' > "$HERE/seen"
if [ -z "$named" ] || [ -z "$real" ]; then printf '%%s\n' "$out"; exit 0; fi
set -- $MODES; nm=$#; k=$((n %% nm + 1)); eval mode=\${$k}
set -- $FORMATS; nf=$#; k=$(((n / nm + n) %% nf + 1)); eval fmt=\${$k}
set -- $real; nreal=$#
set -- $named; nnamed=$#
echo "$n $mode $fmt real=$nreal named=$nnamed" >> "$HERE/log"
core="$real"
case "$mode" in
  full) core="$named";;
  reversed) core=$(printf '%%s\n' $real | awk '{a[NR]=$0} END{for(i=NR;i>=1;i--) printf "%%s ", a[i]}');;
  dup) core="$real $real";;
  superset) extra=$(printf '%%s\n' $named | awk -v real=" $real " 'index(real, " " $0 " ")==0' | head -n 2 | tr '\n' ' '); core="$extra $real";;
  foreign) extra=$(printf '%%s\n' $seen | awk -v named=" $named " 'length($0)>0 && index(named, " " $0 " ")==0' | head -n 2 | tr '\n' ' '); core="$real $extra";;
  minimal)
    cur="$real"
    if [ "$nreal" -le 12 ]; then
      for i in $real; do
        trial=$(printf '%%s\n' $cur | awk -v d="$i" '$0!=d' | tr '\n' ' ')
        [ -z "$trial" ] && continue
        awk -v keep=" $trial " '{ if ($0 ~ /^\(assert \(! \|[^|]*\| :named <[^>]*>\)\)$/) { id=$0; sub(/.*:named </,"",id); sub(/>\)\)$/,"",id); if (index(keep, " " id " ")==0) next } print }' "$f" > "$f.stubmin.smt2"
        r=$("$YICES" "$f.stubmin.smt2" | head -n 1)
        rm -f "$f.stubmin.smt2"
        [ "$r" = "unsat" ] && cur="$trial"
      done
    fi
    core="$cur";;
esac
echo "unsat"
if [ "$mode" = "none" ]; then echo '(error "get-unsat-core is not supported")'; exit 0; fi
if [ "$fmt" != "noerr" ]; then echo '(error "the context is unsatisfiable")'; fi
if [ "$mode" = "empty" ]; then echo "()"; exit 0; fi
if [ "$mode" = "garbage" ]; then echo "(<12> foo)"; exit 0; fi
printf '%%s\n' $core | awk -v fmt="$fmt" '
  { t[NR] = "<" $0 ">" }
  END {
    if (fmt == "multiline") { print "("; for (i = 1; i <= NR; i++) print t[i]; print ")" }
    else if (fmt == "wrap") { s = "("; for (i = 1; i <= NR; i++) { s = s t[i]; if (i < NR) s = s ((i %% 3 == 0) ? "\n " : " ") } print s ")" }
    else if (fmt == "spaces") { s = "(  "; for (i = 1; i <= NR; i++) s = s t[i] "   "; print s " )" }
    else { s = "("; for (i = 1; i <= NR; i++) s = s t[i] (i < NR ? " " : ""); print s ")" }
  }'
'''


def write(dirpath: str, modes, formats, seed: int = 0) -> str:
    """write the stub into `dirpath` (its state files live next to it); returns the solver_command string"""
    os.makedirs(dirpath, exist_ok=True)
    path = os.path.join(dirpath, "stub_solver.sh")
    with open(path, "w") as f:
        f.write(_SRC % {"modes": " ".join(modes), "formats": " ".join(formats), "here": dirpath})
    os.chmod(path, os.stat(path).st_mode | stat.S_IEXEC)
    for n in ("state", "seen", "log"):
        try:
            os.unlink(os.path.join(dirpath, n))
        except OSError:
            pass
    return f"/bin/sh {path}"


def reset(dirpath: str):
    """forget the per-instance state (reply counter, seen ids) -- called before each contract run so that the cache-on
    and cache-off runs of one contract start the same reply script"""
    for n in ("state", "seen"):
        try:
            os.unlink(os.path.join(dirpath, n))
        except OSError:
            pass


def read_log(dirpath: str) -> list:
    try:
        with open(os.path.join(dirpath, "log")) as f:
            return [ln.split() for ln in f.read().splitlines()]
    except OSError:
        return []
