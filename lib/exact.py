"""Exact definitions of halmos' arithmetic abstractions (as stated in C06/C11):
division and remainder by zero give zero.  `inline(e)` replaces every application of
f_evm_bv{udiv,urem,mul,sdiv,srem}_N by its definition; f_evm_exp_256 stays uninterpreted.
The symbols are found by *name* in the term, not imported from halmos.
"""

from __future__ import annotations

import re

import z3

_NAME = re.compile(r"^f_evm_(bvudiv|bvurem|bvmul|bvsdiv|bvsrem)_(\d+)$")


def _defn(kind: str, x, y):
    zero = z3.BitVecVal(0, x.size())
    if kind == "bvmul":
        return x * y
    if kind == "bvudiv":
        return z3.If(y == zero, zero, z3.UDiv(x, y))
    if kind == "bvurem":
        return z3.If(y == zero, zero, z3.URem(x, y))
    if kind == "bvsdiv":
        return z3.If(y == zero, zero, x / y)
    if kind == "bvsrem":
        return z3.If(y == zero, zero, z3.SRem(x, y))
    raise ValueError(kind)


def abstraction_decls(exprs) -> dict:
    """name -> FuncDeclRef for every f_evm_* symbol occurring in exprs"""
    out, seen, stack = {}, set(), list(exprs)
    while stack:
        e = stack.pop()
        i = e.get_id()
        if i in seen:
            continue
        seen.add(i)
        if z3.is_quantifier(e):
            stack.append(e.body())
            continue
        if z3.is_app(e):
            d = e.decl()
            if d.kind() == z3.Z3_OP_UNINTERPRETED and d.name().startswith("f_evm_"):
                out[d.name()] = d
            stack.extend(e.children())
    return out


def inline(e):
    """e: z3 expr or list of exprs -> same with exact definitions inlined"""
    single = not isinstance(e, (list, tuple))
    exprs = [e] if single else list(e)
    decls = abstraction_decls(exprs)
    subs = []
    for name, d in decls.items():
        m = _NAME.match(name)
        if not m:
            continue  # f_evm_exp_256: no definition
        n = int(m.group(2))
        x, y = z3.BitVec("__ex_x", n), z3.BitVec("__ex_y", n)
        # substitute_funs wants the body over de-Bruijn vars
        body = _defn(m.group(1), z3.Var(0, z3.BitVecSort(n)), z3.Var(1, z3.BitVecSort(n)))
        subs.append((d, body))
    out = [z3.substitute_funs(x, *subs) for x in exprs] if subs else exprs
    if "f_evm_exp_256" in decls:
        out = [_inline_small_exp(x) for x in out]
    return out[0] if single else out


EXP_INLINE_MAX = 8


def _inline_small_exp(e):
    """standard interpretation of f_evm_exp_256(x, c) for a concrete exponent c <= EXP_INLINE_MAX: repeated product"""
    pairs, seen, stack = [], set(), [e]
    while stack:
        t = stack.pop()
        i = t.get_id()
        if i in seen:
            continue
        seen.add(i)
        if z3.is_quantifier(t):
            stack.append(t.body())
            continue
        if z3.is_app(t) and t.decl().name() == "f_evm_exp_256" and t.num_args() == 2:
            c = z3.simplify(t.arg(1))
            if z3.is_bv_value(c) and c.as_long() <= EXP_INLINE_MAX:
                r = z3.BitVecVal(1, 256)
                for _ in range(c.as_long()):
                    r = r * t.arg(0)
                pairs.append((t, r))
        stack.extend(t.children())
    # innermost first is not needed: substitute handles simultaneous replacement of the listed terms
    return z3.substitute(e, *pairs) if pairs else e


def has_abstraction(e, include_exp=True) -> bool:
    names = abstraction_decls([e] if not isinstance(e, (list, tuple)) else e)
    if not include_exp:
        names = {n for n in names if _NAME.match(n)}
    return bool(names)
