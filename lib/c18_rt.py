"""C18 Route-P harness: unparse/parse round trips and rejection of malformed values (real Parse* classes).

Round trips: `parse(unparse(v)) == v` for containers of <= 3 symbolic ints (scalar arguments; CrossHair handles
list-of-Optional harness shapes badly).  Decimal ints stay symbolic inside CrossHair (z3 int<->str); hex formatting and
the regular expressions of ParseArrayLengths make CrossHair realise the value, so those harnesses have small ranges
and CrossHair decides them by exhausting the finite symbolic domain (stated as the bound).

Rejection: strings are assembled from symbolic indices into a small alphabet (<= 3 characters); a value the parser
accepts must be well-formed according to an independent, deliberately coarse criterion written here (e.g. "a
timeout needs a digit"); anything else has to raise ValueError -- never be defaulted silently.
The reachability twins (post: False) are derived mechanically by lib/chx.make_twin.
"""

import os

from halmos.config import (
    ParseArrayLengths,
    ParseCSVInt,
    ParseCSVTraceEvent,
    ParseErrorCodes,
    ParseTimeout,
    TraceEvent,
)

LAST_DETAIL = None
THOROUGH = os.environ.get("C18_TIER") == "thorough"
R_ERR1 = 300 if THOROUGH else 40  # range of the single error code
R_ARR = 4 if THOROUGH else 3  # range of each length in the 2-name array-length map


def _rt(action, v):
    global LAST_DETAIL
    text = action.unparse(v)
    back = action.parse(text)
    LAST_DETAIL = {"value": v, "unparsed": text, "reparsed": back}
    return back == v and type(back) is type(v)


# ---------------------------------------------------------------------------
# round trips
# ---------------------------------------------------------------------------
def rt_csvint_1(a: int) -> bool:
    """
    pre: 0 <= a < 65536
    post: __return__
    """
    return _rt(ParseCSVInt, [a])


def rt_csvint_2(a: int, b: int) -> bool:
    """
    pre: 0 <= a < 65536 and 0 <= b < 65536
    post: __return__
    """
    return _rt(ParseCSVInt, [a, b])


def rt_csvint_3(a: int, b: int, c: int) -> bool:
    """
    pre: 0 <= a < 65536 and 0 <= b < 65536 and 0 <= c < 65536
    post: __return__
    """
    return _rt(ParseCSVInt, [a, b, c])


def rt_errcodes_1(a: int) -> bool:
    """
    pre: 0 <= a < R_ERR1
    post: __return__
    """
    return _rt(ParseErrorCodes, {a})


def rt_errcodes_2(n: int, a: int, b: int) -> bool:
    """
    pre: 0 <= n <= 2 and 0 <= a < 6 and 0 <= b < 6
    post: __return__
    """
    # n = 0 is the empty set, rendered as "*" (any panic code)
    return _rt(ParseErrorCodes, set([a + 14, 16 * b + 1][:n]))


def rt_errcodes_3(a: int, b: int, c: int) -> bool:
    """
    pre: 0 <= a < 6 and 0 <= b < 6 and 0 <= c < 6
    post: __return__
    """
    return _rt(ParseErrorCodes, {a + 8, 16 * b + 15, 255 + c})


def rt_arrlen_1(a: int) -> bool:
    """
    pre: 0 <= a < 12
    post: __return__
    """
    return _rt(ParseArrayLengths, {"x": [a]})


def rt_arrlen_2(n: int, a: int, b: int) -> bool:
    """
    pre: 0 <= n <= 2 and 0 <= a < R_ARR and 0 <= b < R_ARR
    post: __return__
    """
    items = [("p0", [a, b + 9]), ("data.y", [b])][:n]
    return _rt(ParseArrayLengths, dict(items))


def rt_arrlen_3(a: int, b: int, c: int) -> bool:
    """
    pre: 0 <= a < 3 and 0 <= b < 3 and 0 <= c < 3
    post: __return__
    """
    return _rt(ParseArrayLengths, {"x": [a, b, c], "yy": [c + 10], "z[0]": [b, a]})


_EVENTS = (TraceEvent.LOG, TraceEvent.SSTORE, TraceEvent.SLOAD)


def rt_events(n: int, a: int, b: int, c: int) -> bool:
    """
    pre: 0 <= n <= 3
    pre: 0 <= a < 3 and 0 <= b < 3 and 0 <= c < 3
    post: __return__
    """
    return _rt(ParseCSVTraceEvent, [_EVENTS[a], _EVENTS[b], _EVENTS[c]][:n])


# ---------------------------------------------------------------------------
# malformed values are rejected (ValueError), not defaulted
# ---------------------------------------------------------------------------
def _accepts(action, s):
    """-> (accepted?, value); only ValueError counts as a rejection"""
    global LAST_DETAIL
    try:
        v = action.parse(s)
    except ValueError as e:
        LAST_DETAIL = {"text": s, "rejected": str(e)[:80]}
        return False, None
    LAST_DETAIL = {"text": s, "accepted_as": v}
    return True, v


def _has_digit(s):
    return any(ch in "0123456789" for ch in s)


A_TIME = ("0", "5", "m", "s", ".", "-", " ", "x", "h", ",", "e")
N_TIME2 = len(A_TIME) if THOROUGH else 8  # the 2-symbol harness uses the first 8 symbols in the quick tier


def _rej_timeout(s):
    ok, v = _accepts(ParseTimeout, s)
    # a timeout without a single digit is malformed (nan/inf spellings are outside this alphabet: see DESIGN notes)
    return (not ok) or (_has_digit(s) and type(v) is float and "x" not in s and "," not in s)


def rej_timeout_2(n: int, i0: int, i1: int) -> bool:
    """
    pre: 0 <= n <= 2 and 0 <= i0 < N_TIME2 and 0 <= i1 < N_TIME2
    post: __return__
    """
    return _rej_timeout((A_TIME[i0] + A_TIME[i1])[:n])


def rej_timeout_3(i0: int, i1: int, i2: int) -> bool:
    """
    pre: 0 <= i0 < len(A_TIME) and 0 <= i1 < len(A_TIME) and 0 <= i2 < len(A_TIME)
    post: __return__
    """
    return _rej_timeout(A_TIME[i0] + A_TIME[i1] + A_TIME[i2])


A_CSV = ("0", "7", ",", " ", "-", "x", "a", ".", "*")


def _rej_csvint(s):
    ok, v = _accepts(ParseCSVInt, s)
    return (not ok) or (type(v) is list and len(v) >= 1 and all(type(x) is int for x in v) and _has_digit(s)
                        and not any(ch in "xa.*" for ch in s))


def rej_csvint_2(n: int, i0: int, i1: int) -> bool:
    """
    pre: 0 <= n <= 2 and 0 <= i0 < len(A_CSV) and 0 <= i1 < len(A_CSV)
    post: __return__
    """
    return _rej_csvint((A_CSV[i0] + A_CSV[i1])[:n])


def rej_csvint_3(i0: int, i1: int, i2: int) -> bool:
    """
    pre: 0 <= i0 < len(A_CSV) and 0 <= i1 < len(A_CSV) and 0 <= i2 < len(A_CSV)
    post: __return__
    """
    return _rej_csvint(A_CSV[i0] + A_CSV[i1] + A_CSV[i2])


def _rej_errcodes(s):
    ok, v = _accepts(ParseErrorCodes, s)
    if not ok:
        return True
    if s.strip() == "*":
        return v == set()
    # "0x7" / "0xa" are well-formed hex codes; a code list needs a digit and must not be empty
    return type(v) is set and len(v) >= 1 and all(type(x) is int for x in v) and _has_digit(s) \
        and not any(ch in ".*" for ch in s)


def rej_errcodes_2(n: int, i0: int, i1: int) -> bool:
    """
    pre: 0 <= n <= 2 and 0 <= i0 < len(A_CSV) and 0 <= i1 < len(A_CSV)
    post: __return__
    """
    return _rej_errcodes((A_CSV[i0] + A_CSV[i1])[:n])


def rej_errcodes_3(i0: int, i1: int, i2: int) -> bool:
    """
    pre: 0 <= i0 < len(A_CSV) and 0 <= i1 < len(A_CSV) and 0 <= i2 < len(A_CSV)
    post: __return__
    """
    return _rej_errcodes(A_CSV[i0] + A_CSV[i1] + A_CSV[i2])


A_ARR = ("x", "=", "1", "{1}", "{}", ",", "{", "}", " ")


def _rej_arrlen(s):
    ok, v = _accepts(ParseArrayLengths, s)
    if not ok:
        return True
    if s.strip() == "":
        return v == {}
    # every accepted non-blank text names at least one array and gives each a non-empty list of ints
    return type(v) is dict and len(v) >= 1 and "=" in s and "1" in s \
        and all(type(k) is str and k != "" and type(vs) is list and len(vs) >= 1 and all(type(x) is int for x in vs)
                for k, vs in v.items())


def rej_arrlen_2(n: int, i0: int, i1: int) -> bool:
    """
    pre: 0 <= n <= 2 and 0 <= i0 < len(A_ARR) and 0 <= i1 < len(A_ARR)
    post: __return__
    """
    return _rej_arrlen("".join([A_ARR[i0], A_ARR[i1]][:n]))


def rej_arrlen_3(i0: int, i1: int, i2: int) -> bool:
    """
    pre: 0 <= i0 < len(A_ARR) and 0 <= i1 < len(A_ARR) and 0 <= i2 < len(A_ARR)
    post: __return__
    """
    return _rej_arrlen(A_ARR[i0] + A_ARR[i1] + A_ARR[i2])


TOKENS = ("LOG", "SSTORE", "SLOAD", " LOG ", "log", "X", "")
VALID = {"LOG": TraceEvent.LOG, "SSTORE": TraceEvent.SSTORE, "SLOAD": TraceEvent.SLOAD}


def _rej_events(toks):
    ok, v = _accepts(ParseCSVTraceEvent, ",".join(toks))
    names = [t.strip() for t in toks if t.strip()]
    if all(t in VALID for t in names):
        return ok and v == [VALID[t] for t in names]
    return not ok


def rej_events_2(n: int, i0: int, i1: int) -> bool:
    """
    pre: 0 <= n <= 2 and 0 <= i0 < len(TOKENS) and 0 <= i1 < len(TOKENS)
    post: __return__
    """
    return _rej_events([TOKENS[i0], TOKENS[i1]][:n])


def rej_events_3(i0: int, i1: int, i2: int) -> bool:
    """
    pre: 0 <= i0 < len(TOKENS) and 0 <= i1 < len(TOKENS) and 0 <= i2 < len(TOKENS)
    post: __return__
    """
    return _rej_events([TOKENS[i0], TOKENS[i1], TOKENS[i2]])
