"""C07 Route P helpers, imported by the generated CrossHair condition file (lib/chx07.py writes it).

Run under CrossHair from /verif/.venv (z3 5.1): the real halmos ByteVec is built from *concrete* chunks only, so no
z3 call is on the path.  Contents are symbolic ints 0..255 packed with bytes([...]); write/read offsets and lengths
are symbolic ints.  The reference is a bytearray that reads as zero beyond its end.
"""

from halmos.bytevec import ByteVec


def r_write(ref: bytearray, start: int, data: bytes) -> None:
    if len(data) == 0:
        return
    if start > len(ref):
        ref.extend(bytes(start - len(ref)))
    ref[start:start + len(data)] = data


def r_read(ref: bytearray, s: int, e: int) -> bytes:
    if e <= s:
        return b""
    x = bytes(ref[s:e])
    return x + bytes((e - s) - len(x))


def r_byte(ref: bytearray, i: int) -> int:
    return ref[i] if i < len(ref) else 0


def mk(shape, xs):
    """ByteVec of len(shape) concrete chunks whose bytes are xs[0], xs[1], ... ; -> (vector, reference)"""
    v = ByteVec()
    ref = bytearray()
    k = 0
    for n in shape:
        b = bytes(xs[k:k + n])
        k += n
        v.append(b)
        ref.extend(b)
    return v, ref


def full_reads(v: ByteVec, ref: bytearray) -> bool:
    """len, whole content, every byte up to two past the end, a zero-extended slice, the first word"""
    n = len(ref)
    if len(v) != n:
        return False
    if v.unwrap() != bytes(ref):
        return False
    for i in range(n + 2):
        if v.get_byte(i) != r_byte(ref, i):
            return False
    if v.slice(0, n + 2).unwrap() != bytes(ref) + b"\x00\x00":
        return False
    if n > 1 and v[1:n].unwrap() != bytes(ref[1:n]):
        return False
    return v.get_word(0) == int.from_bytes(r_read(ref, 0, 32), "big")


def mcopy(v: ByteVec, ref: bytearray, dst: int, src: int, n: int) -> None:
    v.set_slice(dst, dst + n, v.slice(src, src + n))
    r_write(ref, dst, r_read(ref, src, src + n))
