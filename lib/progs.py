"""Program-level harness: one symbolic transaction through the real SEVM and through refevm, obligations O1/O2,
solver dispatch, and concrete replay of every counterexample on both engines."""

from __future__ import annotations

import contextlib
import signal
from dataclasses import dataclass, field

import z3

from lib import bisim, driver, exact, portfolio, refevm
from lib.refevm import bv

from halmos.bitvec import HalmosBitVec as BV
from halmos.bytevec import ByteVec

SELECTOR = bytes.fromhex("aabbccdd")
BLOCK = dict(basefee=bv(0), chainid=bv(31337), coinbase=bv(0), difficulty=bv(0), gaslimit=bv(2**63 - 1),
             number=bv(1), timestamp=bv(1))
THIS = 0x1000000000000000000000000000000000001000


@dataclass
class Prog:
    name: str
    contracts: dict  # addr:int -> runtime bytes
    target: int = THIS
    ncd: int = 2  # symbolic calldata words after the 4-byte selector
    static: bool = False
    options: dict = field(default_factory=dict)
    balances: tuple = ("this", "caller")  # accounts that get a symbolic initial balance
    callvalue_zero: bool = False
    features: tuple = ()
    cd_extra: bytes = b""  # concrete trailing calldata bytes
    loop_bound: int | None = None
    ref_paths: int = 64
    storage_symbolic: bool = False
    cheats: bool = False  # the reference runs with the Foundry cheatcode spec (lib/foundry_spec.py)
    known_preimages: tuple = ()  # byte strings whose keccak appears as a constant in the code (A2 instances)
    script: object = None  # fault script for the branching solver (C02)
    script_name: str = ""


class Inputs:
    """the symbolic inputs of a transaction (all scalars, so witnesses can be replayed concretely)"""

    def __init__(self, p: Prog, concrete: dict | None = None):
        self.p = p
        c = concrete or {}

        def mk(name, n):
            return z3.BitVecVal(c[name], n) if name in c else z3.BitVec(name, n)

        self.cd = [mk(f"cd{i}", 256) for i in range(p.ncd)]
        self.sender = mk("msg_sender", 160)
        self.origin = mk("tx_origin", 160)
        self.value = bv(0) if p.callvalue_zero else mk("msg_value", 256)
        self.bal = {}
        for who in p.balances:
            if who == "this":
                self.bal[("c", p.target)] = mk("bal_this", 256)
            elif who == "caller":
                self.bal[("s", "caller")] = mk("bal_caller", 256)
            else:
                self.bal[("c", who)] = mk(f"bal_{who:x}", 256)

    def names(self):
        out = [f"cd{i}" for i in range(self.p.ncd)] + ["msg_sender", "tx_origin"]
        if not self.p.callvalue_zero:
            out.append("msg_value")
        for k in self.bal:
            out.append(str(self.bal[k]))
        return out

    def balance_items(self):
        """[(addr160 term, value term)] in a fixed order"""
        out = []
        for (kind, who), v in self.bal.items():
            a = self.sender if kind == "s" else z3.BitVecVal(who, 160)
            out.append((a, v))
        return out

    def calldata_bytes(self):
        out = [bv(b, 8) for b in SELECTOR]
        for w in self.cd:
            out += refevm.word_bytes(w)
        out += [bv(b, 8) for b in self.p.cd_extra]
        return out


def run_halmos(p: Prog, inp: Inputs, max_paths=256, timeout_s=60):
    sevm = driver.mk_sevm(**p.options)
    data = ByteVec()
    data.append(SELECTOR)
    for w in inp.cd:
        data.append(BV(w, size=256))
    if p.cd_extra:
        data.append(p.cd_extra)
    w = driver.World(
        code={z3.BitVecVal(a, 160): c for a, c in p.contracts.items()},
        target=z3.BitVecVal(p.target, 160),
        caller=inp.sender, origin=inp.origin, value=inp.value if not p.callvalue_zero else z3.BitVecVal(0, 256),
        data=data, is_static=p.static, storage_symbolic=p.storage_symbolic,
    )
    from halmos.sevm import EMPTY_BALANCE

    w.balance = EMPTY_BALANCE
    ex = driver.mk_exec(sevm, w)
    for a, v in inp.balance_items():
        ex.balance_update(a, v)
    old = signal.signal(signal.SIGALRM, _alarm)
    signal.alarm(timeout_s)
    try:
        if p.script is not None:
            with driver.fault_script(p.script) as fs:
                recs = driver.run(sevm, ex, max_paths=max_paths)
            p.fault_stats = dict(fs)
        else:
            recs = driver.run(sevm, ex, max_paths=max_paths)
    finally:
        signal.alarm(0)
        signal.signal(signal.SIGALRM, old)
    hdata = []
    for r in recs:
        hdata.append(driver.bytevec_bytes(r.data) if r.data is not None else None)
    return sevm, recs, hdata


class HarnessTimeout(Exception):
    pass


def _alarm(*_):
    raise HarnessTimeout()


def run_ref(p: Prog, inp: Inputs, oracle=None, solver_timeout_ms=1000):
    ev = refevm.RefEVM(block=BLOCK, solver_timeout_ms=solver_timeout_ms, loop_bound=p.loop_bound, max_paths=p.ref_paths)
    if p.cheats:
        from lib import foundry_spec

        ev.cheat = foundry_spec.Cheats()
    accounts = {a: refevm.Account(c, refevm.empty_storage(), refevm.empty_storage()) for a, c in p.contracts.items()}
    bal = z3.K(z3.BitVecSort(160), bv(0))
    for a, v in inp.balance_items():
        bal = z3.Store(bal, a, v)
    ends = ev.run_tx(accounts, bal, p.target, z3.ZeroExt(96, inp.sender), z3.ZeroExt(96, inp.origin),
                     inp.value, inp.calldata_bytes(), static=p.static,
                     env={"address_oracle": oracle or [], "known_preimages": tuple(p.known_preimages)})
    return ev, ends


def created_addresses(rec):
    """addresses created along a halmos path, in execution order (A5 address oracle)"""
    out = []

    def walk(ctx):
        for t in ctx.trace:
            if hasattr(t, "message"):
                if t.message.is_create():
                    tgt = t.message.target
                    tgt = z3.simplify(tgt) if z3.is_expr(tgt) else tgt
                    out.append(tgt.as_long() if z3.is_bv_value(tgt) else int(tgt))
                walk(t)

    walk(rec.ex.context)
    return out


def check_program(p: Prog, pool: portfolio.Pool, ctx: dict, stats: dict, observers=None):
    """run both engines on symbolic inputs, submit obligations to the pool; ctx[key] keeps what conclude needs"""
    inp = Inputs(p)
    try:
        sevm, recs, hdata = run_halmos(p, inp)
    except HarnessTimeout:
        return dict(error="halmos run exceeded the harness time limit")
    oracle = []
    for r in recs:
        try:
            ca = created_addresses(r)
        except Exception:
            ca = []
        if len(ca) > len(oracle):
            oracle = ca
    try:
        ev, ends = run_ref(p, inp, oracle=oracle)
    except refevm.Unsupported as e:
        return dict(skipped=f"reference: {e}")
    obls, info = bisim.obligations(recs, hdata, ends, observers=observers, name=p.name)
    info["bounded_loops"] = len(sevm.logs.bounded_loops)
    info["halmos_paths"], info["ref_paths"] = len(recs), len(ends)
    for o in obls:
        ctx[o.key] = dict(prog=p, obl=o, info=info, names=inp.names())
        pool.submit(o.key, o.assertions, model_consts=[z3.BitVec(n, 160 if n in ("msg_sender", "tx_origin") else 256)
                                                       for n in inp.names()])
    stats["programs"] = stats.get("programs", 0) + 1
    stats["multi_path"] = stats.get("multi_path", 0) + (1 if len(recs) > 1 else 0)
    return info


# ---------------------------------------------------------------------------
# replay
# ---------------------------------------------------------------------------
def complete_model(model: dict, names) -> dict:
    out = {}
    for n in names:
        v = model.get(n, 0)
        out[n] = int(v)
    return out


def replay(p: Prog, model: dict):
    """concrete run of both engines on the witness; returns (halmos_summary, ref_summary, agree: bool|None)"""
    inp0 = Inputs(p)
    conc = complete_model(model, inp0.names())
    inp = Inputs(p, concrete=conc)
    try:
        sevm, recs, hdata = run_halmos(p, inp, timeout_s=60)
    except HarnessTimeout:
        return "timeout", None, None
    except Exception as e:
        return f"exception {type(e).__name__}: {e}", None, False
    oracle = []
    for r in recs:
        with contextlib.suppress(Exception):
            ca = created_addresses(r)
            if len(ca) > len(oracle):
                oracle = ca
    try:
        ev, ends = run_ref(p, inp, oracle=oracle)
    except refevm.Unsupported as e:
        return None, f"unsupported {e}", None
    if len(ends) != 1:
        return None, f"reference produced {len(ends)} paths on concrete input", None
    e = ends[0]
    rk = bisim.ref_kind(e)
    if rk == "unsupported":
        return None, e.kind, None
    rdata = [refevm.conc(b) for b in e.data]
    rsum = (rk, bytes(rdata).hex() if all(b is not None for b in rdata) else "symbolic")
    # a concrete input must be covered by exactly the feasible halmos paths; take those whose PC is not false
    feas = []
    for r, d in zip(recs, hdata):
        hk = bisim.halmos_kind(r)
        if d is None:
            feas.append((hk, None))
            continue
        vals = [refevm.conc(exact.inline(b)) for b in d]
        feas.append((hk, bytes(vals).hex() if all(v is not None for v in vals) else "symbolic"))
    hsum = feas
    if any(k == "stuck" for k, _ in feas):
        return hsum, rsum, None
    agree = len(feas) >= 1 and all((k, d) == rsum or (k == "exceptional" == rsum[0]) for k, d in feas)
    if not feas:
        agree = False
    return hsum, rsum, agree
