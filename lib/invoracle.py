"""Ground truth for invariant tests: every sequence of at most d calls to the target functions, with symbolic
arguments, senders (restricted as Foundry's target/exclude sender lists specify), call values the sender can afford and
non-decreasing timestamps, is executed on the reference EVM (one symbolic transaction after another, forking per path);
after each successful call the invariant function is run; "some sequence breaks the invariant or trips an assertion
inside a target" is a set of sat queries decided by the solver portfolio."""

from __future__ import annotations

import itertools
from dataclasses import dataclass, field

import z3

from lib import e2e, oracle, portfolio, refevm
from lib.refevm import bv


@dataclass
class Target:
    addr: int
    spec: e2e.Spec
    sigs: list  # callable signatures (after selector filters)


@dataclass
class SeqState:
    accounts: dict
    balance: object
    env: dict
    rc: list
    assumptions: list
    calls: list  # [(sig, {name: term})]
    consts: list = field(default_factory=list)


def sender_constraint(sender160, target_senders, excluded_senders):
    eff = [a for a in target_senders if a not in excluded_senders]
    if eff:
        return z3.Or(*[sender160 == bv(a, 160) for a in eff])
    if excluded_senders:
        return z3.And(*[sender160 != bv(a, 160) for a in excluded_senders])
    return z3.BoolVal(True)


def step_calls(st: SeqState, targets, depth_idx, target_senders, excluded_senders, with_value=True, max_paths=64, pins=None):
    """-> (list of successor SeqState after one successful call, list of (SeqState, fail_cond) for assertion failures
    inside a target)"""
    nxt, inner_fail, unknown = [], [], []
    for t in targets:
        for sig in t.sigs:
            types = oracle.sig_types(sig)
            if any(oracle.is_dynamic(x) for x in types):
                raise oracle.OracleError("dynamic target parameters are not generated")
            tag = f"c{depth_idx}_{t.addr & 0xFFFF:x}_{sig.split('(')[0]}_"
            a = oracle.mk_args(types, {}, tag=tag)
            cd = oracle.encode(e2e.selector(sig), a)
            sender = z3.BitVec(f"{tag}sender", 160)
            origin = z3.BitVec(f"{tag}origin", 160)
            value = z3.BitVec(f"{tag}value", 256) if with_value else bv(0)
            consts = [z3.BitVec(n, 256) for n in a.names] + [sender, origin] + ([value] if with_value else [])
            pre = list(st.rc) + [sender_constraint(sender, target_senders, excluded_senders)] + a.constraints
            for c in consts:
                if pins and str(c) in pins:
                    pre.append(c == z3.BitVecVal(int(pins[str(c)]), c.size()))
            ev = oracle._ev(max_paths=max_paths)
            try:
                ends = ev.run_tx(st.accounts, st.balance, t.addr, z3.ZeroExt(96, sender), z3.ZeroExt(96, origin), value, cd,
                                 pre_rc=pre, transfer=True, env=dict(st.env))
            except refevm.Unsupported as e:
                unknown.append(f"{sig}: {e}")
                continue
            for e in ends:
                call = (f"{t.spec.name}.{sig}", dict(sender=sender, value=value, args=[a.words[(i,)] for i in range(len(types))]))
                if e.kind.startswith("unsupported"):
                    unknown.append(f"{sig}: {e.kind}")
                    continue
                fc = oracle.fail_condition(e, (1,))
                if not z3.is_false(fc):
                    inner_fail.append((SeqState(st.accounts, st.balance, st.env, list(e.rc) + [fc], list(st.assumptions) + list(e.assumptions),
                                                st.calls + [call], st.consts + consts), z3.BoolVal(True)))
                    continue
                if not e.success:
                    continue
                s2 = e.state
                accounts = {ad: refevm.Account(acc.code, acc.storage, refevm.empty_storage()) for ad, acc in s2.accounts.items()}
                env = {k: v for k, v in s2.env.items() if k in ("timestamp", "number", "basefee", "chainid", "coinbase", "difficulty")}
                env["address_oracle"] = list(st.env.get("address_oracle", []))[len(s2.created):]
                # time passes between transactions: a fresh non-decreasing 64-bit timestamp
                old_ts = env.get("timestamp", oracle.BLOCK["timestamp"])
                tsc = z3.BitVec(f"ts{depth_idx}_{len(nxt)}", 64)
                ts = z3.ZeroExt(192, tsc)
                env["timestamp"] = ts
                pin_ts = [tsc == z3.BitVecVal(int(pins[str(tsc)]), 64)] if pins and str(tsc) in pins else []
                nxt.append(SeqState(accounts, s2.balance, env, list(e.rc) + [z3.UGE(ts, old_ts)] + pin_ts,
                                    list(st.assumptions) + list(e.assumptions), st.calls + [call], st.consts + consts + [z3.BitVec(f"ts{depth_idx}_{len(nxt)}", 64)]))
    return nxt, inner_fail, unknown


def invariant_fails(st: SeqState, inv_sig: str, cap: float):
    """-> ('sat', model) | ('unsat', None) | ('unknown', why)"""
    ev = oracle._ev()
    cd = [bv(b, 8) for b in e2e.selector(inv_sig)]
    try:
        ends = ev.run_tx(st.accounts, st.balance, oracle.TEST, bv(oracle.CALLER), bv(oracle.CALLER), bv(0), cd, pre_rc=list(st.rc),
                         env=dict(st.env))
    except refevm.Unsupported as e:
        return "unknown", str(e), 0.0
    t = 0.0
    unk = None
    for e in ends:
        if e.kind.startswith("unsupported"):
            unk = e.kind
            continue
        fc = oracle.fail_condition(e, (1,))
        if z3.is_false(fc):
            continue
        res = portfolio.solve(list(e.rc) + list(st.assumptions) + list(e.assumptions) + [fc], timeout=cap, model_consts=st.consts)
        t += res.time
        if res.status == "sat":
            return "sat", res.model, t
        if res.status != "unsat":
            unk = f"solver {res.status}"
    return ("unknown", unk, t) if unk else ("unsat", None, t)


@dataclass
class InvTruth:
    status: str  # 'fails' | 'safe' | 'unknown'
    sequence: list | None = None
    model: dict | None = None
    detail: str = ""
    sequences_explored: int = 0
    queries: int = 0
    solver_time: float = 0.0
    min_depth: int | None = None


def dynamic_targets(st: SeqState, specs, allowed=None, banned=None):
    """Foundry without targetContract filters: every deployed contract except the test contract is a target, including
    contracts deployed by earlier target calls.  `specs` tells which functions a deployed runtime code offers."""
    out = []
    by_code = {sp.runtime(): sp for sp in specs}
    for addr, acc in sorted(st.accounts.items()):
        if addr == oracle.TEST or not acc.code:
            continue
        sp = by_code.get(bytes(acc.code))
        if sp is None:
            continue
        sigs = [x for x in sp.sigs() if (allowed is None or x in allowed) and not (banned and x in banned)]
        out.append(Target(addr, sp, sigs))
    return out


def ground_truth(state, targets, inv_sig, depth, target_senders=(), excluded_senders=(), cap=20.0, max_states=400, pins=None,
                 specs=None, address_oracle=()) -> InvTruth:
    accounts, bal, env = state
    env = dict(env)
    env.setdefault("address_oracle", list(address_oracle))
    tr = InvTruth("safe")
    level = [SeqState(accounts, bal, dict(env), [], [], [])]
    unknown = []
    for d in range(0, depth + 1):
        # check the invariant on every state of this level
        for st in level:
            r, m, t = invariant_fails(st, inv_sig, cap)
            tr.queries += 1
            tr.solver_time += t
            tr.sequences_explored += 1
            if r == "sat":
                return InvTruth("fails", [c[0] for c in st.calls], m, f"invariant broken after {len(st.calls)} call(s)", tr.sequences_explored,
                                tr.queries, tr.solver_time, d)
            if r == "unknown":
                unknown.append(str(m))
        if d == depth:
            break
        nxt_level = []
        for st in level:
            tg_now = dynamic_targets(st, specs) if specs is not None else targets
            nxt, inner, unk = step_calls(st, tg_now, d, target_senders, excluded_senders, pins=pins)
            unknown += unk
            for fs, _ in inner:
                res = portfolio.solve(list(fs.rc) + list(fs.assumptions), timeout=cap, model_consts=fs.consts)
                tr.queries += 1
                tr.solver_time += res.time
                if res.status == "sat":
                    return InvTruth("fails", [c[0] for c in fs.calls], res.model, "assertion inside a target call", tr.sequences_explored,
                                    tr.queries, tr.solver_time, d + 1)
                if res.status != "unsat":
                    unknown.append(f"solver {res.status} on inner assertion")
            nxt_level += nxt
            if len(nxt_level) > max_states:
                unknown.append("state explosion in the reference")
                break
        level = nxt_level
    if unknown:
        tr.status, tr.detail = "unknown", "; ".join(unknown[:3])
    return tr
