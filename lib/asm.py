"""Two-pass mini assembler for hand-written EVM programs.

Items:  "ADD" (mnemonic) | int (raw byte) | bytes (raw data) | ("PUSH", value[, nbytes]) |
        ("LABEL", name) -> JUMPDEST | ("PUSHL", name) -> PUSH2 <label offset> | ("MARK", name) (no byte, data offset)
        ("PUSHM", name) -> PUSH2 <mark offset> | ("PUSHSIZE", a, b) -> PUSH2 (mark b - mark a)
"""

from __future__ import annotations

OPCODES = {
    "STOP": 0x00, "ADD": 0x01, "MUL": 0x02, "SUB": 0x03, "DIV": 0x04, "SDIV": 0x05, "MOD": 0x06, "SMOD": 0x07,
    "ADDMOD": 0x08, "MULMOD": 0x09, "EXP": 0x0A, "SIGNEXTEND": 0x0B,
    "LT": 0x10, "GT": 0x11, "SLT": 0x12, "SGT": 0x13, "EQ": 0x14, "ISZERO": 0x15, "AND": 0x16, "OR": 0x17,
    "XOR": 0x18, "NOT": 0x19, "BYTE": 0x1A, "SHL": 0x1B, "SHR": 0x1C, "SAR": 0x1D,
    "SHA3": 0x20, "KECCAK256": 0x20,
    "ADDRESS": 0x30, "BALANCE": 0x31, "ORIGIN": 0x32, "CALLER": 0x33, "CALLVALUE": 0x34, "CALLDATALOAD": 0x35,
    "CALLDATASIZE": 0x36, "CALLDATACOPY": 0x37, "CODESIZE": 0x38, "CODECOPY": 0x39, "GASPRICE": 0x3A,
    "EXTCODESIZE": 0x3B, "EXTCODECOPY": 0x3C, "RETURNDATASIZE": 0x3D, "RETURNDATACOPY": 0x3E, "EXTCODEHASH": 0x3F,
    "BLOCKHASH": 0x40, "COINBASE": 0x41, "TIMESTAMP": 0x42, "NUMBER": 0x43, "DIFFICULTY": 0x44, "PREVRANDAO": 0x44,
    "GASLIMIT": 0x45, "CHAINID": 0x46, "SELFBALANCE": 0x47, "BASEFEE": 0x48,
    "POP": 0x50, "MLOAD": 0x51, "MSTORE": 0x52, "MSTORE8": 0x53, "SLOAD": 0x54, "SSTORE": 0x55, "JUMP": 0x56,
    "JUMPI": 0x57, "PC": 0x58, "MSIZE": 0x59, "GAS": 0x5A, "JUMPDEST": 0x5B, "TLOAD": 0x5C, "TSTORE": 0x5D,
    "MCOPY": 0x5E, "PUSH0": 0x5F,
    "LOG0": 0xA0, "LOG1": 0xA1, "LOG2": 0xA2, "LOG3": 0xA3, "LOG4": 0xA4,
    "CREATE": 0xF0, "CALL": 0xF1, "CALLCODE": 0xF2, "RETURN": 0xF3, "DELEGATECALL": 0xF4, "CREATE2": 0xF5,
    "STATICCALL": 0xFA, "REVERT": 0xFD, "INVALID": 0xFE, "SELFDESTRUCT": 0xFF,
}
for _i in range(1, 33):
    OPCODES[f"PUSH{_i}"] = 0x5F + _i
for _i in range(1, 17):
    OPCODES[f"DUP{_i}"] = 0x7F + _i
    OPCODES[f"SWAP{_i}"] = 0x8F + _i

MNEMONIC = {}
for _k, _v in OPCODES.items():
    MNEMONIC.setdefault(_v, _k)


def push(value: int, nbytes: int | None = None) -> bytes:
    if nbytes is None:
        nbytes = max(1, (value.bit_length() + 7) // 8)
    assert 1 <= nbytes <= 32 and value < (1 << (8 * nbytes))
    return bytes([0x5F + nbytes]) + value.to_bytes(nbytes, "big")


def assemble(items) -> bytes:
    # pass 1: sizes
    def size(it):
        if isinstance(it, int):
            return 1
        if isinstance(it, (bytes, bytearray)):
            return len(it)
        if isinstance(it, str):
            return 1
        tag = it[0]
        if tag == "PUSH":
            return len(push(*it[1:]))
        if tag == "LABEL":
            return 1
        if tag == "MARK":
            return 0
        if tag in ("PUSHL", "PUSHM", "PUSHSIZE"):
            return 3
        raise ValueError(it)

    pos, labels = 0, {}
    for it in items:
        if isinstance(it, tuple) and it[0] in ("LABEL", "MARK"):
            labels[it[1]] = pos
        pos += size(it)
    out = bytearray()
    for it in items:
        if isinstance(it, int):
            out.append(it)
        elif isinstance(it, (bytes, bytearray)):
            out += it
        elif isinstance(it, str):
            out.append(OPCODES[it])
        else:
            tag = it[0]
            if tag == "PUSH":
                out += push(*it[1:])
            elif tag == "LABEL":
                out.append(0x5B)
            elif tag == "MARK":
                pass
            elif tag in ("PUSHL", "PUSHM"):
                out += push(labels[it[1]], 2)
            elif tag == "PUSHSIZE":
                out += push(labels[it[2]] - labels[it[1]], 2)
    return bytes(out)


def creation_code(runtime: bytes, ctor: list | None = None) -> bytes:
    """init code that runs `ctor` items and then returns `runtime`"""
    items = list(ctor or []) + [("PUSHSIZE", "rt_start", "rt_end"), "DUP1", ("PUSHM", "rt_start"), "PUSH0",
                                "CODECOPY", "PUSH0", "RETURN", ("MARK", "rt_start"), runtime, ("MARK", "rt_end")]
    return assemble(items)


def disasm(code: bytes) -> str:
    out, pc = [], 0
    while pc < len(code):
        op = code[pc]
        name = MNEMONIC.get(op, f"0x{op:02x}")
        if 0x60 <= op <= 0x7F:
            n = op - 0x5F
            out.append(f"{name} 0x{code[pc + 1:pc + 1 + n].hex()}")
            pc += 1 + n
        else:
            out.append(name)
            pc += 1
    return " ".join(out)
