"""Path discipline: the real `halmos.sevm.Path` (branch / activate / append / extend / extend_path / slice) driven through
seeded operation histories in the way SEVM and __main__ drive it -- one shared incremental solver, depth-first worklist,
the active path keeps running after it forked a pending sibling, a finished path may be extended by a fresh Path of a
new transaction -- with z3 terms as conditions.  After every operation the solver decides, for the active path,

  mirror     /\\ solver.assertions()  <=>  /\\ expected constraints of that path        (unsliced roots)
  conds      /\\ path.conditions      <=>  /\\ expected constraints of that path
  frozen     a finished parent path that was extended keeps exactly the conditions it had (extend_path copies)

where the expected constraint list of a path is kept by the harness: the parent's list at the time of the fork + the
pending branching condition + everything appended to that path since.  Nothing of another path may appear (isolation),
nothing of its own may be missing (no feasible behaviour dropped by a polluted solver).

A violation carries the history (seed + step) and is replayed by re-running the same history on the real class.
"""

from __future__ import annotations

import random

import z3


def atoms():
    x, y, w = z3.BitVec("px", 256), z3.BitVec("py", 256), z3.BitVec("pw", 256)
    f = z3.Function("pf", z3.BitVecSort(256), z3.BitVecSort(256))
    T = z3.BoolVal(True)
    return [
        T, T, z3.ULT(x, 5), x == 4, z3.UGT(y, 7), x == y, z3.Not(x == 4), z3.ULE(y, 7), w == x + y, z3.ULT(w, x),
        f(x) == y, z3.Not(f(x) == y), z3.And(z3.UGT(x, 1), z3.ULT(x, 9)), z3.Or(x == 0, y == 0), w == 1028, x == 0,
        z3.UGT(x, 100), z3.Extract(7, 0, y) == 3, z3.simplify(z3.And(T, T)), y == 7,
        # conjunctions whose first / last conjunct may already be on the path on its own
        z3.UGT(x, 1), z3.And(z3.UGT(x, 1), y == 7), z3.And(x == 4, z3.UGT(y, 7)), z3.And(z3.UGT(y, 7), x == 4, w == 1028),
    ]


def free_vars(t) -> set:
    """names of the uninterpreted constants of a term (own traversal, not halmos')"""
    out, todo, seen = set(), [t], set()
    while todo:
        x = todo.pop()
        if x.get_id() in seen:
            continue
        seen.add(x.get_id())
        if z3.is_const(x) and x.decl().kind() == z3.Z3_OP_UNINTERPRETED:
            out.add(str(x))
        todo.extend(x.children())
    return out


def equivalent(a: list, b: list, timeout_ms=20000):
    """-> ('yes'|'no'|'unknown', model text)"""
    s = z3.Solver()
    s.set(timeout=timeout_ms)
    A = z3.And(*a) if a else z3.BoolVal(True)
    B = z3.And(*b) if b else z3.BoolVal(True)
    s.add(A != B)
    r = s.check()
    if r == z3.unsat:
        return "yes", ""
    if r == z3.sat:
        m = s.model()
        va, vb = m.eval(A, model_completion=True), m.eval(B, model_completion=True)
        if z3.is_true(va) == z3.is_true(vb):  # the assignment does not separate them when evaluated: not a witness
            return "unknown", ""
        return "no", str(m)[:300]
    return "unknown", ""


class Hist:
    """one history; `ops` is the log (for the replay file)"""

    def __init__(self, seed: str, steps: int, p_true=0.2):
        self.rng = random.Random(seed)
        self.seed, self.steps, self.p_true = seed, steps, p_true
        self.ops = []
        self.queries = 0

    def pick(self, pool, have=()):
        u = self.rng.random()
        if u < self.p_true:
            return pool[0]
        have = [c for c in have if not z3.is_true(c) and not z3.is_and(z3.simplify(c))]
        if u < self.p_true + 0.15 and have:
            # a conjunction one of whose conjuncts is already a constraint of this path
            old, new = self.rng.choice(have), self.rng.choice(pool[2:])
            return z3.And(old, new) if self.rng.random() < 0.5 else z3.And(new, old)
        return self.rng.choice(pool)

    def run(self):
        """-> list of problems: dict(kind, step, detail) ; raises only on harness faults"""
        from halmos.sevm import Path
        from halmos.utils import create_solver

        pool = atoms()
        problems = []
        solver = create_solver()
        active = Path(solver)
        expect = {id(active): []}
        cands = {id(active): {}}  # expected size-candidate table (symbol name -> list) of each path
        nsym = 0
        keep = [active]  # keep every Path alive: id() must stay unique
        stack = []
        outer = []  # worklists of the earlier transactions (their pending siblings are explored afterwards)
        mirror_ok = {id(active): True}
        frozen = []  # (path, snapshot of its conditions)

        def check(step, what):
            nonlocal problems
            exp = expect[id(active)]
            conds = list(active.conditions)
            r, m = equivalent(conds, exp)
            self.queries += 1
            if r != "yes":
                problems.append(dict(kind="conds" if r == "no" else "unknown", step=step, what=what,
                                     detail=f"path.conditions {conds} vs expected {exp}; differ at {m}"))
            if mirror_ok[id(active)]:
                asr = list(active.solver.assertions())
                r, m = equivalent(asr, exp)
                self.queries += 1
                if r != "yes":
                    problems.append(dict(kind="mirror" if r == "no" else "unknown", step=step, what=what,
                                         detail=f"solver holds {asr} but the active path is {exp}; differ at {m}"))
            got = {str(k): list(v) for k, v in active.concretization.candidates.items()}
            if got != cands[id(active)]:
                problems.append(dict(kind="candidates", step=step, what=what,
                                     detail=f"size candidates known to the active path {got} vs registered on it or its "
                                            f"ancestors {cands[id(active)]}"))
            for p, snap in frozen:
                if list(p.conditions) != snap:
                    # a finished path (e.g. the setUp path) changed after something was started from it: what does the
                    # next test started from it see?
                    q = Path(create_solver())
                    q.extend_path(p)
                    r, m = equivalent(list(q.conditions), expect[id(p)])
                    self.queries += 1
                    if r == "no":
                        problems.append(dict(kind="leak", step=step, what=what,
                                             detail=f"a path started now from an earlier finished path inherits {list(q.conditions)}; "
                                                    f"that path ended with {expect[id(p)]}; differ at {m}"))

        for step in range(self.steps):
            u = self.rng.random()
            if u < 0.08:
                # symbolic calldata with a dynamic parameter is created on this path (test calldata, svm.createCalldata)
                from halmos.calldata import DynamicParam

                sym = z3.BitVec(f"p_len_{nsym}", 256)
                nsym += 1
                choices = self.rng.choice([[0, 1, 2], [32], [0, 65, 1024]])
                self.ops.append(("dyn", str(sym), choices))
                active.process_dyn_params([DynamicParam(f"a{nsym}", list(choices), sym, None)])
                cands[id(active)] = {**cands[id(active)], str(sym): list(choices)}
                check(step, "dyn-param")
            elif u < 0.45:
                c = self.pick(pool, expect[id(active)])
                self.ops.append(("append", str(c)))
                active.append(c)
                expect[id(active)] = expect[id(active)] + [c]
                check(step, "append")
            elif u < 0.80:
                # fork: k pending siblings (k > 1: the cheatcode-style fan-out), the active path keeps running
                k = 1 if self.rng.random() < 0.7 else self.rng.choice([2, 3])
                for _ in range(k):
                    c = self.pick(pool, expect[id(active)])
                    self.ops.append(("branch", str(c)))
                    child = active.branch(c)
                    keep.append(child)
                    expect[id(child)] = expect[id(active)] + [c]
                    cands[id(child)] = dict(cands[id(active)])
                    mirror_ok[id(child)] = mirror_ok[id(active)]
                    stack.append(child)
                if k == 1 and not z3.is_true(z3.simplify(c)) and self.rng.random() < 0.8:
                    nc = z3.Not(c)
                    self.ops.append(("append-neg", str(nc)))
                    active.append(nc, branching=True)
                    expect[id(active)] = expect[id(active)] + [nc]
                check(step, "branch")
            else:
                # the active path ends
                if not stack and outer and self.rng.random() < 0.7:
                    stack = outer.pop()  # this transaction is fully explored: back to the previous worklist
                if stack and self.rng.random() < 0.85:
                    self.ops.append(("finish-activate",))
                    active = stack.pop()
                    active.activate()
                    check(step, "activate")
                else:
                    # a new transaction starts from the finished path (fresh solver, as __main__ does)
                    do_slice = self.rng.random() < 0.4
                    self.ops.append(("extend_path", do_slice))
                    old = active
                    if do_slice and old.sliced is None:
                        vs = set()
                        for c in list(old.conditions)[:2]:
                            vs |= set(old.get_var_set(c))
                        old.slice(vs)
                    if old.sliced is not None and do_slice:
                        # every constraint that mentions a sliced (state) variable belongs to the slice
                        want = [c for c in old.conditions if free_vars(c) & {str(v) for v in vs}]
                        have = [c for i, c in enumerate(old.conditions) if i in old.sliced]
                        for c in want:
                            if not any(c.eq(h) for h in have):
                                problems.append(dict(kind="slice", step=step, what="slice",
                                                     detail=f"the slice for variables {sorted(str(v) for v in vs)} lacks the constraint {c} "
                                                            f"(slice = {have})"))
                                break
                    frozen.append((old, list(old.conditions)))
                    solver = create_solver()
                    active = Path(solver)
                    keep.append(active)
                    active.extend_path(old)
                    expect[id(active)] = list(expect[id(old)])
                    cands[id(active)] = dict(cands[id(old)])
                    mirror_ok[id(active)] = old.sliced is None
                    outer.append(stack)
                    stack = []
                    check(step, "extend_path")
        return problems
