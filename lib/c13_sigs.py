"""C13: the forge-std `vm.assert*` signature grammar and the meaning of each signature, derived from its TEXT.

Nothing in this module looks at halmos.  `all_signatures()` expands the grammar of the assertion section of
forge-std's Vm.sol (VmSafe): every returned `Sem` carries the signature string, its real keccak selector and the
semantic relation read off the signature text (operator from the name, signedness from uint256/int256, element
type / array-ness from the first parameter, whether a trailing `string` error message is present, how many
extra uint256 parameters (decimals, maxDelta) sit between the operands and the message).
"""

from __future__ import annotations

import re
from dataclasses import dataclass

from eth_hash.auto import keccak

WORD_TYPES = ["bool", "uint256", "int256", "address", "bytes32"]
BYTES_TYPES = ["string", "bytes"]
EQ_TYPES = WORD_TYPES + BYTES_TYPES
NUM_TYPES = ["uint256", "int256"]
CMP_OPS = ["Gt", "Ge", "Lt", "Le"]


@dataclass(frozen=True)
class Sem:
    sig: str
    selector: int
    op: str  # True False Eq NotEq Lt Gt Le Ge ApproxEqAbs ApproxEqRel (the Decimal suffix is stripped: it only formats)
    typ: str  # element type of the operands (bool uint256 int256 address bytes32 string bytes)
    array: bool  # operands are T[]
    nops: int  # number of operands (1 for True/False, else 2)
    extra: int  # uint256 parameters after the operands that do not take part in Eq/Lt/... (decimals)
    has_msg: bool
    decimal: bool

    @property
    def signed(self) -> bool:
        return self.typ == "int256"

    @property
    def param_types(self) -> list[str]:
        return self.sig[self.sig.index("(") + 1:-1].split(",")


def selector_of(sig: str) -> int:
    return int.from_bytes(keccak(sig.encode())[:4], "big")


def parse(sig: str) -> Sem:
    """the meaning of one signature, from its text only"""
    m = re.fullmatch(r"assert([A-Za-z]+)\(([^()]*)\)", sig)
    if not m:
        raise ValueError(sig)
    name, params = m.group(1), m.group(2).split(",")
    decimal = name.endswith("Decimal")
    op = name[: -len("Decimal")] if decimal else name
    if op in ("True", "False"):
        nops = 1
    elif op in ("Eq", "NotEq", "Lt", "Gt", "Le", "Ge", "ApproxEqAbs", "ApproxEqRel"):
        nops = 2
    else:
        raise ValueError(sig)
    t0 = params[0]
    if any(p != t0 for p in params[:nops]):
        raise ValueError(f"operands of different type: {sig}")
    rest = params[nops:]
    has_msg = bool(rest) and rest[-1] == "string"
    if has_msg:
        rest = rest[:-1]
    if any(p != "uint256" for p in rest):
        raise ValueError(f"unexpected extra parameter: {sig}")
    array = t0.endswith("[]")
    typ = t0[:-2] if array else t0
    if typ not in EQ_TYPES:
        raise ValueError(sig)
    return Sem(sig, selector_of(sig), op, typ, array, nops, len(rest), has_msg, decimal)


def all_signatures() -> list[Sem]:
    sigs: list[str] = []

    def both(name, params):
        sigs.append(f"{name}({','.join(params)})")
        sigs.append(f"{name}({','.join(params + ['string'])})")

    for name in ("assertTrue", "assertFalse"):
        both(name, ["bool"])
    for name in ("assertEq", "assertNotEq"):
        for t in EQ_TYPES:
            both(name, [t, t])
        for t in EQ_TYPES:
            both(name, [t + "[]", t + "[]"])
        for t in NUM_TYPES:
            both(name + "Decimal", [t, t, "uint256"])
    for op in CMP_OPS:
        for t in NUM_TYPES:
            both(f"assert{op}", [t, t])
            both(f"assert{op}Decimal", [t, t, "uint256"])
    for kind in ("Abs", "Rel"):
        for t in NUM_TYPES:
            both(f"assertApproxEq{kind}", [t, t, "uint256"])
            both(f"assertApproxEq{kind}Decimal", [t, t, "uint256", "uint256"])
    out = [parse(s) for s in sigs]
    assert len({s.sig for s in out}) == len(out)
    return out


def by_selector() -> dict[int, list[Sem]]:
    d: dict[int, list[Sem]] = {}
    for s in all_signatures():
        d.setdefault(s.selector, []).append(s)
    return d
