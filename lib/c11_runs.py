"""C11 path sources: generated programs (one tx), two-transaction runs (second tx extends the *sliced* end state of the
first, through the real Exec.path_slice / Path.extend_path / SEVM.run_message), dedicated one-instruction programs
for every arithmetic abstraction, and e2e contracts through the real run_contract (setUp -> check_*, invariant_)."""

from __future__ import annotations

import signal

import z3

from lib import asm, c11_core as core, driver, e2e, progs

from halmos.bitvec import HalmosBitVec as BV
from halmos.bytevec import ByteVec

R32 = [("PUSH", 0), "MSTORE", ("PUSH", 32), ("PUSH", 0), "RETURN"]


def cd(i):
    return [("PUSH", 4 + 32 * i), "CALLDATALOAD"]


# ---------------------------------------------------------------------------
# dedicated programs: every abstraction symbol / width must occur in some path condition
# ---------------------------------------------------------------------------
ARITY = {"DIV": 2, "SDIV": 2, "MOD": 2, "SMOD": 2, "MUL": 2, "EXP": 2, "ADDMOD": 3, "MULMOD": 3}


def op_programs():
    out = []
    for op, n in ARITY.items():
        # op(cd0.., cdn-1) == cdn  decides a branch: the abstraction term enters both path conditions
        items = []
        for i in reversed(range(n)):
            items += cd(i)
        items += [op] + cd(n) + ["EQ", ("PUSHL", "t"), "JUMPI", ("PUSH", 1)] + R32 + [("LABEL", "t"), ("PUSH", 2)] + R32
        p = progs.Prog(f"op#{op}", {progs.THIS: asm.assemble(items)}, ncd=n + 1)
        p.features = (op,)
        out.append(p)
        # signed comparison of the result with a constant (exercises sign handling of the exact definitions)
        items = []
        for i in reversed(range(n)):
            items += cd(i)
        items += [op, ("PUSH", (1 << 256) - 1), "EQ", ("PUSHL", "t"), "JUMPI", ("PUSH", 1)] + R32 + [("LABEL", "t"), ("PUSH", 2)] + R32
        p = progs.Prog(f"op#{op}-eq-minus1", {progs.THIS: asm.assemble(items)}, ncd=n)
        p.features = (op,)
        out.append(p)
    # nested abstractions: (a*b)/c % d, sdiv of smod, addmod of mulmod
    items = cd(3) + cd(2) + cd(1) + cd(0) + ["MUL", "DIV", "MOD", ("PUSH", 5), "LT", ("PUSHL", "t"), "JUMPI", ("PUSH", 1)] + R32 + [
        ("LABEL", "t"), ("PUSH", 2)] + R32
    out.append(progs.Prog("op#nest-mul-div-mod", {progs.THIS: asm.assemble(items)}, ncd=4))
    items = cd(2) + cd(1) + cd(0) + ["SMOD", "SDIV", ("PUSH", 3), "SLT", ("PUSHL", "t"), "JUMPI", ("PUSH", 1)] + R32 + [
        ("LABEL", "t"), ("PUSH", 2)] + R32
    out.append(progs.Prog("op#nest-smod-sdiv", {progs.THIS: asm.assemble(items)}, ncd=3))
    items = cd(2) + cd(1) + cd(2) + cd(1) + cd(0) + ["MULMOD", "ADDMOD", ("PUSH", 9), "GT", ("PUSHL", "t"), "JUMPI", ("PUSH", 1)] + R32 + [
        ("LABEL", "t"), ("PUSH", 2)] + R32
    out.append(progs.Prog("op#nest-mulmod-addmod", {progs.THIS: asm.assemble(items)}, ncd=3))
    # constant operands that are not powers of two (halmos keeps the abstraction or folds; either way refine must be exact)
    for op, k in (("DIV", 7), ("MOD", 7), ("SDIV", 7), ("SMOD", 7), ("MUL", 7)):
        items = [("PUSH", k)] + cd(0) + [op] + cd(1) + ["EQ", ("PUSHL", "t"), "JUMPI", ("PUSH", 1)] + R32 + [("LABEL", "t"), ("PUSH", 2)] + R32
        out.append(progs.Prog(f"op#{op}-by-{k}", {progs.THIS: asm.assemble(items)}, ncd=2))
    for p in out:
        p.features = tuple(getattr(p, "features", ())) or ("arith",)
    return out


def t2_specials():
    """first tx leaves a non-state constraint (cd0 > 1000) and a state constraint (stored cd1 < 10)"""
    tx = (cd(0) + [("PUSH", 1000), "LT", ("PUSHL", "a"), "JUMPI", "PUSH0", "PUSH0", "REVERT", ("LABEL", "a")]
          + cd(1) + ["DUP1", ("PUSH", 10), "GT", ("PUSHL", "b"), "JUMPI", "PUSH0", "PUSH0", "REVERT", ("LABEL", "b"),
                     ("PUSH", 0), "SLOAD", ("PUSH", 5), "LT", ("PUSHL", "c"), "JUMPI"]
          + [("PUSH", 0), "SSTORE", ("PUSH", 1)] + R32 + [("LABEL", "c"), "POP", ("PUSH", 0), "SLOAD"] + cd(0) + ["DIV"] + R32)
    p = progs.Prog("t2s#assume-store", {progs.THIS: asm.assemble(tx)}, ncd=2)
    p.features = ("t2",)
    return [p]


# ---------------------------------------------------------------------------
# running a program with a probe at yield time
# ---------------------------------------------------------------------------
class Timeout(Exception):
    pass


def _alarm(*_):
    raise Timeout()


def _mk_world(p: progs.Prog, inp: progs.Inputs):
    data = ByteVec()
    data.append(progs.SELECTOR)
    for w in inp.cd:
        data.append(BV(w, size=256))
    if p.cd_extra:
        data.append(p.cd_extra)
    w = driver.World(
        code={z3.BitVecVal(a, 160): c for a, c in p.contracts.items()},
        target=z3.BitVecVal(p.target, 160),
        caller=inp.sender, origin=inp.origin, value=inp.value if not p.callvalue_zero else z3.BitVecVal(0, 256),
        data=data, is_static=p.static,
    )
    from halmos.sevm import EMPTY_BALANCE

    w.balance = EMPTY_BALANCE
    return w


def run_prog(p: progs.Prog, probe, max_paths=64, timeout_s=60):
    """one symbolic tx through the real SEVM; probe(sevm, ex, index) is called at yield time. -> (sevm, recs)"""
    core.install_hooks()
    sevm = driver.mk_sevm(**p.options)
    inp = progs.Inputs(p)
    ex = driver.mk_exec(sevm, _mk_world(p, inp))
    for a, v in inp.balance_items():
        ex.balance_update(a, v)
    counter = {"i": 0}

    def pr(sevm_, ex_):
        i = counter["i"]
        counter["i"] += 1
        return probe(sevm_, ex_, i)

    old = signal.signal(signal.SIGALRM, _alarm)
    signal.alarm(timeout_s)
    try:
        recs = driver.run(sevm, ex, probe=pr, max_paths=max_paths)
    finally:
        signal.alarm(0)
        signal.signal(signal.SIGALRM, old)
    return sevm, inp, recs


def run_second_tx(sevm, p: progs.Prog, inp: progs.Inputs, pre_ex, probe, tag, max_paths=24, timeout_s=60):
    """what run_target_function does: fresh solver, Path.extend_path(sliced parent), SEVM.run_message"""
    from halmos.__main__ import mk_solver
    from halmos.sevm import Message, Path
    from halmos.utils import EVM

    data = ByteVec()
    data.append(progs.SELECTOR)
    for i in range(p.ncd):
        data.append(BV(z3.BitVec(f"{tag}_cd{i}", 256), size=256))
    solver = mk_solver(sevm.options)
    path = Path(solver)
    path.extend_path(pre_ex.path)
    msg = Message(target=z3.BitVecVal(p.target, 160), caller=inp.sender, origin=inp.origin, value=z3.BitVecVal(0, 256),
                  data=data, call_scheme=EVM.CALL, is_static=False)
    out = []
    old = signal.signal(signal.SIGALRM, _alarm)
    signal.alarm(timeout_s)
    try:
        with driver.quiet():
            for ex in sevm.run_message(pre_ex, msg, path):
                out.append(probe(sevm, ex, len(out)))
                if len(out) >= max_paths:
                    break
    finally:
        signal.alarm(0)
        signal.signal(signal.SIGALRM, old)
    return out


# ---------------------------------------------------------------------------
# e2e contracts
# ---------------------------------------------------------------------------
def tgt_spec():
    arg = e2e.arg
    set_ = arg(0) + ["DUP1", ("PUSH", 50), "GT", ("PUSHL", "ok"), "JUMPI", "PUSH0", "PUSH0", "REVERT", ("LABEL", "ok"), "PUSH0", "SSTORE"]
    inc = ["PUSH0", "SLOAD", ("PUSH", 1), "ADD", "PUSH0", "SSTORE"]
    # p = (a << 1) * b is even: the odd branch is feasible only under the abstraction of MUL (cheap to refute after refine)
    mulset = arg(1) + arg(0) + [("PUSH", 1), "SHL", "MUL", "DUP1", ("PUSH", 1), "AND", "ISZERO", ("PUSHL", "ok"), "JUMPI", "PUSH0", "PUSH0",
                                "REVERT", ("LABEL", "ok"), ("PUSH", 1), "SSTORE"]
    x = ["PUSH0", "SLOAD", "PUSH0", "MSTORE", ("PUSH", 32), "PUSH0", "RETURN"]
    return e2e.Spec("Tgt", fns=[("set(uint256)", set_), ("inc()", inc), ("mulset(uint256,uint256)", mulset), ("x()", x, "view")])


def _sym(name):
    b = name.encode()
    return e2e.call_cheat("createUint256(string)", [[("PUSH", 0x20)], [("PUSH", len(b))],
                                                    [("PUSH", int.from_bytes(b.ljust(32, b"\0"), "big"), 32)]],
                          target=e2e.SVM, ret_words=1) + ["POP", ("PUSH", 0x80), "MLOAD"]


def test_spec(t: e2e.Spec, name="T"):
    arg, panic = e2e.arg, e2e.panic
    init = t.creation()
    setup = [("PUSHSIZE", "is", "ie"), ("PUSHM", "is"), ("PUSH", 0x100), "CODECOPY",
             ("PUSHSIZE", "is", "ie"), ("PUSH", 0x100), "PUSH0", "CREATE", ("PUSH", 1), "SSTORE"]
    # state constraint: stored s < 100
    setup += _sym("s") + ["DUP1", ("PUSH", 100), "GT", ("PUSHL", "ok1"), "JUMPI", "PUSH0", "PUSH0", "REVERT", ("LABEL", "ok1"), "PUSH0", "SSTORE"]
    # non-state constraint: block.timestamp (warped to a fresh symbol) > 1000
    setup += _sym("t") + e2e.call_cheat("warp(uint256)", [["DUP1"]]) + ["POP", "POP"]
    setup += [("PUSH", 1000), "TIMESTAMP", "GT", ("PUSHL", "ok2"), "JUMPI", "PUSH0", "PUSH0", "REVERT", ("LABEL", "ok2")]
    setup += ["STOP", ("MARK", "is"), init, ("MARK", "ie"), bytes(33)]
    check_ts = [("PUSH", 1000), "TIMESTAMP", "GT", ("PUSHL", "ok"), "JUMPI"] + panic(1) + [("LABEL", "ok")]
    check_state = [("PUSH", 100), "PUSH0", "SLOAD", "LT", ("PUSHL", "ok"), "JUMPI"] + panic(1) + [("LABEL", "ok")]
    check_even = arg(1) + arg(0) + [("PUSH", 1), "SHL", "MUL", ("PUSH", 1), "AND", "ISZERO", ("PUSHL", "ok"), "JUMPI"] + panic(1) + [("LABEL", "ok")]
    check_div = arg(1) + arg(0) + ["DIV", ("PUSH", 3), "EQ", "ISZERO", ("PUSHL", "ok"), "JUMPI"] + panic(1) + [("LABEL", "ok")]
    check_smod = [("PUSH", 2)] + arg(0) + ["SMOD", ("PUSH", (1 << 256) - 1), "EQ", "ISZERO", ("PUSHL", "ok"), "JUMPI"] + panic(1) + [("LABEL", "ok")]
    selx = int.from_bytes(e2e.selector("x()"), "big")
    inv = [("PUSH", selx << 224, 32), "PUSH0", "MSTORE", ("PUSH", 32), ("PUSH", 32), ("PUSH", 4), "PUSH0", ("PUSH", 1), "SLOAD", "GAS",
           "STATICCALL", "POP", ("PUSH", 50), ("PUSH", 32), "MLOAD", "LT", ("PUSHL", "ok"), "JUMPI"] + panic(1) + [("LABEL", "ok")]
    inv_ts = [("PUSH", 1000), "TIMESTAMP", "GT", ("PUSHL", "ok"), "JUMPI"] + panic(1) + [("LABEL", "ok")]
    return e2e.Spec(name, fns=[("check_ts()", check_ts), ("check_state(uint256)", check_state),
                               ("check_even(uint256,uint256)", check_even), ("check_div(uint256,uint256)", check_div),
                               ("check_smod(uint256)", check_smod),
                               ("invariant_x()", inv), ("invariant_ts()", inv_ts), ("setUp()", setup)])


class E2ECapture:
    """in the harness process only: snapshot every path the real engine yields during run_contract, remember the state
    it extends, and record every query/file the real code hands to the external solver"""

    def __init__(self, per_fn=6):
        self.per_fn = per_fn  # snapshots per function signature (each costs two fresh z3 contexts)
        self.seen_fn = {}
        self.skipped = 0
        self.snaps = []  # (Snap)
        self.calls = []  # dict(query, is_refined, cache, text, result, path_id)
        self.reg = {}  # id(SMTQuery) -> (query, conds, parent)
        self.busy = False

    def __enter__(self):
        import halmos.__main__ as hm
        import halmos.solve as hs
        from halmos.sevm import SEVM, Path

        core.install_hooks()
        self._hm, self._hs, self._SEVM, self._Path = hm, hs, SEVM, Path
        self._real = dict(run=SEVM.run, to_smt2=Path.to_smt2, sll_s=hs.solve_low_level, sll_m=hm.solve_low_level,
                          refine=hs.PathContext.refine)
        cap = self

        def run(sevm, ex0):
            for ex in cap._real["run"](sevm, ex0):
                fn = getattr(sevm.fun_info, "sig", "?")
                par = getattr(ex.path, "_c11_parent", None)
                slot = (fn, par.depth if par else 0)
                if cap.seen_fn.get(slot, 0) >= cap.per_fn:
                    cap.skipped += 1
                elif not cap.busy:
                    cap.seen_fn[slot] = cap.seen_fn.get(slot, 0) + 1
                    cap.busy = True
                    try:
                        s = core.snapshot(ex.path, f"yield{len(cap.snaps)}")
                        s.meta["fn"] = fn
                        s.meta["error"] = type(ex.context.output.error).__name__ if ex.context.output.error else None
                        cap.snaps.append(s)
                    finally:
                        cap.busy = False
                yield ex

        def to_smt2(path, args):
            q = cap._real["to_smt2"](path, args)
            if not cap.busy:
                cap.reg[id(q)] = (q, list(path.conditions), getattr(path, "_c11_parent", None))
            return q

        def refine(pc):
            r = cap._real["refine"](pc)
            if id(pc.query) in cap.reg:
                q0, conds, par = cap.reg[id(pc.query)]
                cap.reg[id(r.query)] = (r.query, conds, par)
            return r

        def mk_sll(real):
            def solve_low_level(path_ctx):
                out = real(path_ctx)
                try:
                    text = path_ctx.dump_file.read_text()
                except Exception:  # noqa: BLE001
                    text = None
                cap.calls.append(dict(query=path_ctx.query, refined=path_ctx.is_refined, cache=bool(path_ctx.args.cache_solver),
                                      text=text, result=str(out.result), path_id=path_ctx.path_id))
                return out
            return solve_low_level

        SEVM.run = run
        Path.to_smt2 = to_smt2
        hs.PathContext.refine = refine
        hs.solve_low_level = mk_sll(self._real["sll_s"])
        hm.solve_low_level = mk_sll(self._real["sll_m"])
        return self

    def __exit__(self, *exc):
        self._SEVM.run = self._real["run"]
        self._Path.to_smt2 = self._real["to_smt2"]
        self._hs.PathContext.refine = self._real["refine"]
        self._hs.solve_low_level = self._real["sll_s"]
        self._hm.solve_low_level = self._real["sll_m"]


E2E_GROUPS = {
    "checks": ["check_ts()", "check_state(uint256)", "check_even(uint256,uint256)", "check_div(uint256,uint256)", "check_smod(uint256)"],
    "invariant_x": ["invariant_x()"],
    "invariant_ts": ["invariant_ts()"],
}


def run_e2e(cache: bool, group="checks", depth=2, per_fn=6):
    t = tgt_spec()
    T = test_spec(t)
    with E2ECapture(per_fn) as cap:
        out = e2e.run(T, others=[t], funsigs=E2E_GROUPS[group], cache_solver=cache, invariant_depth=depth)
    return cap, out
