"""Shared driver for C03/C04: generated test contracts through the real run_contract, verdicts and counterexamples
compared with the solver-decided ground truth of lib/oracle.py."""

from __future__ import annotations

import os
import re
import shutil
import tempfile

from lib import common, e2e, e2egen, oracle

CONFIGS = [
    dict(name="yices/solidity", over=dict(solver="yices")),
    dict(name="yices/generic", over=dict(solver="yices", storage_layout="generic")),
    dict(name="yices/panic*", over=dict(solver="yices", panic_error_codes=set()), panic="*"),
    dict(name="z3cmd/solidity", over=dict(solver_command="/venv/bin/z3"), no_arith=True),
    dict(name="yices/panic1+11", over=dict(solver="yices", panic_error_codes={1, 0x11}), panic=(1, 0x11)),
    # the dump directory already holds the query files of an earlier run of a different contract with the same test names
    dict(name="yices/reused-dump-dir", over=dict(solver="yices"), decoy=True),
    dict(name="yices/cache-solver", over=dict(solver="yices", cache_solver=True)),
    # the same candidate lengths, given in a non-increasing order
    dict(name="yices/unsorted-lengths", over=dict(solver="yices"), lens=dict(bytes=[33, 0, 1], array=[2, 0, 1])),
]
_FLAG_WORDS = ("loop unrolling bound", "incomplete execution", "internal-error", "Encountered")
_TOK = re.compile(r"\(|\)|\|[^|]*\||[^\s()]+")


def sexprs(text: str):
    """minimal s-expression reader (independent of halmos' regex)"""
    toks = _TOK.findall(text)
    pos = 0

    def rd():
        nonlocal pos
        t = toks[pos]
        pos += 1
        if t == "(":
            out = []
            while pos < len(toks) and toks[pos] != ")":
                out.append(rd())
            pos += 1
            return out
        return t

    out = []
    while pos < len(toks):
        try:
            out.append(rd())
        except IndexError:
            break
    return out


def model_of_output(text: str) -> dict:
    """{name: int} for every (define-fun name () (_ BitVec n) value) in a solver's output"""
    out = {}

    def val(v):
        if isinstance(v, str):
            if v.startswith("#x"):
                return int(v[2:], 16)
            if v.startswith("#b"):
                return int(v[2:], 2)
            return None
        if isinstance(v, list) and len(v) == 3 and v[0] == "_" and isinstance(v[1], str) and v[1].startswith("bv"):
            return int(v[1][2:])
        return None

    def walk(x):
        if isinstance(x, list):
            if len(x) == 5 and x[0] == "define-fun" and x[2] == [] and isinstance(x[1], str):
                name = x[1].strip("|")
                v = val(x[4])
                if v is not None and isinstance(x[3], list) and x[3][:2] == ["_", "BitVec"]:
                    out[name] = v
            for y in x:
                walk(y)

    for s in sexprs(text):
        walk(s)
    return out


def cex_values(pm, types, lens_cand):
    """PotentialModel -> (lens, values in oracle naming)"""
    vals, lens = {}, {}
    mv = pm.model
    for i, t in enumerate(types):
        if not e2egen.e2e_is_dyn(t):
            for name, v in mv.items():
                if name.startswith(f"p_p{i}_{t}_"):
                    vals[f"a{i}"] = v.value
            continue
        ln = None
        for name, v in mv.items():
            if name.startswith(f"p_p{i}_length_"):
                ln = v.value
        if ln is None:
            ln = lens_cand[i][0]
        lens[i] = ln
        if t in ("bytes", "string"):
            for name, v in mv.items():
                if name.startswith(f"p_p{i}_{t}_"):
                    raw = v.value.to_bytes(v.size_bits // 8, "big")
                    for k in range(min(ln, len(raw))):
                        vals[f"a{i}_b{k}"] = raw[k]
        else:
            base = t[:-2]
            for k in range(ln):
                for name, v in mv.items():
                    if name.startswith(f"p_p{i}[{k}]_{base}_"):
                        vals[f"a{i}_e{k}"] = v.value
    return lens, vals


def handmade_contract():
    """fixed test functions for interaction patterns the random grammar hits rarely"""
    a, dl, dw = e2egen.arg, e2egen.dyn_len, e2egen.dyn_word
    fns, metas = [("setUp()", [("PUSH", 3), ("PUSH", 0), "SSTORE"])], []

    def add(sig, body, atoms, kinds, failure):
        fns.append((sig, body))
        types = oracle.sig_types(sig)
        metas.append({"sig": sig, "types": types, "atoms": atoms, "kinds": kinds, "failure": failure, "form": "hand"})

    # one arm pins x (x == 5) and stops; the sibling arm re-reads x and y from calldata
    add("check_reload(uint256,uint256)",
        a(1) + ["ISZERO", ("PUSHL", "z"), "JUMPI"] + a(0) + [("PUSH", 7), "EQ"] + a(1) + [("PUSH", 1), "EQ", "AND", ("PUSHL", "bad"), "JUMPI", "STOP",
                                                                                       ("LABEL", "z")] + a(0) + [("PUSH", 5), "EQ", ("PUSHL", "five"), "JUMPI", "STOP", ("LABEL", "five"), "STOP",
                                                                                                                 ("LABEL", "bad")] + e2e.panic(1),
        ["y==0 ? (x==5 ? stop : stop) : (x==7 && y==1 => fail)"], ["plain"], "Panic(1)")
    # same with the pinning arm explored through an inner equality on the SAME word that the failing arm needs different
    add("check_reload2(uint256)",
        a(0) + [("PUSH", 5), "EQ", ("PUSHL", "five"), "JUMPI"] + a(0) + [("PUSH", 9), "EQ", ("PUSHL", "bad"), "JUMPI", "STOP", ("LABEL", "five"), "STOP",
                                                                         ("LABEL", "bad")] + e2e.panic(1),
        ["x==5 ? stop : (x==9 => fail)"], ["plain"], "Panic(1)")
    # two dynamic parameters: fails only for |a| == 1 and |b| == 2
    add("check_lens(uint256[],uint256[])",
        [("PUSH", 1)] + dl(0) + ["EQ", ("PUSH", 2)] + dl(1) + ["EQ", "AND", ("PUSHL", "bad"), "JUMPI", "STOP", ("LABEL", "bad")] + e2e.panic(1),
        ["len(a0)==1 && len(a1)==2"], ["dyn"], "Panic(1)")
    add("check_lens2(bytes,uint256[])",
        [("PUSH", 33)] + dl(0) + ["EQ", ("PUSH", 2)] + dl(1) + ["EQ", "AND", ("PUSH", 7)] + dw(1, 1) + ["EQ", "AND", ("PUSHL", "bad"), "JUMPI", "STOP",
                                                                                                     ("LABEL", "bad")] + e2e.panic(1),
        ["len(a0)==33 && len(a1)==2 && a1[1]==7"], ["dyn"], "Panic(1)")
    # symbolic EXP: never fails concretely (no x,y < 4 with x**y == 6), the solver model depends on f_evm_exp
    add("check_exp(uint256,uint256)",
        [("PUSH", 6)] + a(1) + a(0) + ["EXP", "EQ", ("PUSH", 4)] + a(0) + ["LT", "AND", ("PUSH", 4)] + a(1) + ["LT", "AND", ("PUSHL", "bad"), "JUMPI", "STOP",
                                                                                                               ("LABEL", "bad")] + e2e.panic(1),
        ["a0**a1 == 6 && a0<4 && a1<4"], ["exp"], "Panic(1)")
    add("check_exp2(uint256,uint256)",
        [("PUSH", 8)] + a(1) + a(0) + ["EXP", "EQ", ("PUSH", 4)] + a(0) + ["LT", "AND", ("PUSH", 4)] + a(1) + ["LT", "AND", ("PUSHL", "bad"), "JUMPI", "STOP",
                                                                                                               ("LABEL", "bad")] + e2e.panic(1),
        ["a0**a1 == 8 && a0<4 && a1<4"], ["exp"], "Panic(1)")
    # narrow signed parameters: the only failing input is negative (a sign-extended word)
    add("check_neg(int128)", a(0) + [("PUSH", (1 << 256) - 5, 32), "EQ", ("PUSHL", "bad"), "JUMPI", "STOP", ("LABEL", "bad")] + e2e.panic(1),
        ["a0 == -5"], ["plain"], "Panic(1)")
    add("check_neg8(int8,uint8)", a(0) + [("PUSH", (1 << 256) - 1, 32), "EQ"] + a(1) + [("PUSH", 200), "EQ", "AND", ("PUSHL", "bad"), "JUMPI", "STOP",
                                                                                   ("LABEL", "bad")] + e2e.panic(1),
        ["a0 == -1 && a1 == 200"], ["plain"], "Panic(1)")
    return e2e.Spec("H0", fns=fns), metas


def run_contract_case(case):
    """worker: one generated contract under one configuration -> recorded events (for both C03 and C04)"""
    seed, k, cfg_i, tier, want = case
    cfg = CONFIGS[cfg_i]
    rec = common.Recorder(tier=tier, seed=seed)
    if k == "hand":
        spec, metas = handmade_contract()
    else:
        g = e2egen.TG(f"c03-{seed}-{k}")
        spec, metas = g.contract(f"G{k}", nfn=8)
    if cfg.get("no_arith"):
        keep = [("setUp()", spec.fns[0][1])] + [f for f, m in zip(spec.fns[1:], metas) if not ({"arith", "exp"} & set(m["kinds"]))]
        metas = [m for m in metas if not ({"arith", "exp"} & set(m["kinds"]))]
        spec = e2e.Spec(spec.name, fns=keep)
    if not metas:
        return rec.events, {}
    dump = tempfile.mkdtemp(prefix="verif_c03_")
    stats = {"tests": 0, "pass": 0, "fail": 0, "other": 0, "truth_fails": 0, "truth_safe": 0, "truth_unknown": 0,
             "valid_cex": 0, "invalid_cex": 0, "arith_tests": 0, "dyn_tests": 0}
    try:
        over = dict(cfg["over"], dump_smt_queries=True, dump_smt_directory=dump, solver_timeout_assertion=60000)
        lens = cfg.get("lens") or dict(bytes=list(e2egen.BYTES_LENS), array=list(e2egen.ARRAY_LENS))
        over.update(default_bytes_lengths=list(lens["bytes"]), default_array_lengths=list(lens["array"]))
        if cfg.get("decoy"):
            dspec, _ = e2egen.TG(f"decoy-{seed}-{k}").contract(spec.name, nfn=8)
            e2e.run(dspec, **over)
        o = e2e.run(spec, **over)
        if o.exception is not None or len(o.results) != len(metas):
            rec.harness_error(f"run_contract on {spec.name}/{cfg['name']}: {o.exception!r} results={len(o.results)} "
                              f"warnings={o.warnings[:2]}")
            return rec.events, stats
        state = oracle.post_setup(spec)
        panic = cfg.get("panic", (1,))
        flagged_global = [m for lvl, m in o.warnings if any(w in m for w in _FLAG_WORDS)]
        for meta in metas:
            sig, types = meta["sig"], meta["types"]
            r = o.result(sig)
            key = f"{cfg['name']}/{'+'.join(meta['kinds'])}/{meta['failure']}"
            ident = f"{spec.name}:{sig} [{' && '.join(meta['atoms'])} => {meta['failure']}] cfg={cfg['name']}"
            stats["tests"] += 1
            stats["arith_tests"] += "arith" in meta["kinds"]
            stats["dyn_tests"] += "dyn" in meta["kinds"]
            lc = e2egen.len_candidates(types)
            truth = oracle.ground_truth(spec, sig, state, lc, panic_codes=panic, cap=20 if tier == "quick" else 90)
            rec.events.append(("solver", truth.solver_time, "portfolio"))
            stats[f"truth_{truth.status}"] += 1
            verdict = {0: "PASS", 1: "FAIL"}.get(r.exitcode, f"other({r.exitcode})")
            stats["pass" if verdict == "PASS" else "fail" if verdict == "FAIL" else "other"] += 1
            flagged = bool(flagged_global) or (r.num_bounded_loops or 0) > 0
            if "C03" in want:
                if truth.status == "unknown":
                    rec.inconc("pass-sound", ident, f"ground truth undecided: {truth.detail}")
                elif verdict == "PASS" and not flagged:
                    if truth.status == "fails":
                        ok, kind = oracle.replay(spec, sig, state, truth.lens, truth.witness, panic_codes=panic)
                        if ok:
                            rec.violation("pass-sound", key, f"{ident}: halmos reports a clean PASS but the arguments "
                                          f"{fmt(truth.witness)} (lengths {truth.lens}) make the concrete execution end in "
                                          f"a failure ({kind})",
                                          {"contract": spec.name, "sig": sig, "meta": meta, "config": cfg["name"],
                                           "witness": truth.witness, "lens": truth.lens, "seed": seed, "k": k,
                                           "halmos_line": o.line(sig)})
                        else:
                            rec.inconc("pass-sound", ident, f"ground-truth witness does not replay ({kind})")
                    else:
                        rec.ok("pass-sound", ident)
                elif verdict == "PASS":
                    rec.ok("pass-sound/flagged", ident, nontrivial=False)
                elif truth.status == "fails":
                    rec.ok("reachable-failure-not-passed", ident)
                else:
                    # not PASS although no admissible input fails: fail-safe direction (spurious FAIL/ERROR is not C03)
                    rec.ok("non-pass-on-safe-test", ident, nontrivial=False)
            if "C04" in want:
                outs = None
                for pm in (r.models or []):
                    if not pm.is_valid:
                        stats["invalid_cex"] += 1
                        continue
                    stats["valid_cex"] += 1
                    lens, vals = cex_values(pm, types, lc)
                    ok, kind = oracle.replay(spec, sig, state, lens, vals, panic_codes=panic)
                    if ok:
                        rec.ok("valid-cex-reproduces", ident)
                    elif ok is False:
                        rec.violation("valid-cex-reproduces", key,
                                      f"{ident}: counterexample marked valid {fmt(vals)} lengths {lens} does not fail when "
                                      f"executed concretely (reference ends {kind})",
                                      {"contract": spec.name, "sig": sig, "meta": meta, "config": cfg["name"], "values": vals,
                                       "lens": lens, "seed": seed, "k": k, "model": str(pm)})
                    else:
                        rec.inconc("valid-cex-reproduces", ident, f"replay undecided: {kind}")
                    # the printed values are those of the solver's model (independent re-parse of the solver output)
                    if outs is None:
                        outs = []
                        d = os.path.join(dump, sig.split("(")[0])
                        for fn in sorted(os.listdir(d)) if os.path.isdir(d) else []:
                            if fn.endswith(".out"):
                                with open(os.path.join(d, fn)) as fh:
                                    txt = fh.read()
                                if txt.lstrip().startswith("sat"):
                                    outs.append((fn, model_of_output(txt)))
                    mine = {n: v.value for n, v in pm.model.items()}
                    if any(all(m.get(n) == v for n, v in mine.items()) and
                           {n for n in m if n.startswith(("p_", "halmos_"))} == set(mine) for _, m in outs):
                        rec.ok("printed-equals-solver-model", ident)
                    elif outs:
                        rec.violation("printed-equals-solver-model", key,
                                      f"{ident}: the values halmos reports {fmt(mine)} match no solver output file "
                                      f"({[fn for fn, _ in outs]})",
                                      {"contract": spec.name, "sig": sig, "config": cfg["name"], "reported": mine,
                                       "solver_outputs": {fn: {n: hex(v) for n, v in m.items()} for fn, m in outs}, "seed": seed, "k": k})
                    else:
                        rec.inconc("printed-equals-solver-model", ident, "no solver output file found")
                # a test whose only counterexamples are invalid must not be reported with valid ones: covered above;
                # conversely a reachable failure on exactly-modelled paths should yield a valid cex (diagnostic)
        return rec.events, stats
    except oracle.OracleError as e:
        rec.inconc("oracle", f"{spec.name}/{cfg['name']}", str(e))
        return rec.events, stats
    finally:
        shutil.rmtree(dump, ignore_errors=True)


def fmt(d):
    return "{" + ", ".join(f"{k}={v:#x}" if isinstance(v, int) else f"{k}={v}" for k, v in sorted(d.items())) + "}"


def run_suite(run, want, ncontracts, nproc=6):
    cases = [(run.seed, "hand", ci, run.tier, tuple(want)) for ci in (0, 1, 6, 7)]
    for k in range(ncontracts):
        for ci in range(len(CONFIGS)):
            if ci >= 2 and (k + ci) % 3 != 0 and run.tier == "quick":
                continue
            cases.append((run.seed, k, ci, run.tier, tuple(want)))
    total = {}
    for res in common.parallel_map(run_contract_case, cases, nproc):
        if res and res[0] == "error":
            run.harness_error("worker crashed: " + res[1].strip().splitlines()[-1])
            continue
        events, stats = res
        common.replay_events(run, events)
        for k, v in stats.items():
            total[k] = total.get(k, 0) + v
    return total
