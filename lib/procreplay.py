"""Deterministic replay of a schedule on the REAL halmos.processes classes (property C17).

Run as a subprocess:  python -m lib.procreplay < job.json > result.json
The harness process (only) replaces `halmos.processes.Popen` and `halmos.processes.psutil` by simulated processes and
installs a per-thread `sys.settrace` gate on the frames of processes.py: a thread stops in front of every statement
that the extractor (lib/procbmc.py) declared *visible* and continues only when the scheduler grants it that step.
After every step the set of parked threads and their source lines must equal the model's prediction; any difference is
reported as `diverged` (a harness/translation problem, never a violation).

job = {src, scenario, consts, gate_lines, stmt_of, steps, parked_init, probe}
result = {status: ok|diverged, reason, observed_lines, state (after the last step), probe_state (after letting every
          thread run freely without further environment events), threads_alive}
"""

from __future__ import annotations

import json
import logging
import os
import subprocess
import sys
import threading
import time

P_NONE, P_RUN, P_EXIT, P_KILL = 0, 1, 2, 3
STEP_TIMEOUT = float(os.environ.get("C17_STEP_TIMEOUT", "15"))


def state_diffs(J, final, obs):
    """differences between the model's predicted state and the state observed on the real classes"""
    diffs = []

    def chk(name, a, b):
        if a != b:
            diffs.append(f"{name}: model {a} real {b}")
    chk("flag", bool(final["flag"]), obs["flag"])
    chk("lock held", final["lock"] != 63, obs["locked"])
    chk("sdret", bool(final["sdret"]), obs["sdret"])
    chk("sdretw", bool(final.get("sdretw", False)), obs.get("sdretw", False))
    reg = sorted((final[f"regpos{j}"], j) for j in range(J) if final[f"regpos{j}"] != 7)
    chk("registry", [j for _, j in reg], obs["registry"])
    for j in range(J):
        for v in ("proc", "pf", "exc", "done", "nset", "started", "acc", "rej", "res"):
            a, b = final[f"{v}{j}"], obs[f"{v}{j}"]
            chk(f"{v}{j}", a if isinstance(a, bool) else int(a), b if isinstance(b, bool) else int(b))
    return diffs


class World:
    def __init__(self, J, consts):
        self.cv = threading.Condition()
        self.state = [P_NONE] * J
        self.timeout_now = [False] * J
        self.hasto = [bool(consts.get(f"hasto{j}")) for j in range(J)]
        self.pfail = [bool(consts.get(f"pfail{j}")) for j in range(J)]
        self.igterm = [bool(consts.get(f"igterm{j}")) for j in range(J)]


class FakeStream:
    def __init__(self):
        self.closed = False

    def close(self):
        self.closed = True


def make_fakes(W: World, real_psutil):
    class FakePopen:
        def __init__(self, cmd, *a, **kw):
            j = int(cmd[1])
            if W.pfail[j]:
                raise OSError(2, "simulated: solver binary cannot be started")
            self.args, self.j, self.pid = cmd, j, 40000 + j
            self.stdout, self.stderr, self.stdin = FakeStream(), FakeStream(), None
            with W.cv:
                W.state[j] = P_RUN
                W.cv.notify_all()

        @property
        def returncode(self):
            return {P_EXIT: 0, P_KILL: -9}.get(W.state[self.j])

        def poll(self):
            return self.returncode

        def communicate(self, input=None, timeout=None):
            with W.cv:
                while True:
                    if W.state[self.j] != P_RUN:
                        return ("unsat\n" if W.state[self.j] == P_EXIT else "", "")
                    if W.timeout_now[self.j] and timeout is not None:
                        W.timeout_now[self.j] = False
                        raise subprocess.TimeoutExpired(self.args, timeout)
                    W.cv.wait()

    class FakePsProcess:
        def __init__(self, pid):
            self.j = pid - 40000
            if W.state[self.j] != P_RUN:
                raise real_psutil.NoSuchProcess(pid)
            self.pid = pid

        def children(self, recursive=False):
            return []

        def terminate(self):
            with W.cv:
                if W.state[self.j] != P_RUN:
                    raise real_psutil.NoSuchProcess(self.pid)
                if not W.igterm[self.j]:
                    W.state[self.j] = P_KILL
                W.cv.notify_all()

        def kill(self):
            with W.cv:
                if W.state[self.j] != P_RUN:
                    raise real_psutil.NoSuchProcess(self.pid)
                W.state[self.j] = P_KILL
                W.cv.notify_all()

        def wait(self, timeout=None):
            if W.state[self.j] == P_RUN:
                raise real_psutil.TimeoutExpired(timeout, self.pid)
            return 0

        def is_running(self):
            return W.state[self.j] == P_RUN

    class FakePsutil:
        Process = FakePsProcess
        NoSuchProcess = real_psutil.NoSuchProcess
        TimeoutExpired = real_psutil.TimeoutExpired
        AccessDenied = real_psutil.AccessDenied
        ZombieProcess = real_psutil.ZombieProcess
        Error = real_psutil.Error

    return FakePopen, FakePsutil


class Sched:
    def __init__(self, fn, gate_lines, stmt_of):
        self.fn, self.gate_lines, self.stmt_of = fn, set(gate_lines), stmt_of
        self.cv = threading.Condition()
        self.waiting: dict[str, tuple] = {}
        self.granted = None
        self.free = False
        self.tls = threading.local()
        self.current_sweep = 0
        self.observed = []
        self.nset: dict[int, int] = {}
        self.started: set[int] = set()
        self.seq = 0
        self.errors = []

    # ---- tracing
    def global_trace(self, frame, event, arg):
        code = frame.f_code
        if event != "call":
            return None
        if code.co_filename == self.fn:
            if code.co_name == "run":
                s = frame.f_locals.get("self")
                if s is not None:
                    self.started.add(int(s.cmd[1]))
            return self.make_local()
        if code.co_name == "set_result" and code.co_filename.endswith(os.path.join("concurrent", "futures", "_base.py")):
            s = frame.f_locals.get("self")
            cmd = getattr(s, "cmd", None)
            if cmd:
                j = int(cmd[1])
                self.nset[j] = self.nset.get(j, 0) + 1
        return None

    def make_local(self):
        prev = [None]

        def local(frame, event, arg):
            if event == "line":
                ln = frame.f_lineno
                sid = self.stmt_of.get(ln, ln)
                if ln in self.gate_lines and sid != prev[0]:
                    self.gate(frame, ln)
                prev[0] = sid
            return local
        return local

    def name_of(self, frame):
        n = getattr(self.tls, "name", None)
        if n:
            return n
        code = frame.f_code
        s = frame.f_locals.get("self")
        j = int(s.cmd[1]) if s is not None and hasattr(s, "cmd") else -1
        if code.co_name == "run":
            n = f"worker:{j}"
        else:
            n = f"cancel:{self.current_sweep}:{j}"
        self.tls.name = n
        return n

    def gate(self, frame, line):
        if self.free:
            return
        name = self.name_of(frame)
        with self.cv:
            self.seq += 1
            self.waiting[name] = (line, self.seq)
            self.cv.notify_all()
            while not (self.free or self.granted == name):
                self.cv.wait()
            if self.granted == name:
                self.granted = None
            self.waiting.pop(name, None)
            self.cv.notify_all()

    # ---- scheduler side
    def parked(self):
        return {k: v[0] for k, v in self.waiting.items()}

    def sync(self, expected: dict, timeout=STEP_TIMEOUT):
        with self.cv:
            ok = self.cv.wait_for(lambda: self.parked() == expected, timeout)
            return ok, self.parked()

    def grant(self, name):
        with self.cv:
            old = self.waiting.get(name)
            self.granted = name
            self.cv.notify_all()
            self.cv.wait_for(lambda: self.waiting.get(name) != old, STEP_TIMEOUT)

    def release_all(self):
        with self.cv:
            self.free = True
            self.cv.notify_all()


def main():
    job = json.load(sys.stdin)
    sys.path.insert(0, job["src"])
    logging.disable(logging.CRITICAL)
    import psutil as real_psutil

    import halmos.processes as P

    sc = job["scenario"]
    J = sc["J"]
    W = World(J, job["consts"])
    FakePopen, FakePsutil = make_fakes(W, real_psutil)
    P.Popen = FakePopen
    P.psutil = FakePsutil
    stmt_of = {int(k): v for k, v in job["stmt_of"].items()}
    S = Sched(P.__file__, job["gate_lines"], stmt_of)
    crashes = []
    threading.excepthook = lambda a: crashes.append(f"{a.thread.name}: {a.exc_type.__name__}")

    ex = P.PopenExecutor()
    futs = [P.PopenFuture(["job", str(j)], timeout=(5.0 if W.hasto[j] else None)) for j in range(J)]
    hs = {"acc": [False] * J, "rej": [False] * J, "res": [0] * J, "sdret": False, "sdretw": False, "crash": {}, "finished": []}

    def do_op(op, who, swallow):
        kind = op[0]
        if kind == "submit":
            try:
                ex.submit(futs[op[1]])
                hs["acc"][op[1]] = True
            except P.ShutdownError:
                if swallow:
                    raise
                hs["rej"][op[1]] = True
                return False
        elif kind == "result":
            try:
                futs[op[1]].result()
                hs["res"][op[1]] = 1
            except subprocess.TimeoutExpired:
                hs["res"][op[1]] = 2
            except Exception:
                hs["res"][op[1]] = 3
        elif kind == "shutdown":
            ex.shutdown(wait=bool(op[1]))
            hs["sdret" if not op[1] else "sdretw"] = True
        elif kind in ("cancel", "done", "exception"):
            getattr(futs[op[1]], kind)()
        else:
            raise ValueError(op)
        return True

    def client(name, ops):
        S.tls.name = f"client:{name}"
        try:
            for op in ops:
                if not do_op(op, name, False):
                    break
        except BaseException as e:  # noqa: BLE001
            hs["crash"][f"client:{name}"] = type(e).__name__
        hs["finished"].append(f"client:{name}")

    def mk_cb(ops):
        def cb(_f):
            for op in ops:
                try:
                    do_op(op, "cb", True)
                except Exception:  # swallowed by Future._invoke_callbacks in the real code; each op is one callback
                    pass
        return cb

    for j, ops in sc["callbacks"].items():
        for op in ops:
            futs[int(j)].add_done_callback(mk_cb([op]))

    threading.settrace(S.global_trace)
    threads = []
    for name, ops in sc["clients"]:
        t = threading.Thread(target=client, args=(name, ops), name=f"client:{name}", daemon=True)
        threads.append(t)
        t.start()

    def observe():
        st = {"flag": ex._shutdown.is_set(), "locked": ex._lock.locked(),
              "registry": [int(f.cmd[1]) for f in list(ex._futures)], "sdret": hs["sdret"], "sdretw": hs["sdretw"]}
        for j in range(J):
            f = futs[j]
            e = f._exception
            st[f"proc{j}"] = W.state[j]
            st[f"pf{j}"] = f.process is not None
            st[f"exc{j}"] = 0 if e is None else 1 if isinstance(e, subprocess.TimeoutExpired) else 2
            st[f"done{j}"] = f.done()
            st[f"nset{j}"] = min(3, S.nset.get(j, 0))
            st[f"started{j}"] = j in S.started
            st[f"acc{j}"], st[f"rej{j}"], st[f"res{j}"] = hs["acc"][j], hs["rej"][j], hs["res"][j]
        return st

    res = {"status": "ok", "reason": "", "observed": []}
    ok, got = S.sync(job["parked_init"])
    if not ok:
        res.update(status="diverged", reason=f"initial parking: expected {job['parked_init']} got {got}")
    k = -1
    if res["status"] == "ok":
        for k, st in enumerate(job["steps"]):
            if st["kind"] == "env":
                with W.cv:
                    if W.state[st["job"]] != P_RUN:
                        res.update(status="diverged", reason=f"step {k}: process {st['job']} not running")
                        break
                    W.state[st["job"]] = P_EXIT
                    W.cv.notify_all()
                res["observed"].append(["env", st["job"]])
            else:
                name = st["thread"]
                cur = S.parked().get(name)
                if cur != st["line"]:
                    res.update(status="diverged", reason=f"step {k}: {name} parked at {cur}, model says {st['line']}")
                    break
                if st.get("tag") == "communicate" and st.get("label") == "timeout":
                    j = int(name.split(":")[1])
                    with W.cv:
                        W.timeout_now[j] = True
                if "sweep" in st:
                    S.current_sweep = st["sweep"]
                res["observed"].append([name, cur])
                S.grant(name)
            ok, got = S.sync(st["parked_after"])
            if not ok:
                res.update(status="diverged",
                           reason=f"after step {k} ({st.get('thread', 'env')} line {st.get('line')}): expected parked "
                                  f"{st['parked_after']} got {got}")
                break
    res["steps_done"] = k + 1
    # threads that ran past their last gate finish asynchronously (harness bookkeeping, Future.set_result): wait until
    # the observed state equals the model's prediction, or give up after 3 s and report what is there
    expect = job.get("final")
    for _ in range(60):
        time.sleep(0.05)
        res["state"] = observe()
        if not expect or not state_diffs(J, expect, res["state"]):
            break
    res["crashes"] = list(crashes)
    res["client_crash"] = dict(hs["crash"])
    # ---- probe: let every thread run freely, no further environment events
    if job.get("probe", True) and res["status"] == "ok":
        S.release_all()
        last, stable_since = None, time.time()
        t_end = time.time() + 3.0
        while time.time() < t_end:
            snap = (json.dumps(observe(), sort_keys=True), tuple(sorted(t.name for t in threading.enumerate())))
            if snap != last:
                last, stable_since = snap, time.time()
            elif time.time() - stable_since > 0.4:
                break
            time.sleep(0.05)
        res["probe_state"] = observe()
        res["probe_alive"] = sorted(t.name for t in threading.enumerate() if t is not threading.main_thread())
        res["probe_clients_finished"] = sorted(hs["finished"])
    # ---- teardown: every simulated process exits, gates open
    S.release_all()
    with W.cv:
        for j in range(J):
            if W.state[j] == P_RUN:
                W.state[j] = P_EXIT
        W.timeout_now = [False] * J
        W.cv.notify_all()
    for t in threads:
        t.join(1.0)
    sys.stdout.write(json.dumps(res))
    sys.stdout.flush()
    os._exit(0)


if __name__ == "__main__":
    main()
