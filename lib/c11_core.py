"""C11 core: snapshot a path's queries through the *real* Path.to_smt2 / refine / dump, parse the texts back with
z3's SMT-LIB parser into the same context and decide the equivalences with a solver.

Nothing of halmos is modelled here.  What is independent:
  * `named_strip`   -- my reading of SMT-LIB `(! t :named n)` (= t) so that z3's API parser (which would turn it into a
                       tracking implication of its own) sees the standard meaning;
  * `Sem`           -- which exact EVM operation an abstraction symbol stands for, discovered by running the one
                       opcode through the real SEVM (the symbol that DIV emits is unsigned division, ...), with the
                       name table of DESIGN section 0.2 as fall-back;
  * `inline_exact`  -- innermost-first replacement of every abstraction application by the exact operation
                       (division / remainder by zero = 0); f_evm_exp_256 stays uninterpreted on both sides.
"""

from __future__ import annotations

import pathlib
import re
import subprocess
import time
from dataclasses import dataclass, field

import z3

from lib import driver, portfolio

from halmos.bitvec import HalmosBitVec as BV
from halmos.sevm import Path

YICES = "/venv/bin/yices-smt2"
Z3BIN = "/venv/bin/z3"

# ---------------------------------------------------------------------------
# harness-side hooks (in this process only): remember which parent a path extends
# ---------------------------------------------------------------------------
_HOOKED = False


@dataclass
class ParentInfo:
    conds: list  # snapshot of the parent's constraint list when the child was created
    sliced: set | None  # parent's `sliced` index set (None: parent was not sliced)
    depth: int = 1  # number of extend_path hops up to the root
    state_vars: set | None = None  # ids of the free constants of the parent's state when it was sliced


def install_hooks():
    """wrap Path.extend_path / Path.branch so that a path knows the (sliced) state it extends"""
    global _HOOKED
    if _HOOKED:
        return
    _HOOKED = True
    from halmos.sevm import Exec

    real_extend, real_branch, real_slice = Path.extend_path, Path.branch, Exec.path_slice

    def extend_path(self, path):
        prev = getattr(path, "_c11_parent", None)
        self._c11_parent = ParentInfo(list(path.conditions), None if path.sliced is None else set(path.sliced),
                                      1 + (prev.depth if prev else 0), getattr(path, "_c11_statevars", None))
        return real_extend(self, path)

    def path_slice(self):
        try:
            self.path._c11_statevars = state_vars_of(self)
        except Exception:  # noqa: BLE001
            self.path._c11_statevars = None
        return real_slice(self)

    Exec.path_slice = path_slice

    def branch(self, cond):
        p = real_branch(self, cond)
        pi = getattr(self, "_c11_parent", None)
        if pi is not None:
            p._c11_parent = pi
        return p

    Path.extend_path, Path.branch = extend_path, branch


# ---------------------------------------------------------------------------
# snapshot (must run at yield time)
# ---------------------------------------------------------------------------
@dataclass
class Snap:
    key: str
    conds: list
    ids: list
    qp: object  # SMTQuery, cache_solver off
    qc: object  # SMTQuery, cache_solver on
    qp2: str  # second, independent to_smt2 call (replay text)
    qc2: str
    parent: ParentInfo | None = None
    solver_asserts: list | None = None
    meta: dict = field(default_factory=dict)


_ARGS = {}


def args_pair():
    if not _ARGS:
        _ARGS["plain"] = driver.mk_options(cache_solver=False)
        _ARGS["cache"] = driver.mk_options(cache_solver=True)
    return _ARGS["plain"], _ARGS["cache"]


def snapshot(path: Path, key: str, ex=None) -> Snap:
    """two real to_smt2 calls (cache off / on).  A second, independent pair (the replay texts) is produced right here,
    while the path is still the active one, whenever the first pair is not term-for-term the constraint list -- i.e.
    exactly when a counterexample may have to be replayed later (each call costs a fresh z3 context)."""
    a0, a1 = args_pair()
    conds = list(path.conditions)
    ids = [str(c.get_id()) for c in conds]
    qp, qc = path.to_smt2(a0), path.to_smt2(a1)
    qp2, qc2 = qp.smtlib, qc.smtlib
    want = {c.get_id() for c in conds}
    try:
        same_p = {x.get_id() for x in parse(qp.smtlib)[0]} == want
    except ParseFailure:
        same_p = False
    try:
        pc, _ = parse(qc.smtlib)
        same_c = all(z3.is_implies(x) for x in pc) and {x.arg(1).get_id() for x in pc} == want
    except ParseFailure:
        same_c = False
    if not same_p:
        qp2 = path.to_smt2(a0).smtlib
    if not same_c:
        qc2 = path.to_smt2(a1).smtlib
    s = Snap(key, conds, ids, qp, qc, qp2, qc2, parent=getattr(path, "_c11_parent", None))
    s.meta["regenerated"] = (not same_p, not same_c)
    try:
        s.solver_asserts = list(path.solver.assertions())
    except Exception:
        s.solver_asserts = None
    return s


def state_vars_of(ex) -> set:
    """free constants of the state (balance, symbolic code, storage values): my own collector, ids of z3 consts"""
    terms = [ex.balance]
    for c in ex.code.values():
        code = getattr(c, "_code", None)
        for ch in getattr(code, "chunks", {}).values() if code is not None else []:
            d = getattr(ch, "data", None)
            if z3.is_expr(d):
                terms.append(d)
            elif hasattr(d, "as_z3"):
                terms.append(d.as_z3())
    for st in ex.storage.values():
        for v in getattr(st, "_mapping", {}).values():
            if z3.is_expr(v):
                terms.append(v)
    return {c.get_id() for c in portfolio.free_consts([t for t in terms if z3.is_expr(t)])}


# ---------------------------------------------------------------------------
# texts through the real refine / dump
# ---------------------------------------------------------------------------
def texts(snap: Snap, tmpdir: str) -> dict:
    """{(mode, refined, what): text}; what in {'query','dump'}; produced by the real halmos.solve functions"""
    from halmos.solve import PathContext, SolvingContext, dump

    out = {}
    a0, a1 = args_pair()
    d = pathlib.Path(tmpdir)
    sc = _solving_ctx(d, SolvingContext)
    for mode, args, q in (("plain", a0, snap.qp), ("cache", a1, snap.qc)):
        pc = PathContext(args=args, path_id=0, solving_ctx=sc, query=q)
        rc = pc.refine()
        for ref, c in ((False, pc), (True, rc)):
            out[(mode, ref, "query")] = c.query.smtlib
            f = c.dump_file
            if f.exists():
                f.unlink()
            dump(c)
            out[(mode, ref, "dump")] = f.read_text()
            out[(mode, ref, "file")] = str(f)
            out[(mode, ref, "ids")] = list(c.query.assertions)
            # keep a private copy: the next (mode) overwrites 0.smt2
            keep = d / f"{mode}{'.refined' if ref else ''}.smt2"
            keep.write_text(out[(mode, ref, "dump")])
            out[(mode, ref, "file")] = str(keep)
    return out


_SC = {}


def _solving_ctx(d, SolvingContext):
    k = str(d)
    if k not in _SC:
        _SC.clear()
        _SC[k] = SolvingContext(dump_dir=d)
    return _SC[k]


# ---------------------------------------------------------------------------
# SMT-LIB text -> z3 assertions in the main context
# ---------------------------------------------------------------------------
_NAMED = re.compile(r"\(!\s+(\|[^|]*\||[^\s()|]+)\s+:named\s+([^\s()]+)\s*\)")


def named_strip(text: str):
    """`(! t :named n)` is `t` (SMT-LIB 2.6 section 3.6.1 / 4.2.x: the name is an abbreviation).  Only atoms `t` are
    handled (that is all halmos emits); anything else leaves ':named' in the text and is reported as unsupported."""
    names = []

    def rep(m):
        names.append((m.group(1), m.group(2)))
        return m.group(1)

    out = _NAMED.sub(rep, text)
    return out, names


class ParseFailure(Exception):
    pass


def parse(text: str, ctx=None):
    """-> (assertions, names) ; raises ParseFailure(msg)"""
    t, names = named_strip(text)
    if ":named" in t:
        raise ParseFailure("unsupported :named form")
    try:
        v = z3.parse_smt2_string(t, ctx=ctx)
    except z3.Z3Exception as e:
        raise ParseFailure(str(e)[:300])
    return list(v), names


# ---------------------------------------------------------------------------
# abstraction symbols: which EVM operation each stands for
# ---------------------------------------------------------------------------
NAME_TABLE = re.compile(r"^f_evm_(bvudiv|bvurem|bvmul|bvsdiv|bvsrem)_(\d+)$")
EXP_NAME = "f_evm_exp_256"


def abstraction_apps(exprs):
    """all applications of uninterpreted f_evm_* symbols in exprs -> {ast id: app}, {name: decl}"""
    apps, decls, seen, stack = {}, {}, set(), list(exprs)
    while stack:
        e = stack.pop()
        i = e.get_id()
        if i in seen:
            continue
        seen.add(i)
        if z3.is_quantifier(e):
            stack.append(e.body())
            continue
        if z3.is_app(e):
            d = e.decl()
            if d.kind() == z3.Z3_OP_UNINTERPRETED and e.num_args() > 0 and d.name().startswith("f_evm_"):
                apps[i] = e
                decls[d.name()] = d
            stack.extend(e.children())
    return apps, decls


class Sem:
    """symbol name -> kind in {bvmul,bvudiv,bvurem,bvsdiv,bvsrem} | None (no definition: EXP)"""

    def __init__(self):
        self.kind: dict[str, str | None] = {}
        self.source: dict[str, str] = {}
        self.notes: list[str] = []

    def discover(self):
        """run each arithmetic opcode once through the real SEVM on symbolic operands and read off the symbol"""
        OPC = {"MUL": 0x02, "DIV": 0x04, "SDIV": 0x05, "MOD": 0x06, "SMOD": 0x07, "ADDMOD": 0x08, "MULMOD": 0x09, "EXP": 0x0A}
        BIN = {"MUL": "bvmul", "DIV": "bvudiv", "SDIV": "bvsdiv", "MOD": "bvurem", "SMOD": "bvsrem"}
        sevm = driver.mk_sevm()
        a, b, n = (z3.BitVec(f"__sem_{x}", 256) for x in "abn")
        for op, code in OPC.items():
            ws = [BV(a, size=256), BV(b, size=256)] + ([BV(n, size=256)] if op in ("ADDMOD", "MULMOD") else [])
            try:
                recs = driver.one_insn(sevm, code, ws)
                t = driver.word_to_z3(recs[0].stack[0])
            except Exception as e:  # noqa: BLE001
                self.notes.append(f"{op}: discovery failed ({type(e).__name__})")
                continue
            apps, decls = abstraction_apps([t])
            if op in BIN:
                if len(decls) == 1 and t.decl().name() in decls and t.num_args() == 2 and t.arg(0).eq(a) and t.arg(1).eq(b):
                    self._set(t.decl().name(), BIN[op], f"opcode {op}")
                else:
                    self.notes.append(f"{op}: result shape not f(a,b)")
            elif op == "EXP":
                if len(decls) == 1 and t.decl().name() in decls:
                    self._set(t.decl().name(), None, "opcode EXP")
                else:
                    self.notes.append("EXP: result shape not f(a,b)")
            elif op == "ADDMOD":
                if len(decls) == 1 and len(apps) == 1:
                    (g,) = apps.values()
                    self._set(g.decl().name(), "bvurem", "opcode ADDMOD")
                else:
                    self.notes.append("ADDMOD: expected exactly one abstraction application")
            elif op == "MULMOD":
                outer = [g for g in apps.values() if g.num_args() == 2 and g.arg(0).get_id() in apps]
                if len(apps) == 2 and len(outer) == 1:
                    g = outer[0]
                    self._set(g.decl().name(), "bvurem", "opcode MULMOD (outer)")
                    self._set(g.arg(0).decl().name(), "bvmul", "opcode MULMOD (inner)")
                else:
                    self.notes.append("MULMOD: expected rem(mul(a,b),n)")
        return self

    def _set(self, name, kind, src):
        if name in self.kind and self.kind[name] != kind:
            self.notes.append(f"{name}: {self.source[name]} says {self.kind[name]}, {src} says {kind}")
            return
        self.kind.setdefault(name, kind)
        self.source.setdefault(name, src)

    def lookup(self, name: str):
        """-> (known: bool, kind)"""
        if name in self.kind:
            return True, self.kind[name]
        m = NAME_TABLE.match(name)
        if m:
            return True, m.group(1)
        if name == EXP_NAME:
            return True, None
        return False, None


def _defn(kind: str, x, y):
    zero = z3.BitVecVal(0, x.size())
    if kind == "bvmul":
        return x * y
    if kind == "bvudiv":
        return z3.If(y == zero, zero, z3.UDiv(x, y))
    if kind == "bvurem":
        return z3.If(y == zero, zero, z3.URem(x, y))
    if kind == "bvsdiv":
        return z3.If(y == zero, zero, x / y)
    if kind == "bvsrem":
        return z3.If(y == zero, zero, z3.SRem(x, y))
    raise ValueError(kind)


def inline_exact(exprs, sem: Sem):
    """-> (exprs with every defined abstraction replaced innermost-first, unknown symbol names)"""
    exprs = list(exprs)
    unknown = set()
    for _ in range(256):
        apps, decls = abstraction_apps(exprs)
        todo = {}
        for i, a in apps.items():
            known, kind = sem.lookup(a.decl().name())
            if not known:
                unknown.add(a.decl().name())
            elif kind is not None and a.num_args() == 2:
                todo[i] = (a, kind)
        if not todo:
            break
        inner = []
        for i, (a, kind) in todo.items():
            sub, _ = abstraction_apps(a.children())
            if not any(j in todo for j in sub):
                inner.append((a, _defn(kind, a.arg(0), a.arg(1))))
        if not inner:
            break
        exprs = [z3.substitute(e, *inner) for e in exprs]
    return exprs, unknown


# ---------------------------------------------------------------------------
# deciding equivalences
# ---------------------------------------------------------------------------
def conj(xs):
    xs = list(xs)
    return z3.And(*xs) if len(xs) > 1 else (xs[0] if xs else z3.BoolVal(True))


@dataclass
class Verdict:
    status: str  # 'unsat' (holds) | 'sat' | 'unknown' | 'disagree'
    res: object = None
    model: dict = field(default_factory=dict)
    identical: bool = False
    left_only: list = field(default_factory=list)
    right_only: list = field(default_factory=list)
    query: list = field(default_factory=list)


def _split(lhs, rhs):
    li = {x.get_id(): x for x in lhs}
    ri = {x.get_id(): x for x in rhs}
    common = [x for i, x in li.items() if i in ri]
    lo = [x for i, x in li.items() if i not in ri]
    ro = [x for i, x in ri.items() if i not in li]
    return common, lo, ro


def decide(assertions, cap, inproc_ms=1500):
    r = portfolio.solve(assertions, timeout=cap, inproc_ms=inproc_ms)
    return r


HINTS: list = []  # scalar witnesses of earlier counterexamples in this process (tried first: same defect, other cell)


def equiv(lhs, rhs, cap=20.0, direction="both") -> Verdict:
    """And(lhs) <=> And(rhs) (or one implication).  Conjuncts that are the *same term* on both sides are moved into the
    assumptions: (C and L) <=> (C and R)  iff  C => (L <=> R).  The remaining query always goes to a solver."""
    common, lo, ro = _split(lhs, rhs)
    if direction == "both":
        goal = z3.Xor(conj(lo), conj(ro))
        q = common + [goal]
    elif direction == "lr":  # And(lhs) => And(rhs)
        q = common + lo + [z3.Not(conj(ro))]
    else:  # And(rhs) => And(lhs)
        q = common + ro + [z3.Not(conj(lo))]
    if lo or ro:
        for h in HINTS[-3:]:
            if pinned_sat(q, h, timeout_ms=2000) == "sat":
                return Verdict("sat", portfolio.Result("sat", dict(h), "z3-pinned-hint", 0.0), dict(h), left_only=lo, right_only=ro, query=q)
    r = decide(q, cap)
    if r.status == "sat" and r.model:
        HINTS.append(dict(r.model))
    return Verdict(r.status, r, dict(r.model), identical=(not lo and not ro), left_only=lo, right_only=ro, query=q)


def pinned_sat(query, model: dict, timeout_ms=10000):
    """replay helper: the scalar witness pinned into the (independently rebuilt) query; -> 'sat'|'unsat'|'unknown'"""
    consts = portfolio.free_consts(query)
    subs = []
    for c in consts:
        nme = str(c)
        if nme in model and (z3.is_bv(c) or z3.is_bool(c)):
            v = model[nme]
            subs.append((c, z3.BitVecVal(v, c.size()) if z3.is_bv(c) else z3.BoolVal(bool(v))))
    s = z3.Solver(ctx=query[0].ctx) if query else z3.Solver()
    s.set("timeout", timeout_ms)
    for a in query:
        s.add(z3.substitute(a, *subs) if subs else a)
    return str(s.check())


# ---------------------------------------------------------------------------
# cache (named / implication) encoding
# ---------------------------------------------------------------------------
@dataclass
class CacheView:
    guarded: list  # [(literal name, body)]
    asserted: list  # literal names asserted on their own
    other: list  # assertions of neither shape
    names: list  # (term symbol, :named name) pairs found in the text


def cache_view(parsed, names, idset) -> CacheView:
    """split the parsed assertions of a cache-encoded text; tracking literals are the Bool constants named by `idset`"""
    g, a, o = [], [], []
    for x in parsed:
        if z3.is_implies(x) and _is_lit(x.arg(0), idset):
            g.append((str(x.arg(0)), x.arg(1)))
        elif _is_lit(x, idset):
            a.append(str(x))
        else:
            o.append(x)
    return CacheView(g, a, o, names)


def _is_lit(t, idset):
    return z3.is_const(t) and z3.is_bool(t) and t.decl().kind() == z3.Z3_OP_UNINTERPRETED and str(t) in idset


# ---------------------------------------------------------------------------
# external solvers on the dumped files
# ---------------------------------------------------------------------------
# after the answer the file asks for (get-model) and, with --cache-solver, (get-unsat-core): one of the two cannot be
# served and the solver says so (halmos' parse_unsat_core expects exactly this line)
_ALLOWED_AFTER = {"sat": ("unsat core", "unsat-core"), "unsat": ("model", "context is unsatisfiable")}


def run_solvers(path, timeout: float) -> dict:
    """{solver: (answer, bad_error_lines, raw_head)} ; answer in sat/unsat/unknown/timeout/none/error"""
    return run_solvers_many({"f": (path, timeout)})["f"]


def run_solvers_many(files: dict) -> dict:
    """files: {tag: (path, timeout)} -> {tag: {solver: (answer, bad_error_lines, raw_head)}}; all processes run at once"""
    procs = {}
    for tag, (path, timeout) in files.items():
        t = max(1, int(timeout))
        cmds = {"yices": [YICES, f"--timeout={t}", path], "z3": [Z3BIN, f"-T:{t}", path]}
        for k, c in cmds.items():
            procs[(tag, k)] = (subprocess.Popen(c, stdout=subprocess.PIPE, stderr=subprocess.PIPE, text=True), timeout)
    out = {tag: {} for tag in files}
    t0 = time.time()
    for (tag, k), (p, timeout) in procs.items():
        try:
            so, se = p.communicate(timeout=max(0.5, timeout + 5 - (time.time() - t0)))
        except subprocess.TimeoutExpired:
            p.kill()
            so, se = p.communicate()
            out[tag][k] = ("timeout", [], "")
            continue
        lines = [ln.strip() for ln in so.splitlines() if ln.strip()]
        first = lines[0] if lines else ""
        if first in ("sat", "unsat", "unknown"):
            ans = first
        elif first == "timeout" or not first:
            ans = "timeout" if (first == "timeout" or p.returncode != 0) else "none"
        else:
            ans = "error"
        bad = []
        errs = [ln for ln in lines if ln.startswith("(error")]
        if ans == "error":
            bad = errs or [first[:200]]
        elif ans in ("sat", "unsat"):
            ok = _ALLOWED_AFTER[ans]
            bad = [ln for ln in errs if not any(w in ln.lower() for w in ok)]
        out[tag][k] = (ans, bad, "\n".join(lines[:3])[:300])
    return out


def inmem_verdict(conds, ms=1500):
    s = z3.Solver()
    s.set("timeout", ms)
    for c in conds:
        s.add(c)
    return str(s.check())
