"""C11 obligations on one path snapshot (see props/C11.py for the statement of each class)."""

from __future__ import annotations

import z3

from lib import c11_core as core
from lib import portfolio

MAX_VIOL_PER_KEY = 2


class Cfg:
    def __init__(self, tier="quick", only=None):
        self.tier = tier
        self.equiv_cap = 12.0 if tier == "quick" else 60.0
        self.d_timeout = 8.0 if tier == "quick" else 12.0
        self.d_timeout_refined = 3.0 if tier == "quick" else 8.0
        self.d_paths = 1 if tier == "quick" else 3  # paths per program whose dumped files go through the solver binaries
        self.only = only  # set of class-prefix letters, e.g. {"A","C"}
        self.run_d = True

    def want(self, letter):
        return not self.only or letter in self.only


class Stats(dict):
    def bump(self, k, n=1):
        self[k] = self.get(k, 0) + n


def _names_in(terms):
    _, decls = core.abstraction_apps(terms)
    return sorted(decls)


def _short(t, n=400):
    s = t.sexpr() if hasattr(t, "sexpr") else str(t)
    return s if len(s) <= n else s[:n] + "..."


def _witness(snap, cls, v: core.Verdict, extra=None):
    w = {"source": snap.key, "class": cls, "model": {k: (hex(x) if isinstance(x, int) and not isinstance(x, bool) else x)
                                                      for k, x in list(v.model.items())[:40]},
         "only_in_text": [_short(t) for t in v.left_only[:4]], "only_in_reference": [_short(t) for t in v.right_only[:4]],
         "n_conditions": len(snap.conds), "extends": None if snap.parent is None else
         {"parent_conditions": len(snap.parent.conds), "parent_sliced": None if snap.parent.sliced is None else sorted(snap.parent.sliced),
          "depth": snap.parent.depth}}
    if extra:
        w.update(extra)
    return w


class Checker:
    def __init__(self, rec, sem: core.Sem, cfg: Cfg, stats: Stats, tmpdir: str):
        self.rec, self.sem, self.cfg, self.stats, self.tmpdir = rec, sem, cfg, stats, tmpdir
        self.vcount: dict[str, int] = {}
        self.d_budget = cfg.d_paths

    # ---- verdict plumbing ---------------------------------------------------
    def _report(self, cls, vkey, what, witness):
        n = self.vcount.get(vkey, 0)
        self.vcount[vkey] = n + 1
        if n < MAX_VIOL_PER_KEY:
            self.rec.violation(cls, vkey, what, witness)
        else:
            self.stats.bump("violations_suppressed_same_key")

    def _conclude(self, cls, key, snap, v: core.Verdict, vkey, what, regen, extra=None):
        """regen() -> (lhs, rhs, direction) rebuilt from independently regenerated texts, for the replay"""
        rec = self.rec
        if v.res is not None:
            rec.note_solver(v.res)
        if v.status == "unsat":
            rec.ok(cls, key, nontrivial=bool(snap.conds))
            if v.identical:
                self.stats.bump("structurally_identical")
            else:
                self.stats.bump("decided_nonidentical")
            return True
        if v.status == "sat":
            try:
                l2, r2, d2 = regen()
                common, lo, ro = core._split(l2, r2)
                if d2 == "both":
                    q2 = common + [z3.Xor(core.conj(lo), core.conj(ro))]
                elif d2 == "lr":
                    q2 = common + lo + [z3.Not(core.conj(ro))]
                else:
                    q2 = common + ro + [z3.Not(core.conj(lo))]
                st = core.pinned_sat(q2, v.model)
            except Exception as e:  # noqa: BLE001
                rec.inconc(cls, key, f"replay failed: {type(e).__name__}: {str(e)[:120]}")
                return False
            if st == "sat":
                self._report(cls, vkey, what, _witness(snap, cls, v, extra))
            else:
                rec.inconc(cls, key, f"counterexample did not reproduce on the regenerated text (pinned check: {st})")
            return False
        if v.status == "disagree":
            rec.harness_error(f"{cls} {key}: back ends disagree {getattr(v.res, 'answers', None)}")
            return False
        rec.inconc(cls, key, f"solver: {v.status} within {self.cfg.equiv_cap}s "
                             f"({len(v.left_only)}+{len(v.right_only)} non-identical conjuncts, symbols {_names_in(v.left_only + v.right_only)})")
        return False

    # ---- one snapshot --------------------------------------------------------
    def check(self, snap: core.Snap):
        cfg, st, sem, rec = self.cfg, self.stats, self.sem, self.rec
        st.bump("paths")
        import time as _t
        _t0 = _t.time()
        T = core.texts(snap, self.tmpdir)
        exact, unknown = core.inline_exact(snap.conds, sem)
        st.bump("t_texts", _t.time() - _t0)
        _t0 = _t.time()
        _, decls = core.abstraction_apps(snap.conds)
        defined = sorted(n for n in decls if sem.lookup(n)[0] and sem.lookup(n)[1] is not None)
        if decls:
            st.bump("paths_with_abstraction")
            for n in decls:
                st.bump(f"symbol:{n}")
        if snap.parent is not None:
            st.bump("paths_extended")
            if snap.parent.sliced is not None:
                st.bump("paths_extending_sliced_parent")
                if len(snap.parent.sliced) < len(snap.parent.conds):
                    st.bump("paths_whose_parent_slice_dropped_something")
        feature = "extends-sliced" if (snap.parent is not None and snap.parent.sliced is not None) else (
            "extends" if snap.parent is not None else "root")

        def regen_factory(mode, ref, what):
            def regen():
                from halmos.sevm import SMTQuery

                s2 = core.Snap(snap.key, snap.conds, snap.ids, SMTQuery(snap.qp2, list(snap.qp.assertions)),
                               SMTQuery(snap.qc2, list(snap.qc.assertions)), snap.qp2, snap.qc2)
                T2 = core.texts(s2, self.tmpdir)
                return T2
            return regen

        parsed_cache = {}

        def sides(Tx, mode, ref, what):
            """-> (lhs list, rhs list, info) for the equivalence of text (mode, ref, what) with its reference"""
            parsed, names = core.parse(Tx[(mode, ref, what)])
            R = exact if ref else snap.conds
            if mode == "plain":
                return parsed, list(R), dict(parsed=parsed)
            idset = set(Tx[(mode, ref, "ids")]) | set(snap.ids)
            view = core.cache_view(parsed, names, idset)
            if view.other:
                raise core.ParseFailure(f"cache encoding not recognised: {_short(view.other[0], 160)}")
            if what == "query":
                L = [b for _, b in view.guarded]
            else:
                asserted = set(view.asserted)
                L = [b for n, b in view.guarded if n in asserted]
            return L, list(R), dict(parsed=parsed, view=view)

        for mode in ("plain", "cache"):
            for ref in (False, True):
                letter = "C" if ref else ("A" if mode == "plain" else "B")
                if not cfg.want(letter):
                    continue
                if mode == "cache":
                    st.bump("queries_with_cache_encoding")
                for what in ("query", "dump"):
                    cls = f"{letter}.{mode}.{what}" + ("" if not ref else "")
                    key = f"{snap.key}"
                    text = T[(mode, ref, what)]
                    if ref and text == T[(mode, False, what)]:
                        # refinement left the text untouched: exact only if the path has no defined abstraction
                        if not defined and not unknown:
                            rec.ok(f"C.{mode}.{what}.unchanged", key, nontrivial=False)
                            continue
                    if ref and unknown:
                        rec.inconc(cls, key, f"abstraction symbol without a known EVM meaning: {sorted(unknown)}")
                        continue
                    try:
                        L, R, info = sides(T, mode, ref, what)
                    except core.ParseFailure as e:
                        self._parse_failure(cls, key, snap, mode, ref, what, text, str(e), regen_factory(mode, ref, what))
                        continue
                    if ref:
                        st.bump("refined_texts_checked")
                    # --- structure of the cache encoding -----------------------------------------------------
                    if mode == "cache":
                        self._cache_structure(letter, mode, ref, what, key, snap, T, info["view"], R, feature,
                                              regen_factory(mode, ref, what))
                    # --- the equivalence -----------------------------------------------------------------------
                    v = core.equiv(L, R, cap=cfg.equiv_cap)
                    left = _names_in(v.left_only + v.right_only)
                    leftover = []
                    if ref:
                        _, pd = core.abstraction_apps(info["parsed"])
                        leftover = sorted(n for n in pd if sem.lookup(n)[1] is not None or not sem.lookup(n)[0])
                    if ref:
                        vkey = f"{cls}:" + (f"not-rewritten={','.join(leftover)}" if leftover else f"symbols={','.join(defined)}")
                        what_txt = (f"refined {what} ({mode}) is not equivalent to the path constraints with exact EVM arithmetic"
                                    + (f"; still uninterpreted after refine: {leftover}" if leftover else ""))
                    else:
                        vkey = f"{cls}:{feature}"
                        what_txt = f"{what} text ({mode} encoding) is not equivalent to the conjunction of Path.conditions ({feature})"

                    def regen(mode=mode, ref=ref, what=what):
                        T2 = regen_factory(mode, ref, what)()
                        l2, r2, _ = sides(T2, mode, ref, what)
                        return l2, r2, "both"

                    extra = {"mode": mode, "refined": ref, "what": what, "leftover_symbols": leftover,
                             "differing_symbols": left, "text_head": text[:1500]}
                    self._conclude(cls, key, snap, v, vkey, what_txt, regen, extra)
                    if mode == "plain" and not ref and what == "query":
                        parsed_cache["plain"] = info["parsed"]

        if cfg.want("E") and snap.parent is not None and "plain" in parsed_cache:
            self._extended(snap, parsed_cache["plain"], feature)
        st.bump("t_equiv", _t.time() - _t0)
        _t0 = _t.time()
        if cfg.want("D") and cfg.run_d and self.d_budget > 0:
            self.d_budget -= 1
            st.bump("paths_through_solver_binaries")
            self._solvers(snap, T, exact, unknown, defined)
            st.bump("t_solver_binaries", _t.time() - _t0)

    # ---- parse failure --------------------------------------------------------
    def _parse_failure(self, cls, key, snap, mode, ref, what, text, msg, regen):
        """violation candidate: replay = regenerate the text, parse it in a fresh z3 context and run the z3 binary on it"""
        rec = self.rec
        try:
            T2 = regen()
            t2 = T2[(mode, ref, what)]
            again = None
            try:
                core.parse(t2, ctx=z3.Context())
            except core.ParseFailure as e:
                again = str(e)
            bin_err = None
            if what == "dump":
                res = core.run_solvers(T2[(mode, ref, "file")], 2)
                bin_err = {k: r[1] for k, r in res.items() if r[0] == "error"}
        except Exception as e:  # noqa: BLE001
            rec.inconc(cls, key, f"parse failure ({msg[:80]}), replay crashed: {type(e).__name__}")
            return
        if again is None:
            rec.inconc(cls, key, f"parse failure did not reproduce: {msg[:120]}")
            return
        self._report(cls, f"{cls}:parse-error", f"{what} text ({mode}{', refined' if ref else ''}) is not well-formed SMT-LIB "
                     f"for the declared symbols: {again[:160]}",
                     {"source": snap.key, "error": again, "solver_errors": bin_err, "text_head": text[:2000]})

    # ---- cache encoding structure ----------------------------------------------
    @staticmethod
    def _structure_problems(ids_q, snap_ids, view, what):
        lits = [n for n, _ in view.guarded]
        problems = []
        if sorted(ids_q) != sorted(snap_ids):
            problems.append(f"SMTQuery.assertions {sorted(set(ids_q) ^ set(snap_ids))[:6]} differ from the ids of Path.conditions")
        if sorted(lits) != sorted(snap_ids) or len(set(lits)) != len(lits):
            problems.append("tracking literals in the text differ from the ids of Path.conditions")
        if what == "dump":
            if sorted(view.asserted) != sorted(set(lits)):
                missing = sorted(set(lits) - set(view.asserted))
                problems.append(f"{len(missing)} tracking literal(s) never asserted (e.g. {missing[:3]})")
            nm = [n for _, n in view.names]
            if len(set(nm)) != len(nm):
                problems.append("duplicate :named labels")
        return problems

    def _cache_structure(self, letter, mode, ref, what, key, snap, T, view, R, feature, regen=None):
        rec = self.rec
        ids_q = list(T[(mode, ref, "ids")])
        lits = [n for n, _ in view.guarded]
        cls = f"{letter}.cache.{what}.ids"
        problems = self._structure_problems(ids_q, snap.ids, view, what)
        if problems and regen is not None:
            # replay: regenerate the text with the real functions, re-parse, re-derive
            try:
                T2 = regen()
                p2, n2 = core.parse(T2[(mode, ref, what)])
                v2 = core.cache_view(p2, n2, set(T2[(mode, ref, "ids")]) | set(snap.ids))
                problems = self._structure_problems(list(T2[(mode, ref, "ids")]), snap.ids, v2, what)
            except Exception as e:  # noqa: BLE001
                rec.inconc(cls, key, f"structural finding, replay crashed: {type(e).__name__}")
                problems = None
        if problems is None:
            pass
        elif problems:
            self._report(cls, f"{cls}:{'refined' if ref else 'unrefined'}", "; ".join(problems),
                         {"source": snap.key, "ids_query": ids_q[:20], "ids_conditions": snap.ids[:20], "literals": lits[:20],
                          "asserted": view.asserted[:20], "mode": mode, "refined": ref, "what": what})
        else:
            rec.ok(cls, key, nontrivial=False)
        # each id must guard the condition that has this id (unsat cores are reused across paths by id)
        by_id = {i: r for i, r in zip(snap.ids, R)}
        pairs = [(b, by_id[n]) for n, b in view.guarded if n in by_id]
        diff = [z3.Xor(b, r) for b, r in pairs if not b.eq(r)]
        cls2 = f"{letter}.cache.{what}.id-binding"
        res = portfolio.solve([z3.Or(*diff) if len(diff) > 1 else (diff[0] if diff else z3.BoolVal(False))],
                              timeout=self.cfg.equiv_cap, inproc_ms=1500)
        rec.note_solver(res)
        if res.status == "unsat":
            rec.ok(cls2, key, nontrivial=bool(pairs))
        elif res.status == "sat":
            # covered (with replay) by the equivalence obligation of the same text; here only the binding is named
            rec.inconc(cls2, key, "some id guards a formula different from the condition with that id (see equivalence class)")
        else:
            rec.inconc(cls2, key, f"solver: {res.status}")

    # ---- extended / sliced paths ------------------------------------------------
    def _extended(self, snap, parsed, feature):
        cfg, rec, st = self.cfg, self.rec, self.stats
        seen, allc = set(), []
        for c in list(snap.parent.conds) + list(snap.conds):
            if c.get_id() not in seen:
                seen.add(c.get_id())
                allc.append(c)
        key = snap.key
        # (i) nothing invented: all accumulated constraints imply the query
        v = core.equiv(parsed, allc, cap=cfg.equiv_cap, direction="rl")
        self._conclude("E.extended.no-invented", key, snap, v, f"E.extended.no-invented:{feature}",
                       "the query of a path extending a (sliced) state asserts something the accumulated constraints do not imply",
                       lambda: (core.parse(snap.qp2)[0], allc, "rl"))
        # (ii) nothing dropped: the query implies the parent's constraints and the path's own
        v = core.equiv(parsed, allc, cap=cfg.equiv_cap, direction="lr")
        qvars = {c.get_id() for c in portfolio.free_consts(parsed)}
        dropped = [c for c in v.right_only]
        mention = [c for c in dropped if {x.get_id() for x in portfolio.free_consts([c])} & qvars]
        self._conclude("E.extended.no-dropped", key, snap, v, f"E.extended.no-dropped:{feature}",
                       f"the query of a path extending a (sliced) state lost {len(dropped)} accumulated constraint(s), "
                       f"{len(mention)} of which mention a variable that the query mentions",
                       lambda: (core.parse(snap.qp2)[0], allc, "lr"),
                       {"dropped": [_short(c, 300) for c in dropped[:5]], "dropped_mentioning_query_vars": len(mention)})
        # (iii) diagnostic on the branching solver of the child (never a C11 violation: the query is built from conditions)
        if snap.solver_asserts is not None and snap.parent.sliced is not None:
            sa = {c.get_id() for c in snap.solver_asserts}
            ids_all = {c.get_id() for c in allc}
            extra_in_solver = [c for c in snap.solver_asserts if c.get_id() not in ids_all]
            kept = [c for i, c in enumerate(snap.parent.conds) if i in snap.parent.sliced]
            missing = [c for c in kept if c.get_id() not in sa]
            if extra_in_solver:
                # decided by a solver: accumulated constraints must imply whatever the branching solver holds
                r = portfolio.solve(allc + [z3.Not(core.conj(extra_in_solver))], timeout=cfg.equiv_cap, inproc_ms=1500)
                rec.note_solver(r)
                if r.status == "unsat":
                    rec.ok("E.extended.solver-subset", key)
                else:
                    rec.inconc("E.extended.solver-subset", key, f"branching solver holds a constraint not implied by the path ({r.status})")
            else:
                rec.ok("E.extended.solver-subset", key, nontrivial=False)
            if missing:
                rec.inconc("E.extended.slice-kept", key, f"{len(missing)} sliced-in parent constraint(s) absent from the child's solver")
            else:
                rec.ok("E.extended.slice-kept", key, nontrivial=False)
            if snap.parent.state_vars is not None:
                direct = [c for c in snap.parent.conds if {x.get_id() for x in portfolio.free_consts([c])} & snap.parent.state_vars]
                lost = [c for c in direct if c.get_id() not in sa]
                if lost:
                    rec.inconc("E.extended.slice-rule", key, f"{len(lost)} parent constraint(s) mentioning a state variable are not in the child's solver")
                else:
                    rec.ok("E.extended.slice-rule", key, nontrivial=False)
                st.bump("slice_rule_checked")

    # ---- external solvers on the dumped files -------------------------------------
    def _solvers(self, snap, T, exact, unknown, defined):
        cfg, rec, st = self.cfg, self.rec, self.stats
        files = {}
        for mode in ("plain", "cache"):
            for ref in (False, True):
                if ref and T[(mode, True, "dump")] == T[(mode, False, "dump")]:
                    continue
                files[(mode, ref)] = (T[(mode, ref, "file")], cfg.d_timeout_refined if ref else cfg.d_timeout)
        allres = core.run_solvers_many(files)
        mem = {False: None, True: None}
        for (mode, ref), (f, tmo) in files.items():
            res = allres[(mode, ref)]
            if mem[ref] is None:
                mem[ref] = core.inmem_verdict(exact if ref else snap.conds, 1000 if not ref else 1500)
            for solver, (ans, bad, head) in res.items():
                cls = f"D.{mode}{'.refined' if ref else ''}.{solver}"
                key = snap.key
                st.bump("solver_runs")
                if bad:
                    # replay: run it again
                    res2 = core.run_solvers(f, tmo)
                    if res2[solver][1]:
                        self._report(cls, f"{cls}:error", f"{solver} rejects the dumped file: {res2[solver][1][0][:160]}",
                                     {"source": snap.key, "errors": res2[solver][1][:4], "file_head": T[(mode, ref, 'dump')][:2000]})
                    else:
                        rec.inconc(cls, key, "solver error did not reproduce")
                    continue
                if ans in ("timeout", "unknown", "none"):
                    if ref:
                        # exact 256/512-bit arithmetic: a time-out is the expected outcome; only "accepted by the
                        # solver's front end" is established
                        st.bump("solver_undecided_refined")
                        rec.ok(cls + ".no-error-seen", key, nontrivial=False)
                    else:
                        st.bump("solver_undecided")
                        rec.inconc(cls, key, f"{solver}: {ans} within {tmo}s (no error line)")
                    continue
                m = mem[ref]
                if m in ("sat", "unsat") and m != ans:
                    # replay with a longer in-memory budget and a second run of the binary
                    m2 = core.inmem_verdict(exact if ref else snap.conds, 20000)
                    res2 = core.run_solvers(f, max(tmo, 10))
                    if m2 in ("sat", "unsat") and res2[solver][0] in ("sat", "unsat") and m2 != res2[solver][0]:
                        self._report(cls, f"{cls}:answer", f"{solver} answers {res2[solver][0]} on the dumped file but the path "
                                     f"constraints are {m2}", {"source": snap.key, "file_head": T[(mode, ref, 'dump')][:2000],
                                                               "solver": res2[solver][0], "in_memory": m2})
                    else:
                        rec.inconc(cls, key, "answer mismatch did not reproduce")
                    continue
                if m in ("sat", "unsat"):
                    st.bump("solver_answers_compared")
                    rec.ok(cls, key)
                else:
                    st.bump("solver_answers_uncompared")
                    rec.ok(cls + ".no-error", key, nontrivial=False)
