"""C16 Route P: the real `check_unsat_cores` / `parse_unsat_core` under CrossHair (no z3 call on these paths).

Every function returns True iff the property held on its (symbolic) arguments; contracts are PEP-316 docstrings
(lib/chx.py derives the reachability twins and replays counterexamples natively).

Specification of check_unsat_cores(query, cores) as read from /repo/src/halmos/solve.py:
    result is True  <=>  there is a core in `cores` all of whose ids occur in `query.assertions`
(so an EMPTY core makes the result True for every query -- which is why the callback must never store one; that guard
is observed at run time with the stub solver, see props/C16.py).
"""

from halmos.sevm import SMTQuery
from halmos.solve import check_unsat_cores, parse_unsat_core

LAST_DETAIL = None


def _spec(assertions, cores) -> bool:
    s = set(assertions)
    for c in cores:
        ok = True
        for x in c:
            if x not in s:
                ok = False
        if ok:
            return True
    return False


def cuc_int_lists(assertions: list[int], cores: list[list[int]]) -> bool:
    """
    pre: len(assertions) <= 3
    pre: len(cores) <= 2
    pre: all(len(c) <= 2 for c in cores)
    post: __return__
    """
    global LAST_DETAIL
    got = check_unsat_cores(SMTQuery("", assertions), cores)
    want = _spec(assertions, cores)
    LAST_DETAIL = (got, want)
    return got is want or got == want


def cuc_str_lists(assertions: list[str], cores: list[list[str]]) -> bool:
    """
    pre: len(assertions) <= 3
    pre: all(len(a) <= 2 for a in assertions)
    pre: len(cores) <= 2
    pre: all(len(c) <= 2 for c in cores)
    pre: all(all(len(x) <= 2 for x in c) for c in cores)
    post: __return__
    """
    global LAST_DETAIL
    got = check_unsat_cores(SMTQuery("", assertions), cores)
    want = _spec(assertions, cores)
    LAST_DETAIL = (got, want)
    return got == want


def cuc_scalar(a0: int, a1: int, a2: int, na: int, c0: int, c1: int, n0: int, d0: int, d1: int, n1: int, k: int) -> bool:
    """
    full equivalence with the specification (both directions, empty cores and empty core lists included)
    pre: 0 <= na <= 3
    pre: 0 <= n0 <= 2
    pre: 0 <= n1 <= 2
    pre: 0 <= k <= 2
    post: __return__
    """
    global LAST_DETAIL
    assertions = [a0, a1, a2][:na]
    cores = [[c0, c1][:n0], [d0, d1][:n1]][:k]
    got = check_unsat_cores(SMTQuery("", assertions), cores)
    want = _spec(assertions, cores)
    LAST_DETAIL = (assertions, cores, got, want)
    return got == want


def cuc_scalar_small(a0: int, a1: int, na: int, c0: int, c1: int, n0: int, d0: int, n1: int, k: int) -> bool:
    """
    full equivalence with the specification at the smallest size that separates `all` from `any` (a 2-id core) and
    "some core" from "first core" (2 cores)
    pre: 0 <= na <= 2
    pre: 0 <= n0 <= 2
    pre: 0 <= n1 <= 1
    pre: 0 <= k <= 2
    post: __return__
    """
    global LAST_DETAIL
    assertions = [a0, a1][:na]
    cores = [[c0, c1][:n0], [d0][:n1]][:k]
    got = check_unsat_cores(SMTQuery("", assertions), cores)
    want = _spec(assertions, cores)
    LAST_DETAIL = (assertions, cores, got, want)
    return got == want


def cuc_true_needs_subset(a0: int, a1: int, a2: int, na: int, c0: int, c1: int, n0: int, d0: int, d1: int, n1: int) -> bool:
    """
    soundness direction alone, with NON-EMPTY cores: True => some core is a subset of the assertions
    pre: 0 <= na <= 3
    pre: 1 <= n0 <= 2
    pre: 1 <= n1 <= 2
    post: __return__
    """
    assertions = [a0, a1, a2][:na]
    cores = [[c0, c1][:n0], [d0, d1][:n1]]
    got = check_unsat_cores(SMTQuery("", assertions), cores)
    if not got:
        return True
    return any(all(x in assertions for x in c) for c in cores)


def cuc_monotone(a0: int, a1: int, a2: int, na: int, extra: int, c0: int, c1: int, n0: int) -> bool:
    """
    adding an assertion to the query never loses a hit; adding a core never loses a hit
    pre: 0 <= na <= 3
    pre: 0 <= n0 <= 2
    post: __return__
    """
    assertions = [a0, a1, a2][:na]
    cores = [[c0, c1][:n0]]
    got = check_unsat_cores(SMTQuery("", assertions), cores)
    got2 = check_unsat_cores(SMTQuery("", assertions + [extra]), cores)
    got3 = check_unsat_cores(SMTQuery("", assertions), [[extra]] + cores)
    return (not got) or (got2 and got3)


def _fmt(ids, style: int, err: int) -> str:
    toks = ["<" + str(i) + ">" for i in ids]
    head = "unsat\n"
    if err == 1:
        head += '(error "the context is unsatisfiable")\n'
    elif err == 2:
        head += '(error "line 12 column 10: model is not available")\n'
    if style == 0:
        return head + "(" + " ".join(toks) + ")\n"
    if style == 1:
        return head + "(\n" + "\n".join(toks) + "\n)\n"
    if style == 2:
        return head + "(" + "\n ".join(toks) + ")\n"
    return head + "( " + "  ".join(toks) + " )\n"


def puc_roundtrip(i0: int, i1: int, i2: int, n: int, style: int, err: int) -> bool:
    """
    parse_unsat_core recovers exactly the listed names, whatever the layout of the reply
    pre: 0 <= i0 < 1000
    pre: 0 <= i1 < 1000
    pre: 0 <= i2 < 1000
    pre: 0 <= n <= 3
    pre: 0 <= style <= 3
    pre: 0 <= err <= 2
    post: __return__
    """
    global LAST_DETAIL
    ids = [i0, i1, i2][:n]
    out = _fmt(ids, style, err)
    got = parse_unsat_core(out)
    LAST_DETAIL = (out, got)
    return got == [str(i) for i in ids]


def puc_symbolic_tail(tail: str) -> bool:
    """
    whatever follows the core line does not change the parse (solvers print more after it)
    pre: len(tail) <= 3
    post: __return__
    """
    base = "unsat\n(<12> <345>)\n"
    got = parse_unsat_core(base + tail)
    return got == ["12", "345"]
