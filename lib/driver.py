"""Builds Exec/Message/Path for the *real* halmos SEVM and runs it.

Nothing here re-implements halmos: it only constructs the inputs of SEVM.run / run_message
and normalises the yielded Exec objects into plain records of z3 terms.
"""

from __future__ import annotations

import io
import logging
import contextlib
from collections import defaultdict
from dataclasses import dataclass, field

import z3

from halmos.__main__ import mk_block, mk_solver
from halmos.bitvec import HalmosBitVec as BV
from halmos.bitvec import HalmosBool as HBool
from halmos.bytevec import ByteVec
from halmos.calldata import FunctionInfo
from halmos.config import default_config
from halmos.contract import Contract
from halmos.exceptions import HalmosException
from halmos.sevm import SEVM, CallContext, Exec, KeccakRegistry, Message, Path, State
from halmos.utils import EVM


def mk_options(**over):
    from halmos.config import ConfigSource

    args = default_config()
    if over:
        args = args.with_overrides(ConfigSource.command_line, **over)
    return args


def word_to_z3(w):
    """stack entry (HalmosBitVec | HalmosBool) -> 256-bit z3 term (own conversion, not halmos')"""
    if isinstance(w, HBool):
        b = w.as_z3()
        return z3.If(b, z3.BitVecVal(1, 256), z3.BitVecVal(0, 256))
    if isinstance(w, BV):
        t = w.as_z3()
        if t.size() != 256:
            raise TypeError(f"stack entry of width {t.size()}")
        return t
    raise TypeError(f"unexpected stack entry {type(w)}")


def bytevec_bytes(bv: ByteVec):
    """ByteVec -> list of 8-bit z3 terms (reads through the real get_byte)"""
    out = []
    for i in range(len(bv)):
        b = bv.get_byte(i)
        if isinstance(b, int):
            out.append(z3.BitVecVal(b, 8))
        elif isinstance(b, BV):
            out.append(b.as_z3())
        else:
            out.append(b)
    return out


@dataclass
class World:
    """Arguments for one symbolic transaction."""
    code: dict  # addr(z3 160-bit const/val) -> bytes | Contract
    target: object
    caller: object
    origin: object
    value: object
    data: ByteVec
    balance: object = None
    is_static: bool = False
    storage_symbolic: bool = False
    options: object = None


def mk_sevm(options=None, **over):
    options = options or mk_options(**over)
    from halmos.mapper import BuildOut

    if BuildOut()._build_out_map is None:  # CREATE resolves contract names through the (here empty) build output
        BuildOut().set_build_out({})
    fun_info = FunctionInfo("TestContract", "test", "test()", "f8a8fd6d")
    return SEVM(options, fun_info)


def mk_exec(sevm: SEVM, w: World, solver=None):
    solver = solver or mk_solver(sevm.options)
    code = {a: (c if isinstance(c, Contract) else Contract(c)) for a, c in w.code.items()}
    storage = {}
    transient = {}
    for a in code:
        storage[a] = sevm.mk_storagedata()
        storage[a].symbolic = w.storage_symbolic
        transient[a] = sevm.mk_storagedata()
    message = Message(
        target=w.target,
        caller=w.caller,
        origin=w.origin,
        value=w.value,
        data=w.data,
        call_scheme=EVM.CALL,
        is_static=w.is_static,
    )
    balance = w.balance if w.balance is not None else z3.Array("balance_0", z3.BitVecSort(160), z3.BitVecSort(256))
    ex = sevm.mk_exec(
        code=code,
        storage=storage,
        transient_storage=transient,
        balance=balance,
        block=mk_block(),
        context=CallContext(message),
        pgm=code[w.target],
        path=Path(solver),
    )
    return ex


@dataclass
class PathRec:
    ex: Exec
    conds: list  # snapshot of the constraint set at yield time
    branching: list
    error: object
    data: object  # ByteVec | None
    stack: list


def run(sevm: SEVM, ex0: Exec, probe=None, max_paths=256):
    """Run the real engine; snapshot each yielded path *at yield time* (DESIGN C01)."""
    out = []
    with quiet():
        for ex in sevm.run(ex0):
            conds = list(ex.path.conditions.keys())
            branching = [c for c, b in ex.path.conditions.items() if b]
            rec = PathRec(ex, conds, branching, ex.context.output.error, ex.context.output.data, list(ex.st.stack))
            if probe is not None:
                rec.probe = probe(sevm, ex)
            out.append(rec)
            if len(out) >= max_paths:
                break
    return out


@contextlib.contextmanager
def quiet():
    """silence halmos' logging / rich console noise during harness runs"""
    lg = logging.getLogger("halmos")
    old = lg.level
    lg.setLevel(logging.CRITICAL)
    try:
        with contextlib.redirect_stderr(io.StringIO()):
            yield
    finally:
        lg.setLevel(old)


def one_insn(sevm: SEVM, opcode: int, stack_words: list, extra_code: bytes = b"", memory: ByteVec | None = None):
    """Run `[opcode] + extra_code + STOP` on a pre-built stack (top of stack = stack_words[0]).
    Returns (PathRec list)."""
    this = z3.BitVec("this_address", 160)
    w = World(
        code={this: bytes([opcode]) + extra_code + b"\x00"},
        target=this,
        caller=z3.BitVec("msg_sender", 160),
        origin=z3.BitVec("tx_origin", 160),
        value=z3.BitVec("msg_value", 256),
        data=ByteVec(),
    )
    ex = mk_exec(sevm, w)
    for x in reversed(stack_words):
        ex.st.stack.append(x)
    if memory is not None:
        ex.st.memory.set_slice(0, len(memory), memory)
    return run(sevm, ex)


@contextlib.contextmanager
def fault_script(script):
    """Nondeterministic stub for the branching solver: the k-th Path.check call of the run answers `unknown`
    when script(k) is true (the documented contract of a time-limited solver); otherwise the real verdict."""
    from halmos.sevm import Path as _Path

    real = _Path.check
    state = {"k": 0, "faults": 0}

    def check(self, cond):
        k = state["k"]
        state["k"] += 1
        if script(k):
            state["faults"] += 1
            return z3.unknown
        return real(self, cond)

    _Path.check = check
    try:
        yield state
    finally:
        _Path.check = real
