"""C18 annotation scoping through the real `_main` (lib/e2e.run_main, forge stubbed, hand-assembled artifacts).

A *scenario* is a subset of eight "setters" -- halmos.toml, the command line, the contract-level natspec of A / of B and
the devdoc `custom:halmos` of A.check_f, A.check_g, A.invariant_i and B.check_f -- each of which sets the three options
--loop, --invariant-depth and --array-lengths to values that identify the setter.  Contracts A and B deliberately share
the signature `check_f(uint256[])`, so a devdoc lookup that ignored the contract would be seen.

`halmos.__main__.run_test` / `run_contract` are wrapped *in the harness process* to record the Config object every
function (and every contract) is actually run with; the assertion is over (value, source) of each option for all six
functions and both contracts, against a reference written here: the highest of
  default < config file < contract annotation (own contract only) < function annotation (own function only) < command line.
Additionally the `bounds: [p0=[..]]` text halmos prints for the dynamic-array tests and `max_call_depth` of the
invariant tests must match the same reference (the option is not merely stored, it is the one in effect).
"""

from __future__ import annotations

import itertools
import random
import re

from lib import e2e

SETTERS = ("toml", "cli", "natspec:A", "natspec:B", "devdoc:A.check_f", "devdoc:A.check_g", "devdoc:A.invariant_i",
           "devdoc:B.check_f")
SRC_OF = {"toml": 2, "cli": 5, "natspec": 3, "devdoc": 4}
OPTIONS = ("loop", "invariant_depth", "array_lengths")

SIGS = {"A": ["check_f(uint256[])", "check_g(uint256[])", "invariant_i()"],
        "B": ["check_f(uint256[])", "check_h(uint256[])", "invariant_i()"]}
DEFAULTS = {"loop": 2, "invariant_depth": 2, "array_lengths": {}}
DEFAULT_ARRAY_LENGTHS = [0, 1, 2]


def setter_values(j: int) -> dict:
    return {"loop": 10 + j, "invariant_depth": 1 + j, "array_lengths": {"p0": [1 + j]}}


def flags(j: int) -> str:
    v = setter_values(j)
    return f"--loop {v['loop']} --invariant-depth {v['invariant_depth']} --array-lengths p0={v['array_lengths']['p0'][0]}"


def natspec_text(j: int, style: int) -> str:
    v = setter_values(j)
    a, b, c = (f"--loop {v['loop']}", f"--invariant-depth {v['invariant_depth']}",
               f"--array-lengths p0={v['array_lengths']['p0'][0]}")
    if style == 0:
        return f"@custom:halmos {a} {b} {c}"
    if style == 1:  # starts mid-line, continues on the next line, followed by another tag
        return f"some title @custom:halmos {a}\n   {b} {c}\n@dev unrelated --loop 99"
    return f"@notice x\n@custom:halmos {a}\n@custom:halmos {b}\n@author --loop 98\n@custom:halmos {c}"


def build(scn: frozenset, style: int = 0):
    specs = []
    for cname in ("A", "B"):
        devdoc = {}
        for j, s in enumerate(SETTERS):
            if s in scn and s.startswith(f"devdoc:{cname}."):
                fname = s.split(".", 1)[1]
                sig = next(x for x in SIGS[cname] if x.startswith(fname + "("))
                devdoc[sig] = flags(j)
        nat = None
        if f"natspec:{cname}" in scn:
            nat = natspec_text(SETTERS.index(f"natspec:{cname}"), style)
        specs.append(e2e.Spec(cname, fns=[(sig, ["STOP"]) for sig in SIGS[cname]], devdoc=devdoc, natspec=nat))
    argv = flags(SETTERS.index("cli")).split() if "cli" in scn else []
    toml = None
    if "toml" in scn:
        v = setter_values(SETTERS.index("toml"))
        toml = (f"[global]\nloop = {v['loop']}\ninvariant-depth = {v['invariant_depth']}\n"
                f"array-lengths = 'p0={v['array_lengths']['p0'][0]}'\n")
    return specs, argv, toml


def reference(scn: frozenset, cname: str, sig: str | None):
    """(value, source) per option for function `sig` of contract `cname` (sig None: the contract-level config)"""
    best = {o: (DEFAULTS[o], 1) for o in OPTIONS}
    for j, s in enumerate(SETTERS):
        if s not in scn:
            continue
        kind, _, where = s.partition(":")
        if kind == "natspec" and where != cname:
            continue
        if kind == "devdoc":
            c, f = where.split(".")
            if c != cname or sig is None or not sig.startswith(f + "("):
                continue
        src = SRC_OF[kind]
        for o in OPTIONS:
            if src > best[o][1]:
                best[o] = (setter_values(j)[o], src)
    return best


class Recorder:
    def __init__(self):
        import halmos.__main__ as hm

        self.hm = hm
        self.fn, self.contract = {}, {}
        self._real_test, self._real_contract = hm.run_test, hm.run_contract

    def __enter__(self):
        hm = self.hm

        def run_test(ctx):
            a = ctx.args
            self.fn[(ctx.contract_ctx.name, ctx.info.sig)] = {
                **{o: a.value_with_source(o) for o in OPTIONS}, "attr": {o: getattr(a, o) for o in OPTIONS},
                "max_call_depth": ctx.max_call_depth}
            if ctx.info.sig.startswith("invariant_"):
                # no target contracts in these artifacts: the recorded context is all that is needed
                from halmos.solve import TestResult
                return TestResult(ctx.info.sig, 0)
            return self._real_test(ctx)

        def run_contract(ctx):
            self.contract[ctx.name] = {o: ctx.args.value_with_source(o) for o in OPTIONS}
            return self._real_contract(ctx)

        hm.run_test, hm.run_contract = run_test, run_contract
        return self

    def __exit__(self, *exc):
        self.hm.run_test, self.hm.run_contract = self._real_test, self._real_contract


def run_scenario(scn: frozenset, style: int = 0) -> list[dict]:
    """-> list of mismatches (empty = scoping and precedence held for every function and contract)"""
    specs, argv, toml = build(scn, style)
    with Recorder() as rec:
        out = e2e.run_main(specs, argv, toml)
    bad = []
    if out.exception is not None or out.main is None:
        return [{"what": "halmos did not run", "exception": repr(out.exception), "stdout": out.stdout[-300:]}]
    for cname in ("A", "B"):
        want = reference(scn, cname, None)
        got = rec.contract.get(cname)
        if got is None:
            bad.append({"what": "contract not run", "contract": cname})
            continue
        for o in OPTIONS:
            if (got[o][0], int(got[o][1])) != want[o]:
                bad.append({"what": "contract-level config", "contract": cname, "option": o,
                            "got": [got[o][0], int(got[o][1])], "want": list(want[o])})
        for sig in SIGS[cname]:
            want = reference(scn, cname, sig)
            got = rec.fn.get((cname, sig))
            if got is None:
                bad.append({"what": "function not run", "contract": cname, "function": sig})
                continue
            for o in OPTIONS:
                if (got[o][0], int(got[o][1])) != want[o] or got["attr"][o] != want[o][0]:
                    bad.append({"what": "function config", "contract": cname, "function": sig, "option": o,
                                "got": [got[o][0], int(got[o][1])], "attr": got["attr"][o], "want": list(want[o])})
            if sig.startswith("invariant_"):
                if got["max_call_depth"] != want["invariant_depth"][0]:
                    bad.append({"what": "max_call_depth", "contract": cname, "function": sig,
                                "got": got["max_call_depth"], "want": want["invariant_depth"][0]})
            else:
                lens = want["array_lengths"][0].get("p0", DEFAULT_ARRAY_LENGTHS)
                text = f"bounds: [p0=[{', '.join(str(x) for x in lens)}]]"
                line = _line(out.stdout, cname, sig)
                if text not in line:
                    bad.append({"what": "printed bounds", "contract": cname, "function": sig, "line": line.strip()[-120:],
                                "want": text})
    return bad


def run_same_name(variant: int, style: int = 0) -> list[dict]:
    """two unrelated contracts that share the NAME `A` (out/A.sol/A.json and out/A2.sol/A.json, as forge emits for
    same-named contracts of different source files), with different contract-level annotations: each must run with its
    own.  variant: 0 both annotated, 1 only the first, 2 only the second"""
    j1, j2 = 8, 9
    n1 = natspec_text(j1, style) if variant in (0, 1) else None
    n2 = natspec_text(j2, (style + 1) % 3) if variant in (0, 2) else None
    specs = [e2e.Spec("A", fns=[("check_f(uint256[])", ["STOP"])], natspec=n1, filename="A.sol"),
             e2e.Spec("A", fns=[("check_k(uint256[])", ["STOP"])], natspec=n2, filename="A2.sol")]
    with Recorder() as rec:
        out = e2e.run_main(specs, [], None)
    if out.exception is not None or out.main is None:
        return [{"what": "halmos did not run", "exception": repr(out.exception), "stdout": out.stdout[-300:]}]
    bad = []
    for sig, j, nat in (("check_f(uint256[])", j1, n1), ("check_k(uint256[])", j2, n2)):
        got = rec.fn.get(("A", sig))
        if got is None:
            bad.append({"what": "function not run", "contract": "A", "function": sig})
            continue
        for o in OPTIONS:
            want = (setter_values(j)[o], SRC_OF["natspec"]) if nat else (DEFAULTS[o], 1)
            if (got[o][0], int(got[o][1])) != want or got["attr"][o] != want[0]:
                bad.append({"what": "same-name contract config", "contract": "A", "function": sig, "option": o,
                            "got": [got[o][0], int(got[o][1])], "want": list(want)})
    return bad


def _line(stdout: str, cname: str, sig: str) -> str:
    """the result line of `sig` inside the block `Running N tests for test/<cname>.sol:<cname>`"""
    cur = None
    for ln in stdout.splitlines():
        m = re.search(r"Running \d+ tests for \S+:(\w+)", ln)
        if m:
            cur = m.group(1)
        elif cur == cname and sig in ln and re.search(r"\[(PASS|FAIL|ERROR|TIMEOUT)\]", ln):
            return ln
    return ""


def scenarios(tier: str, seed: int = 0) -> list[tuple[frozenset, int]]:
    every = [frozenset(c) for r in range(len(SETTERS) + 1) for c in itertools.combinations(SETTERS, r)]
    if tier == "thorough":
        return [(s, i % 3) for i, s in enumerate(every)]
    # quick: nothing, every single setter, every pair, everything, plus seeded larger subsets
    base = [s for s in every if len(s) <= 2 or len(s) == len(SETTERS)]
    rnd = random.Random(seed)
    rest = [s for s in every if 2 < len(s) < len(SETTERS)]
    base += rnd.sample(rest, 40)
    return [(s, i % 3) for i, s in enumerate(base)]


def key_of(scn: frozenset) -> str:
    return "+".join(s for s in SETTERS if s in scn) or "none"
