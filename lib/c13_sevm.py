"""C13: programs that reach vm.assert* / vm.assume through the real SEVM, path classification and the
class-wise obligations `OR(PC of the paths halmos reports in class K)  <=>  spec_K`.

Nothing of halmos is modelled: the module assembles byte code, runs `SEVM.run` (lib/driver) on symbolic calldata
words and hands the reported path conditions to lib/portfolio together with a specification written over the same
calldata symbols.
"""

from __future__ import annotations

import z3

from lib import asm, driver, portfolio
from lib.e2e import HEVM

from halmos.bitvec import HalmosBitVec as BV
from halmos.bytevec import ByteVec
from halmos.exceptions import FailCheatcode

THIS = 0x1000000000000000000000000000000000001000
ADDR_A = 0x2000000000000000000000000000000000002000
ADDR_B = 0x3000000000000000000000000000000000003000
CHAIN = [THIS, ADDR_A, ADDR_B]
SELECTOR = bytes.fromhex("aabbccdd")
ASSUME_SEL = int.from_bytes(__import__("eth_hash.auto", fromlist=["keccak"]).keccak(b"assume(bool)")[:4], "big")

SCRIPTS = {
    "none": None,
    "all-unknown": lambda k: True,
    "first-unknown": lambda k: k == 0,
    "second-unknown": lambda k: k == 1,
    "odd-unknown": lambda k: k % 2 == 1,
    "even-unknown": lambda k: k % 2 == 0,
}


# ---------------------------------------------------------------------------
# calldata
# ---------------------------------------------------------------------------
def mk_bytevec(prefix: bytes, words) -> ByteVec:
    """prefix bytes followed by 256-bit words; concrete words become concrete chunks (as MSTORE of a constant does)"""
    data = ByteVec()
    data.append(prefix)
    for w in words:
        w = z3.simplify(w)
        if z3.is_bv_value(w):
            data.append(w.as_long().to_bytes(32, "big"))
        else:
            data.append(BV(w, size=256))
    return data


# ---------------------------------------------------------------------------
# byte code
# ---------------------------------------------------------------------------
def ret_marker(m: int) -> list:
    return [("PUSH", m), "PUSH0", "MSTORE", ("PUSH", 32), "PUSH0", "RETURN"]


def vm_forward(sel: int, after=None) -> list:
    """mem[0:4] = sel, mem[4:] = calldata[4:], CALL vm, then `after` (default: return marker 0xAA)"""
    return [("PUSH", sel << 224, 32), "PUSH0", "MSTORE",
            ("PUSH", 4), "CALLDATASIZE", "SUB", ("PUSH", 4), ("PUSH", 4), "CALLDATACOPY",
            "PUSH0", "PUSH0", "CALLDATASIZE", "PUSH0", "PUSH0", ("PUSH", HEVM, 20), "GAS", "CALL", "POP"] + (
        ret_marker(0xAA) if after is None else list(after))


def forward_to(addr: int, after=None) -> list:
    """CALL addr with the whole calldata, then `after` (default: return marker 0xAA)"""
    return ["CALLDATASIZE", "PUSH0", "PUSH0", "CALLDATACOPY",
            "PUSH0", "PUSH0", "CALLDATASIZE", "PUSH0", "PUSH0", ("PUSH", addr, 20), "GAS", "CALL", "POP"] + (
        ret_marker(0xAA) if after is None else list(after))


def chain_code(depth: int, innermost: list, after=None) -> dict:
    """THIS -> A -> B ... (depth frames); the last frame runs `innermost`; inner frames just STOP afterwards"""
    code = {}
    for i in range(depth):
        if i == depth - 1:
            items = innermost
        else:
            items = forward_to(CHAIN[i + 1], after=(after if i == 0 else ["STOP"]))
        code[CHAIN[i]] = asm.assemble(items)
    return code


def vm_call_words(sel: int, word_items: list, base=0x80) -> list:
    """call vm with static words computed by item lists; leaves nothing on the stack"""
    items = [("PUSH", sel << 224, 32), ("PUSH", base), "MSTORE"]
    for k, w in enumerate(word_items):
        items += list(w) + [("PUSH", base + 4 + 32 * k), "MSTORE"]
    n = 4 + 32 * len(word_items)
    items += ["PUSH0", "PUSH0", ("PUSH", n), ("PUSH", base), "PUSH0", ("PUSH", HEVM, 20), "GAS", "CALL", "POP"]
    return items


def cdload(i: int) -> list:
    return [("PUSH", 4 + 32 * i), "CALLDATALOAD"]


# ---------------------------------------------------------------------------
# running and classifying
# ---------------------------------------------------------------------------
def run_prog(code: dict, data: ByteVec, script=None, max_paths=64):
    sevm = driver.mk_sevm()
    w = driver.World(
        code={z3.BitVecVal(a, 160): c for a, c in code.items()},
        target=z3.BitVecVal(THIS, 160),
        caller=z3.BitVec("msg_sender", 160), origin=z3.BitVec("tx_origin", 160),
        value=z3.BitVecVal(0, 256), data=data,
    )
    ex = driver.mk_exec(sevm, w)
    if script is None:
        return driver.run(sevm, ex, max_paths=max_paths), {"k": 0, "faults": 0}
    with driver.fault_script(script) as st:
        recs = driver.run(sevm, ex, max_paths=max_paths)
    return recs, dict(st)


def classify(rec) -> str:
    err = rec.error
    if isinstance(err, FailCheatcode):
        return "FAIL"
    if err is None and rec.data is not None:
        try:
            raw = rec.data.unwrap()
            if isinstance(raw, bytes):
                return "M:" + (raw.hex().lstrip("0") or "0")
        except Exception:
            pass
        return "M:?"
    return "other:" + type(err).__name__


def pc_of(rec):
    return z3.And([z3.BoolVal(True)] + list(rec.conds))


def fail_flags(rec) -> list[str]:
    """what halmos' own top-level test logic looks at for a reported failing path"""
    import halmos.__main__ as hm

    bad = []
    if not hm.is_global_fail_set(rec.ex.context):
        bad.append("is_global_fail_set(ex.context) is False")
    if rec.ex.context.output.data is None:
        bad.append("output.data is None (would be treated as stuck)")
    if rec.ex.context.is_stuck():
        bad.append("context.is_stuck()")
    return bad


def wrapped_fail_flags(rec_fail, rec_cont=None) -> list[str]:
    """the failing frame placed under one and two caller frames (real CallContext objects, the callers' own messages
    when a continuing path of the same program is available): is_global_fail_set must see it through the nesting"""
    import halmos.__main__ as hm
    from halmos.sevm import CallContext

    inner = rec_fail.ex.context
    bad = []
    msgs = []
    if rec_cont is not None:
        c = rec_cont.ex.context
        while c is not None and len(msgs) < 2:
            msgs.append(c.message)
            c = c.last_subcall()
    while len(msgs) < 2:
        msgs.append(inner.message)
    w1 = CallContext(message=msgs[1], depth=2, trace=[inner])
    w2 = CallContext(message=msgs[0], depth=1, trace=[w1])
    if not hm.is_global_fail_set(w1):
        bad.append("is_global_fail_set is False on the caller of the failing frame")
    if not hm.is_global_fail_set(w2):
        bad.append("is_global_fail_set is False two frames above the failing frame")
    return bad


# ---------------------------------------------------------------------------
# obligations
# ---------------------------------------------------------------------------
def check_classes(rc, cls: str, key: str, recs, spec: dict, assumptions: list, syms: list, timeout: float,
                  replay=None, witness_extra=None):
    """spec: class -> (mode, formula), mode in exact | cover | sound.
    exact:  OR(PC_K) <=> formula ; cover: formula => OR(PC_K) ; sound: OR(PC_K) => formula   (all under assumptions)
    replay(model) -> dict, recorded in the witness (concrete run of the real engine on the witness).
    Returns a dict with the disjunctions per class."""
    groups: dict[str, list] = {}
    for r in recs:
        groups.setdefault(classify(r), []).append(r)
    disj = {k: z3.Or([z3.BoolVal(False)] + [pc_of(r) for r in rs]) for k, rs in groups.items()}
    for k in spec:
        disj.setdefault(k, z3.BoolVal(False))

    def decide(kind, k, assertions, what):
        res = portfolio.solve(list(assumptions) + assertions, timeout=timeout, model_consts=syms)
        rc.note_solver(res)
        okey = f"{key}:{k}:{kind}"
        if res.status == "unsat":
            rc.ok(cls, okey)
        elif res.status == "sat":
            # re-evaluate the obligation on the witness (guards against a wrong / partial model)
            model = {str(s): res.model.get(str(s), 0) for s in syms}
            vals = [portfolio.eval_model(a, model, syms) for a in list(assumptions) + assertions]
            if not all(z3.is_true(v) for v in vals):
                rc.inconc(cls, okey, "solver model does not re-evaluate to true on the obligation (ignored)")
                return
            wit = {"model": {k2: hex(v) if isinstance(v, int) and not isinstance(v, bool) else v for k2, v in model.items()},
                   "class": k, "kind": kind,
                   "halmos_classes": {g: len(rs) for g, rs in groups.items()}}
            if witness_extra:
                wit.update(witness_extra)
            if replay is not None:
                try:
                    wit["concrete_run"] = replay(model)
                except Exception as e:  # the replay is a record, the re-evaluation above is the confirmation
                    wit["concrete_run"] = f"exception {type(e).__name__}: {e}"
            rc.violation(cls, okey, what, wit)
        elif res.status == "disagree":
            rc.harness_error(f"{cls} {okey}: back ends disagree {res.answers}")
        else:
            rc.inconc(cls, okey, f"solver {res.status} {res.answers}")

    for k, (mode, f) in spec.items():
        d = disj[k]
        if mode in ("exact", "sound"):
            decide("sound", k, [d, z3.Not(f)],
                   f"halmos reports a {k} path for an input on which the specification excludes {k}")
        if mode in ("exact", "cover"):
            decide("complete", k, [f, z3.Not(d)],
                   f"no {k} path reported by halmos admits an input for which the specification requires {k}")
    for k, rs in groups.items():
        if k in spec:
            continue
        res = portfolio.solve(list(assumptions) + [disj[k]], timeout=timeout)
        rc.note_solver(res)
        if res.status != "unsat":
            rc.inconc(cls, f"{key}:{k}:unexpected", f"path class {k} outside the specification is feasible ({res.status})")
    return {"groups": groups, "disj": disj}


def concrete_classes(code: dict, prefix: bytes, words_fn, model: dict, script=None) -> dict:
    """run the real engine on the witness (concrete calldata) and list the classes of the feasible paths"""
    words = words_fn(model)
    data = mk_bytevec(prefix, words)
    out = {}
    for label, sc in (("no-script", None), ("same-script", script)):
        if label == "same-script" and script is None:
            continue
        recs, _ = run_prog(code, data, sc)
        cl = []
        for r in recs:
            s = z3.Solver()
            s.add(*r.conds)
            if s.check() != z3.unsat:
                cl.append(classify(r))
        out[label] = sorted(cl)
    return out
