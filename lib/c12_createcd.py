"""C12 part E: `svm.createCalldata(...)` (halmos.cheatcodes.create_calldata_generic) on a build output with several
functions that take dynamic parameters.

The real function runs on a real Exec/Path; obligations, per configuration:
  alternatives   one alternative per state-changing function (+ view functions when asked) + the two fallback shapes
  candidates     EVERY size symbol that occurs in ANY returned calldata has its configured length candidates registered
                 on the path (otherwise CALLDATALOAD of that length word does not branch and none of the configured
                 lengths is explored) -- decided on the set of free constants of the returned terms
  selector       the path condition implies  fallback_selector != selector(f)  for every function f (solver)
"""

from __future__ import annotations

import z3

from lib import c12_abi as A
from lib import c12_check as C
from lib.driver import quiet

FUNS = [  # (name, params, mutability)
    ("f", [A.E("bytes")], "nonpayable"),
    ("g", [A.DA(A.E("uint256")), A.E("uint256")], "nonpayable"),
    ("h", [A.E("uint256")], "payable"),
    ("v", [A.E("bytes")], "view"),
    ("k", [A.DA(A.E("bytes"))], "nonpayable"),
]


def _abi():
    items, mids = [], {}
    from eth_hash.auto import keccak

    for name, params, mut in FUNS:
        it = A.abi_item(name, params, A.NAMINGS["named"])
        it["stateMutability"] = mut
        items.append(it)
        sig = A.fun_sig(name, params)
        mids[sig] = keccak(sig.encode())[:4].hex()
    return items, mids


def free_consts(t, acc):
    todo, seen = [t], set()
    while todo:
        x = todo.pop()
        if x.get_id() in seen:
            continue
        seen.add(x.get_id())
        if z3.is_const(x) and x.decl().kind() == z3.Z3_OP_UNINTERPRETED:
            acc[str(x)] = x
        todo.extend(x.children())


def run_config(cfg: dict, include_view: bool) -> list:
    """-> list of (status, class, key, text, witness)"""
    from halmos.__main__ import mk_solver
    from halmos.cheatcodes import create_calldata_generic
    from halmos.mapper import BuildOut
    from halmos.sevm import FOUNDRY_TEST, SEVM, Contract, Path
    from halmos.calldata import FunctionInfo
    from lib import c12_explore as X

    out = []
    args = C.build_args(cfg)
    items, mids = _abi()
    cj = {"abi": items, "methodIdentifiers": mids, "bytecode": {"object": "0x00"}, "deployedBytecode": {"object": "0x00"},
          "metadata": {"compiler": {"version": "0.8.26"}}}
    BuildOut().set_build_out({"test/Tgt.sol": {"Tgt": (cj, "contract", None)}})
    sevm = SEVM(args, FunctionInfo("C12", "t", "t()", "00000000"))
    ex = X._pre_ex(sevm, args, Contract(bytes([0])))
    tag = f"view={int(include_view)}|{cfg}"
    with quiet():
        results = create_calldata_generic(ex, sevm, "Tgt", None, include_view)
    funs = [(n, p, m) for n, p, m in FUNS if include_view or m not in ("view", "pure")]
    if len(results) != 2 + len(funs):
        out.append(("violation", "createcd-alternatives", f"alternatives:{int(include_view)}",
                    f"createCalldata returned {len(results)} alternatives for {len(funs)} callable functions (+2 fallback shapes)", {"cfg": cfg}))
        return out
    out.append(("ok", "createcd-alternatives", tag, "", None))
    cands = {str(k): list(v) for k, v in ex.path.concretization.candidates.items()}
    own = C.cands_of(cfg)
    name_fn = A.NAMINGS["named"]
    pcs = [c for c in ex.path.conditions if not z3.is_true(c)]
    fb_sel = None
    for r in results[:2]:
        acc = {}
        for k in range(len(r)):
            b = r.get_byte(k) if hasattr(r, "get_byte") else r[k]
            if not isinstance(b, int):
                free_consts(C.to_term(b, 1) if not z3.is_expr(b) else b, acc)
        for nm, t in acc.items():
            if nm.startswith("fallback_selector"):
                fb_sel = t
    for (name, params, mut), r in zip(funs, results[2:]):
        sig = A.fun_sig(name, params)
        # the cheatcode returns abi.encode(bytes): offset word, length word, payload
        n = C.to_term(r.get_word(32), 32)
        n = z3.simplify(n)
        if not z3.is_bv_value(n):
            out.append(("inconc", "createcd-encoding", f"{sig}|{tag}", "symbolic outer length", None))
            continue
        payload = r.slice(64, 64 + n.as_long())
        acc = {}
        for off in range(0, n.as_long(), 32):
            w = payload.get_word(off) if off + 32 <= n.as_long() else None
            if w is not None and not isinstance(w, int):
                t = C.to_term(w, 32)
                free_consts(t, acc)
        exp = C.expected_dyn(params, name_fn, cfg)
        sizes = [nm for nm in acc if "_length_" in nm]
        missing = [nm for nm in sizes if nm not in cands]
        if len(sizes) < len(exp):
            out.append(("inconc", "createcd-candidates", f"{sig}|{tag}", f"only {len(sizes)} of {len(exp)} size symbols visible", None))
        elif missing:
            out.append(("violation", "createcd-candidates", f"candidates-missing:{sig}",
                        f"createCalldata: the calldata for {sig} contains the size symbols {sizes}; no length candidates are registered on "
                        f"the path for {missing} (registered: {sorted(cands)})", {"cfg": cfg, "sig": sig, "include_view": include_view}))
        else:
            bad = []
            for nm in sizes:
                kind = "bytes" if any(x.kind == "bytes" and x.name and x.name in nm for x in exp) else None
                lists = [sorted(set(own(x.name, x.kind))) for x in exp]
                if sorted(set(cands[nm])) not in lists:
                    bad.append((nm, cands[nm]))
            if bad:
                out.append(("violation", "createcd-candidates", f"candidates-wrong:{sig}",
                            f"createCalldata: candidates {bad} for {sig} are not among the configured lists", {"cfg": cfg, "sig": sig}))
            else:
                out.append(("ok", "createcd-candidates", f"{sig}|{tag}", "", None))
    # fallback selector differs from every function selector (view ones included: they are functions too)
    if fb_sel is None:
        out.append(("inconc", "createcd-selector", tag, "fallback selector symbol not found", None))
    else:
        for sig, sel in mids.items():
            s = z3.Solver()
            s.set(timeout=20000)
            s.add(*pcs)
            s.add(fb_sel == z3.BitVecVal(int(sel, 16), 32))
            r = s.check()
            if r == z3.unsat:
                out.append(("ok", "createcd-selector", f"{sig}|{tag}", "", None))
            elif r == z3.sat:
                out.append(("violation", "createcd-selector", f"fallback-selector:{sig}",
                            f"createCalldata: the fallback alternative admits the selector of {sig} ({sel})", {"cfg": cfg, "sig": sig}))
            else:
                out.append(("inconc", "createcd-selector", f"{sig}|{tag}", "solver unknown", None))
    return out


def run_all(_=None):
    res = []
    for cfg in ({"dal": [0, 1, 2], "dbl": [0, 65], "al": {}, "loop": 2}, {"dal": [2], "dbl": [32], "al": {}, "loop": 2},
                {"dal": [1, 3], "dbl": [0, 1024], "al": {"p0": [2, 1]}, "loop": 3}):
        for iv in (False, True):
            try:
                res += run_config(cfg, iv)
            except Exception as e:  # noqa: BLE001
                import traceback

                res.append(("error", "createcd", str(cfg), traceback.format_exc()[-400:], None))
    return res
