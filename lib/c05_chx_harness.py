"""C05 Route P conditions: the real `SolverOutput.from_result` / `from_error` (halmos/solve.py) under CrossHair with a
symbolic solver stdout / stderr / return code.

Runs in the CrossHair overlay venv (z3 5.x): the code under test only *compares* z3's CheckSatResult constants
(pure Python `__eq__`), it makes no solver call.  `from_result` performs no I/O; the only environment it reads is the
PathContext (args.verbose, args.cache_solver, path_id, dump_file), which is replaced by a plain object with the same
attributes -- nothing of halmos is re-implemented.

Every function returns True iff the property held on its arguments (lib/chx.py conventions).
The specification side: the *first line* is `stdout.split("\n")[0]`; the classification is
    "unsat" -> unsat, "sat" -> sat, "unknown" -> unknown, anything else -> "err".
"""

from types import SimpleNamespace

from z3 import sat, unknown, unsat

from halmos.solve import SolverOutput

LAST_DETAIL = None


class _PathCtx:
    def __init__(self, cache_solver: bool):
        self.args = SimpleNamespace(verbose=0, cache_solver=cache_solver)
        self.path_id = 7
        self.dump_file = "/nonexistent/7.smt2"


def _spec(stdout: str):
    fl = stdout.split("\n")[0]
    if fl == "unsat":
        return unsat
    if fl == "sat":
        return sat
    if fl == "unknown":
        return unknown
    return "err"


def _same(a, b) -> bool:
    if isinstance(a, str) or isinstance(b, str):
        return isinstance(a, str) and isinstance(b, str) and a == b
    return a == b


def _run(stdout, stderr, returncode, cache):
    global LAST_DETAIL
    out = SolverOutput.from_result(stdout, stderr, returncode, _PathCtx(cache))
    LAST_DETAIL = (stdout, stderr, returncode, cache, str(out.result))
    return out


# ---- classification is total and exact (no model text: the first line is the whole point) ---------------------
def classify_8(stdout: str, stderr: str, returncode: int) -> bool:
    """
    pre: len(stdout) <= 8
    pre: len(stderr) <= 4
    post: __return__
    """
    out = _run(stdout, stderr, returncode, False)
    return _same(out.result, _spec(stdout)) and out.returncode == returncode and out.path_id == 7


# ---- the fail-safe direction on its own: unsat only for an exact first line "unsat" -----------------------------
def unsat_only_exact_8(stdout: str, stderr: str, returncode: int) -> bool:
    """
    pre: len(stdout) <= 8
    pre: len(stderr) <= 4
    post: __return__
    """
    out = _run(stdout, stderr, returncode, False)
    if out.result == unsat:
        return stdout == "unsat" or stdout.startswith("unsat\n")
    return True


def sat_only_prefix_8(stdout: str, stderr: str, returncode: int) -> bool:
    """
    pre: len(stdout) <= 8
    pre: len(stderr) <= 4
    post: __return__
    """
    out = _run(stdout, stderr, returncode, False)
    if out.result == sat:
        return stdout.startswith("sat") and out.model is not None
    return out.model is None


def err_keeps_stderr_8(stdout: str, stderr: str, returncode: int) -> bool:
    """
    pre: len(stdout) <= 8
    pre: len(stderr) <= 4
    post: __return__
    """
    # an unrecognised answer is an error carrying stderr and the return code; the return code alone never decides
    out = _run(stdout, stderr, returncode, False)
    if isinstance(out.result, str):
        return out.result == "err" and out.error == stderr and out.returncode == returncode
    return stdout.split("\n")[0] in ("sat", "unsat", "unknown")


def err_else_8(stdout: str, returncode: int) -> bool:
    """
    pre: len(stdout) <= 8
    post: __return__
    """
    # totality: whatever is not recognised is "err" (never a CheckSatResult), whatever the return code
    # (which first lines may yield sat / unsat / unknown is pinned down by the three *_only_* conditions)
    out = _run(stdout, "E", returncode, False)
    if isinstance(out.result, str):
        return out.result == "err" and out.error == "E" and out.model is None
    return out.result == sat or out.result == unsat or out.result == unknown


# ---- unsat with a tail: the text after the first line never changes the class ---------------------------------
def unsat_tail_6(tail: str, stderr: str, returncode: int) -> bool:
    """
    pre: len(tail) <= 6
    pre: len(stderr) <= 4
    post: __return__
    """
    out = _run("unsat\n" + tail, stderr, returncode, False)
    return out.result == unsat and out.model is None


def head_tail_4(head: str, tail: str, returncode: int) -> bool:
    """
    pre: len(head) <= 7
    pre: len(tail) <= 4
    post: __return__
    """
    # first line `head`, arbitrary second part: the class depends on head only
    if "\n" in head:
        return True
    out = _run(head + "\n" + tail, "", returncode, False)
    if head == "unsat":
        return out.result == unsat
    if head == "sat":
        return out.result == sat
    if head == "unknown":
        return out.result == unknown
    return isinstance(out.result, str) and out.result == "err"


def unknown_only_exact_8(stdout: str, stderr: str, returncode: int) -> bool:
    """
    pre: len(stdout) <= 8
    pre: len(stderr) <= 4
    post: __return__
    """
    out = _run(stdout, stderr, returncode, False)
    if out.result == unknown:
        return stdout == "unknown" or stdout == "unknown\n"
    return True


def non_unsat_cache_8(stdout: str, stderr: str, returncode: int) -> bool:
    """
    pre: len(stdout) <= 8
    pre: len(stderr) <= 4
    post: __return__
    """
    # --cache-solver on: an output whose first line is not exactly "unsat" is still never unsat
    if stdout == "unsat" or stdout.startswith("unsat\n"):
        return True
    out = _run(stdout, stderr, returncode, True)
    return not (out.result == unsat)


# ---- from_error never produces anything but "err" ---------------------------------------------------------------
def from_error_is_err(msg: str, path_id: int, query_file: str, returncode: int) -> bool:
    """
    pre: len(msg) <= 8
    pre: len(query_file) <= 8
    post: __return__
    """
    out = SolverOutput.from_error(msg, path_id, query_file, returncode)
    return (isinstance(out.result, str) and out.result == "err" and out.model is None and out.unsat_core is None
            and out.error == msg and not (out.result == unsat) and not (out.result == sat))


def from_error_default_rc(msg: str, path_id: int) -> bool:
    """
    pre: len(msg) <= 8
    post: __return__
    """
    out = SolverOutput.from_error(msg, path_id=path_id, query_file="q")
    return isinstance(out.result, str) and out.result == "err" and out.returncode != 0


# ---- feature reachability (each of these must be REFUTED: shows the symbolic search reaches that branch) --------
def reach_unsat(stdout: str) -> bool:
    """
    pre: len(stdout) <= 8
    post: __return__
    """
    return not (_run(stdout, "", 0, False).result == unsat)


def reach_sat(stdout: str) -> bool:
    """
    pre: len(stdout) <= 8
    post: __return__
    """
    return not (_run(stdout, "", 0, False).result == sat)


def reach_unknown(stdout: str) -> bool:
    """
    pre: len(stdout) <= 8
    post: __return__
    """
    return not (_run(stdout, "", 0, False).result == unknown)


def reach_err_nonempty(stdout: str) -> bool:
    """
    pre: 1 <= len(stdout) <= 8
    post: __return__
    """
    r = _run(stdout, "", 0, False).result
    return not (isinstance(r, str) and r == "err" and stdout.startswith("unsat"))
