"""Solver portfolio: z3 in-process first, then external back ends raced as subprocesses.

solve(assertions) -> Result(status in {'sat','unsat','unknown'}, model: {const name -> int|bool}, backend, time)

* Quantifier-free bit-vector/array/UF queries are exported with Solver.to_smt2() and raced on
  z3 (binary), yices-smt2, cvc5 and cvc5 --solve-bv-as-int=sum.  The first definite answer wins.
* A back end that prints `(error` or exits abnormally is ignored for that query (never counted as an answer).
* Models are obtained with (get-value ...) on the free BV/Bool constants; array/UF interpretation is then
  completed by z3 in-process with the scalar constants pinned (callers replay witnesses anyway).
"""

from __future__ import annotations

import os
import re
import shutil
import subprocess
import tempfile
import time
from dataclasses import dataclass, field

import z3

Z3_BIN = "/venv/bin/z3" if os.path.exists("/venv/bin/z3") else shutil.which("z3")
YICES_BIN = "/venv/bin/yices-smt2" if os.path.exists("/venv/bin/yices-smt2") else shutil.which("yices-smt2")
CVC5_BIN = shutil.which("cvc5")

BACKENDS = {
    "z3bin": lambda f, t: [Z3_BIN, f"-T:{max(1, int(t))}", f],
    "yices": lambda f, t: [YICES_BIN, f"--timeout={max(1, int(t))}", f],
    "cvc5": lambda f, t: [CVC5_BIN, f"--tlimit={int(t * 1000)}", "--produce-models", f],
    "cvc5int": lambda f, t: [CVC5_BIN, f"--tlimit={int(t * 1000)}", "--produce-models", "--solve-bv-as-int=sum", f],
}
DEFAULT_ORDER = ["yices", "cvc5int", "z3bin", "cvc5"]


@dataclass
class Result:
    status: str
    model: dict = field(default_factory=dict)
    backend: str = ""
    time: float = 0.0
    answers: dict = field(default_factory=dict)

    def __bool__(self):  # guard against accidental truthiness use
        raise TypeError("use .status")


def free_consts(exprs) -> list:
    seen, out, stack = set(), [], list(exprs)
    while stack:
        e = stack.pop()
        i = e.get_id()
        if i in seen:
            continue
        seen.add(i)
        if z3.is_quantifier(e):
            stack.append(e.body())
            continue
        if z3.is_const(e) and e.decl().kind() == z3.Z3_OP_UNINTERPRETED:
            out.append(e)
        else:
            stack.extend(e.children())
    return out


def _has_quantifier(exprs) -> bool:
    seen, stack = set(), list(exprs)
    while stack:
        e = stack.pop()
        i = e.get_id()
        if i in seen:
            continue
        seen.add(i)
        if z3.is_quantifier(e):
            return True
        stack.extend(e.children())
    return False


def _model_from_z3(m, consts) -> dict:
    out = {}
    for c in consts:
        if z3.is_bv(c) or z3.is_bool(c):
            v = m.eval(c, model_completion=True)
            if z3.is_bv_value(v):
                out[str(c)] = v.as_long()
            elif z3.is_true(v):
                out[str(c)] = True
            elif z3.is_false(v):
                out[str(c)] = False
    return out


_VAL_RE = re.compile(r"\(\s*(\|[^|]*\||[^\s()]+)\s+(#x[0-9a-fA-F]+|#b[01]+|\(_ bv(\d+) \d+\)|true|false)\s*\)")


def _parse_get_value(text: str) -> dict:
    out = {}
    for m in _VAL_RE.finditer(text):
        name, val = m.group(1), m.group(2)
        if name.startswith("|"):
            name = name[1:-1]
        if val.startswith("#x"):
            out[name] = int(val[2:], 16)
        elif val.startswith("#b"):
            out[name] = int(val[2:], 2)
        elif val == "true":
            out[name] = True
        elif val == "false":
            out[name] = False
        else:
            out[name] = int(m.group(3))
    return out


def _elim_const_arrays(assertions):
    """yices (and z3 under QF_AUFBV) reject `(as const ...)`.  Replace every constant array K(v) by a fresh array
    constant a_K and add `a_K[i] == v` for every index term i read anywhere in the query (the array property
    fragment instantiation: complete for select/store formulas without array equalities; in any case it only
    weakens the assumptions, so `unsat` stays sound and a spurious `sat` is rejected by replay)."""
    ks, idx, seen, stack = {}, {}, set(), list(assertions)
    while stack:
        e = stack.pop()
        i = e.get_id()
        if i in seen:
            continue
        seen.add(i)
        if z3.is_quantifier(e):
            return assertions  # leave quantified queries alone (handled in-process only)
        if z3.is_app(e):
            if z3.is_const_array(e):
                ks[i] = e
            elif z3.is_select(e):
                idx.setdefault(e.arg(1).sort().sexpr(), {})[e.arg(1).get_id()] = e.arg(1)
            stack.extend(e.children())
    if not ks:
        return assertions
    subs, extra = [], []
    for n, (i, k) in enumerate(ks.items()):
        a = z3.Const(f"__k{n}_{i}", k.sort())
        subs.append((k, a))
        v = k.arg(0)
        for t in idx.get(k.sort().domain().sexpr(), {}).values():
            extra.append(z3.Select(a, t) == v)
    # index terms may themselves contain K arrays: substitute everywhere
    out = [z3.substitute(x, *subs) for x in list(assertions) + extra]
    return out


def to_smt2(assertions, consts, logic="QF_AUFBV") -> str:
    assertions = _elim_const_arrays(list(assertions))
    s = z3.Solver()
    for a in assertions:
        s.add(a)
    text = s.to_smt2()
    # z3-internal "divisor known non-zero" operators are not SMT-LIB; same meaning as the plain ones there
    for op in ("bvudiv", "bvurem", "bvsdiv", "bvsrem", "bvsmod"):
        text = text.replace(f"({op}_i ", f"({op} ")
    declared = {str(c) for c in free_consts(assertions)}
    scal = [c for c in consts if (z3.is_bv(c) or z3.is_bool(c)) and str(c) in declared]
    head = f"(set-option :produce-models true)\n(set-logic {logic})\n"
    tail = ""
    if scal:
        names = " ".join(c.sexpr() for c in scal)
        tail = f"(get-value ({names}))\n"
    return head + text + tail


def _race(smt2: str, timeout: float, order, want_all=False) -> tuple[str, str, str, dict]:
    """returns (status, backend, stdout, answers)"""
    fd, path = tempfile.mkstemp(suffix=".smt2", prefix="vq_", dir=os.environ.get("VERIF_TMP", tempfile.gettempdir()))
    with os.fdopen(fd, "w") as f:
        f.write(smt2)
    procs = {}
    try:
        for name in order:
            cmd = BACKENDS[name](path, timeout)
            if not cmd[0]:
                continue
            procs[name] = subprocess.Popen(cmd, stdout=subprocess.PIPE, stderr=subprocess.PIPE, text=True)
        deadline = time.time() + timeout + 2
        answers: dict[str, str] = {}
        outs: dict[str, str] = {}
        winner = None
        while procs and time.time() < deadline:
            for name, p in list(procs.items()):
                if p.poll() is None:
                    continue
                out, err = p.communicate()
                del procs[name]
                first = out.strip().split("\n", 1)[0].strip() if out.strip() else ""
                # an `(error` printed *before* the answer disqualifies this back end for this query;
                # errors after the answer come from (get-value) after unsat/unknown and are harmless
                if first not in ("sat", "unsat"):
                    answers[name] = "error" if "(error" in first or (not first and "rror" in err) else "unknown"
                    continue
                answers[name] = first
                outs[name] = out
                if winner is None:
                    winner = name
            if winner and not want_all:
                break
            if not procs:
                break
            time.sleep(0.01)
        definite = {a for a in answers.values() if a in ("sat", "unsat")}
        if len(definite) > 1:
            return "disagree", "", "", answers
        if winner:
            return answers[winner], winner, outs[winner], answers
        return "unknown", "", "", answers
    finally:
        for p in procs.values():
            try:
                p.kill()
                p.communicate(timeout=2)
            except Exception:
                pass
        try:
            os.unlink(path)
        except OSError:
            pass


def solve(assertions, timeout: float = 20.0, inproc_ms: int = 1500, order=None, want_all=False,
          model_consts=None) -> Result:
    t0 = time.time()
    assertions = [a for a in assertions]
    consts = free_consts(assertions) if model_consts is None else list(model_consts)
    # 1. in-process z3, short budget
    s = z3.Solver()
    s.set("timeout", inproc_ms)
    for a in assertions:
        s.add(a)
    r = s.check()
    if r == z3.unsat and not want_all:
        return Result("unsat", {}, "z3", time.time() - t0, {"z3": "unsat"})
    if r == z3.sat and not want_all:
        return Result("sat", _model_from_z3(s.model(), consts), "z3", time.time() - t0, {"z3": "sat"})
    inproc = str(r)
    if _has_quantifier(assertions):
        s.set("timeout", int(timeout * 1000))
        r = s.check()
        st = str(r)
        return Result(st, _model_from_z3(s.model(), consts) if r == z3.sat else {}, "z3", time.time() - t0, {"z3": st})
    # 2. external race
    smt2 = to_smt2(assertions, consts)
    status, backend, out, answers = _race(smt2, timeout, order or DEFAULT_ORDER, want_all=want_all)
    answers["z3"] = inproc
    if want_all and inproc in ("sat", "unsat"):
        ext = {a for a in answers.values() if a in ("sat", "unsat")}
        if len(ext) > 1:
            status = "disagree"
    if status == "disagree":
        return Result("disagree", {}, "", time.time() - t0, answers)
    if status == "sat":
        model = _parse_get_value(out.split("\n", 1)[1] if "\n" in out else "")
        return Result("sat", model, backend, time.time() - t0, answers)
    if status == "unknown" and inproc in ("sat", "unsat"):
        return Result(inproc, _model_from_z3(s.model(), consts) if inproc == "sat" else {}, "z3", time.time() - t0, answers)
    return Result(status, {}, backend, time.time() - t0, answers)


def is_valid(claim, assumptions=(), **kw) -> Result:
    """unsat <=> claim holds under assumptions"""
    return solve(list(assumptions) + [z3.Not(claim)], **kw)


def eval_model(expr, model: dict, consts=None):
    """Evaluate expr with scalar consts pinned to the model's values (others completed by z3)."""
    consts = consts if consts is not None else free_consts([expr])
    subs = []
    for c in consts:
        n = str(c)
        if n in model:
            v = model[n]
            if z3.is_bv(c):
                subs.append((c, z3.BitVecVal(v, c.size())))
            elif z3.is_bool(c):
                subs.append((c, z3.BoolVal(bool(v))))
    return z3.simplify(z3.substitute(expr, *subs)) if subs else z3.simplify(expr)


# ---------------------------------------------------------------------------
# batch interface: in-process z3 in the calling thread, external race in a thread pool
# ---------------------------------------------------------------------------
@dataclass
class Pending:
    key: object
    smt2: str
    inproc: str
    quantified: bool = False


def prepare(key, assertions, inproc_ms: int = 400, model_consts=None):
    """-> Result (decided in-process) | Pending"""
    t0 = time.time()
    assertions = list(assertions)
    consts = free_consts(assertions) if model_consts is None else list(model_consts)
    s = z3.Solver()
    s.set("timeout", inproc_ms)
    for a in assertions:
        s.add(a)
    r = s.check()
    if r == z3.unsat:
        return Result("unsat", {}, "z3", time.time() - t0, {"z3": "unsat"})
    if r == z3.sat:
        return Result("sat", _model_from_z3(s.model(), consts), "z3", time.time() - t0, {"z3": "sat"})
    if _has_quantifier(assertions):
        return Result("unknown", {}, "z3", time.time() - t0, {"z3": "unknown"})
    return Pending(key, to_smt2(assertions, consts), str(r))


def run_pending(pendings, jobs: int = 4, timeout: float = 20.0, order=None, want_all=False):
    """-> {key: Result}; each pending races up to 4 solver processes, so jobs*4 processes run at once"""
    from concurrent.futures import ThreadPoolExecutor

    def one(p: Pending):
        t0 = time.time()
        status, backend, out, answers = _race(p.smt2, timeout, order or DEFAULT_ORDER, want_all=want_all)
        answers["z3"] = p.inproc
        model = {}
        if status == "sat":
            model = _parse_get_value(out.split("\n", 1)[1] if "\n" in out else "")
        return p.key, Result(status, model, backend, time.time() - t0, answers)

    out = {}
    if not pendings:
        return out
    with ThreadPoolExecutor(max_workers=max(1, jobs)) as ex:
        for k, r in ex.map(one, pendings):
            out[k] = r
    return out


class Pool:
    """Asynchronous front end: submit() tries z3 in-process (calling thread), and queues the
    undecided query for the external race in a background thread pool; results() drains."""

    def __init__(self, jobs: int = 4, timeout: float = 20.0, inproc_ms: int = 150, order=None):
        from concurrent.futures import ThreadPoolExecutor

        self.ex = ThreadPoolExecutor(max_workers=max(1, jobs))
        self.timeout, self.inproc_ms, self.order = timeout, inproc_ms, order
        self.done: list = []  # (key, Result)
        self.futs: list = []

    def submit(self, key, assertions, model_consts=None, inproc_ms=None):
        r = prepare(key, assertions, inproc_ms=self.inproc_ms if inproc_ms is None else inproc_ms,
                    model_consts=model_consts)
        if isinstance(r, Pending):
            self.futs.append(self.ex.submit(self._one, r))
        else:
            self.done.append((key, r))

    def _one(self, p: Pending):
        t0 = time.time()
        status, backend, out, answers = _race(p.smt2, self.timeout, self.order or DEFAULT_ORDER)
        answers["z3"] = p.inproc
        model = {}
        if status == "sat":
            model = _parse_get_value(out.split("\n", 1)[1] if "\n" in out else "")
        return p.key, Result(status, model, backend, time.time() - t0, answers)

    def results(self):
        """yield (key, Result) for everything submitted so far (blocks until the queue is empty)"""
        while self.done or self.futs:
            while self.done:
                yield self.done.pop()
            if self.futs:
                f = self.futs.pop(0)
                yield f.result()

    def close(self):
        self.ex.shutdown(wait=True)
