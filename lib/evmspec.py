"""EVM word-level instruction semantics written from the Yellow Paper / EIP-145,
twice and independently of halmos: over z3 256-bit terms (zspec) and over Python ints (pyspec).
Operands are given in stack order: a = top of stack, b = next, c = third.
"""

from __future__ import annotations

import z3

M = 1 << 256
MASK = M - 1

OPC = {
    "ADD": 0x01, "MUL": 0x02, "SUB": 0x03, "DIV": 0x04, "SDIV": 0x05, "MOD": 0x06, "SMOD": 0x07,
    "ADDMOD": 0x08, "MULMOD": 0x09, "EXP": 0x0A, "SIGNEXTEND": 0x0B,
    "LT": 0x10, "GT": 0x11, "SLT": 0x12, "SGT": 0x13, "EQ": 0x14, "ISZERO": 0x15,
    "AND": 0x16, "OR": 0x17, "XOR": 0x18, "NOT": 0x19, "BYTE": 0x1A, "SHL": 0x1B, "SHR": 0x1C, "SAR": 0x1D,
}
ARITY = {
    "ADD": 2, "MUL": 2, "SUB": 2, "DIV": 2, "SDIV": 2, "MOD": 2, "SMOD": 2, "ADDMOD": 3, "MULMOD": 3, "EXP": 2,
    "SIGNEXTEND": 2, "LT": 2, "GT": 2, "SLT": 2, "SGT": 2, "EQ": 2, "ISZERO": 1, "AND": 2, "OR": 2, "XOR": 2,
    "NOT": 1, "BYTE": 2, "SHL": 2, "SHR": 2, "SAR": 2,
}


def _b2w(b):
    return z3.If(b, z3.BitVecVal(1, 256), z3.BitVecVal(0, 256))


def zspec(op: str, a, b=None, c=None, size: int = 256):
    """z3 term of the EVM result; `size` lets the same definitions be instantiated at small widths"""
    Z = z3.BitVecVal(0, size)
    ONE = z3.BitVecVal(1, size)
    b2w = lambda t: z3.If(t, ONE, Z)  # noqa: E731
    if op == "ADD":
        return a + b
    if op == "MUL":
        return a * b
    if op == "SUB":
        return a - b
    if op == "DIV":
        return z3.If(b == Z, Z, z3.UDiv(a, b))
    if op == "SDIV":
        return z3.If(b == Z, Z, a / b)
    if op == "MOD":
        return z3.If(b == Z, Z, z3.URem(a, b))
    if op == "SMOD":
        return z3.If(b == Z, Z, z3.SRem(a, b))
    if op == "ADDMOD":
        s = z3.ZeroExt(1, a) + z3.ZeroExt(1, b)
        return z3.If(c == Z, Z, z3.Extract(size - 1, 0, z3.URem(s, z3.ZeroExt(1, c))))
    if op == "MULMOD":
        p = z3.ZeroExt(size, a) * z3.ZeroExt(size, b)
        return z3.If(c == Z, Z, z3.Extract(size - 1, 0, z3.URem(p, z3.ZeroExt(size, c))))
    if op == "SIGNEXTEND":
        # a = byte index, b = value
        nbytes = size // 8
        r = b
        for k in range(nbytes - 2, -1, -1):
            bits = 8 * (k + 1)
            r = z3.If(a == z3.BitVecVal(k, size), z3.SignExt(size - bits, z3.Extract(bits - 1, 0, b)), r)
        return r
    if op == "LT":
        return b2w(z3.ULT(a, b))
    if op == "GT":
        return b2w(z3.UGT(a, b))
    if op == "SLT":
        return b2w(a < b)
    if op == "SGT":
        return b2w(a > b)
    if op == "EQ":
        return b2w(a == b)
    if op == "ISZERO":
        return b2w(a == Z)
    if op == "AND":
        return a & b
    if op == "OR":
        return a | b
    if op == "XOR":
        return a ^ b
    if op == "NOT":
        return ~a
    if op == "BYTE":
        # a = index (0 = most significant), b = value
        nbytes = size // 8
        r = Z
        for k in range(nbytes):
            lo = 8 * (nbytes - 1 - k)
            r = z3.If(a == z3.BitVecVal(k, size), z3.ZeroExt(size - 8, z3.Extract(lo + 7, lo, b)), r)
        return r
    if op == "SHL":
        return z3.If(z3.ULT(a, z3.BitVecVal(size, size)), b << a, Z)
    if op == "SHR":
        return z3.If(z3.ULT(a, z3.BitVecVal(size, size)), z3.LShR(b, a), Z)
    if op == "SAR":
        neg = z3.Extract(size - 1, size - 1, b) == z3.BitVecVal(1, 1)
        return z3.If(z3.ULT(a, z3.BitVecVal(size, size)), b >> a, z3.If(neg, z3.BitVecVal(-1, size), Z))
    raise ValueError(op)


def _s(x, size=256):
    return x - (1 << size) if x >> (size - 1) else x


def pyspec(op: str, a: int, b: int = 0, c: int = 0, size: int = 256) -> int:
    m = 1 << size
    if op == "ADD":
        return (a + b) % m
    if op == "MUL":
        return (a * b) % m
    if op == "SUB":
        return (a - b) % m
    if op == "DIV":
        return 0 if b == 0 else a // b
    if op == "SDIV":
        if b == 0:
            return 0
        sa, sb = _s(a, size), _s(b, size)
        q = abs(sa) // abs(sb)
        if (sa < 0) != (sb < 0):
            q = -q
        return q % m
    if op == "MOD":
        return 0 if b == 0 else a % b
    if op == "SMOD":
        if b == 0:
            return 0
        sa, sb = _s(a, size), _s(b, size)
        r = abs(sa) % abs(sb)
        return (-r if sa < 0 else r) % m
    if op == "ADDMOD":
        return 0 if c == 0 else (a + b) % c
    if op == "MULMOD":
        return 0 if c == 0 else (a * b) % c
    if op == "EXP":
        return pow(a, b, m)
    if op == "SIGNEXTEND":
        if a >= size // 8 - 1:
            return b
        bits = 8 * (a + 1)
        v = b & ((1 << bits) - 1)
        if v >> (bits - 1):
            v |= (m - 1) ^ ((1 << bits) - 1)
        return v
    if op == "LT":
        return int(a < b)
    if op == "GT":
        return int(a > b)
    if op == "SLT":
        return int(_s(a, size) < _s(b, size))
    if op == "SGT":
        return int(_s(a, size) > _s(b, size))
    if op == "EQ":
        return int(a == b)
    if op == "ISZERO":
        return int(a == 0)
    if op == "AND":
        return a & b
    if op == "OR":
        return a | b
    if op == "XOR":
        return a ^ b
    if op == "NOT":
        return (m - 1) ^ a
    if op == "BYTE":
        n = size // 8
        return 0 if a >= n else (b >> (8 * (n - 1 - a))) & 0xFF
    if op == "SHL":
        return 0 if a >= size else (b << a) % m
    if op == "SHR":
        return 0 if a >= size else b >> a
    if op == "SAR":
        sb = _s(b, size)
        if a >= size:
            return (m - 1) if sb < 0 else 0
        return (sb >> a) % m
    raise ValueError(op)


def boundary_values(seed: int = 0, full: bool = True) -> list[int]:
    import random

    rnd = random.Random(0xB0DA + seed)
    vals = [0, 1, 2, 3, 7, 8, 15, 16, 31, 32, 33, 255, 256, 257]
    if full:
        for k in (8, 64, 128, 160, 255):
            vals += [(1 << k) - 1, 1 << k, (1 << k) + 1]
    else:
        vals += [1 << 64, (1 << 160) - 1, 1 << 200]
    vals += [1 << 255, M - 2, M - 1, (1 << 255) | 1, (1 << 200) + 12345, 12345]
    vals += [rnd.getrandbits(256) for _ in range(3 if full else 1)]
    out = []
    for v in vals:
        v %= M
        if v not in out:
            out.append(v)
    return out
