"""C18 Route A: ParseTimeout.unparse / parse_time read from /repo's AST and translated to QF_FPBV (z3 FP, Float64, RNE).

Nothing about the two kernels is written by hand: `Model(src_root)` walks the AST of
  halmos.config.ParseTimeout.parse / .unparse  and  halmos.utils.parse_time
and produces
  * unparse cases  [(guard(value), int_term(value), suffix)]   from `if value < 1: return f"{int(value * 1000)}ms"` ...
  * parse branches [(suffix, strip, op, const)]                 from `if arg.endswith("ms"): return float(arg[:-2]) / 1000`
Any construct outside the recognised subset raises Unsupported (=> the obligation is inconclusive, never a violation).
Python builtins are given their IEEE-754 meaning: float(<decimal digits of an int M>) = round-to-nearest-even of M,
int(<float>) = truncation toward zero, float * / int = the int converted exactly (|const| < 2^53) then the RNE operation.
The translation is validated against the real functions on a grid before it is used (`validate`).
"""

from __future__ import annotations

import ast
import os
import struct

import z3

F64 = z3.Float64()
RNE = z3.RNE()
RTZ = z3.RTZ()
NBITS = 44  # width of the integers that appear in the strings (all ranges used are below 2^42)


class Unsupported(Exception):
    pass


def _find(tree, *path):
    node = tree
    for name in path:
        for n in node.body:
            if isinstance(n, (ast.ClassDef, ast.FunctionDef)) and n.name == name:
                node = n
                break
        else:
            raise Unsupported(f"{'.'.join(path)} not found")
    return node


def _parse_file(src_root, rel):
    with open(os.path.join(src_root, rel)) as f:
        return ast.parse(f.read())


def fp_const(c) -> z3.FPRef:
    if isinstance(c, bool) or not isinstance(c, (int, float)):
        raise Unsupported(f"constant {c!r}")
    if isinstance(c, int) and abs(c) >= 2 ** 53:
        raise Unsupported("int constant not exactly representable")
    return z3.FPVal(float(c), F64)


# ---------------------------------------------------------------------------
# expression translator (float-valued / int-valued / bool-valued)
# ---------------------------------------------------------------------------
class Tr:
    def __init__(self, env):
        self.env = env  # name -> ('f', FP term)

    def num(self, e):
        """-> ('f', fp) | ('i', signed bv NBITS) | ('c', python number)"""
        if isinstance(e, ast.Constant):
            if isinstance(e.value, (int, float)) and not isinstance(e.value, bool):
                return ("c", e.value)
            raise Unsupported(f"constant {e.value!r}")
        if isinstance(e, ast.Name):
            if e.id in self.env:
                return self.env[e.id]
            raise Unsupported(f"name {e.id}")
        if isinstance(e, ast.BinOp):
            a, b = self.num(e.left), self.num(e.right)
            if a[0] == "c" and b[0] == "c":
                raise Unsupported("constant folding")
            if "i" in (a[0], b[0]):
                # int(...) / const : Python's true division of an int < 2^53 by an int constant is the correctly rounded
                # exact quotient = IEEE division of the exactly converted operands (NBITS = 44 < 53)
                if a[0] == "i" and b[0] == "c" and isinstance(e.op, ast.Div) and isinstance(b[1], int) and abs(b[1]) < 2 ** 53:
                    return ("f", z3.fpDiv(RNE, z3.fpSignedToFP(RNE, a[1], F64), fp_const(b[1])))
                raise Unsupported("integer arithmetic")
            fa = fp_const(a[1]) if a[0] == "c" else a[1]
            fb = fp_const(b[1]) if b[0] == "c" else b[1]
            ops = {ast.Mult: z3.fpMul, ast.Div: z3.fpDiv, ast.Add: z3.fpAdd, ast.Sub: z3.fpSub}
            for k, fn in ops.items():
                if isinstance(e.op, k):
                    return ("f", fn(RNE, fa, fb))
            raise Unsupported(f"operator {type(e.op).__name__}")
        if isinstance(e, ast.Call) and isinstance(e.func, ast.Name) and not e.keywords and len(e.args) == 1:
            a = self.num(e.args[0])
            if e.func.id == "int":
                if a[0] != "f":
                    raise Unsupported("int() of a non-float")
                # truncation toward zero; the caller constrains the operand to 0 <= x < 2^(NBITS-2) (no overflow of the bv)
                return ("i", z3.fpToSBV(RTZ, a[1], z3.BitVecSort(NBITS)), a[1])
            if e.func.id == "float":
                if a[0] == "i":
                    return ("f", z3.fpSignedToFP(RNE, a[1], F64))
                return a
        raise Unsupported(ast.dump(e)[:80])

    def cond(self, e):
        if isinstance(e, ast.BoolOp) and isinstance(e.op, (ast.And, ast.Or)):
            parts = [self.cond(v) for v in e.values]
            return z3.And(*parts) if isinstance(e.op, ast.And) else z3.Or(*parts)
        if isinstance(e, ast.Compare) and len(e.ops) == 1:
            a, b = self.num(e.left), self.num(e.comparators[0])
            # float <op> int: Python compares exactly; an int below 2^53 converts exactly (NBITS = 44)
            if a[0] == "i" and b[0] in ("f", "c"):
                a = ("f", z3.fpSignedToFP(RNE, a[1], F64))
            if b[0] == "i" and a[0] in ("f", "c"):
                b = ("f", z3.fpSignedToFP(RNE, b[1], F64))
            if "i" in (a[0], b[0]):
                raise Unsupported("integer comparison")
            fa = fp_const(a[1]) if a[0] == "c" else a[1]
            fb = fp_const(b[1]) if b[0] == "c" else b[1]
            table = {ast.Lt: z3.fpLT, ast.LtE: z3.fpLEQ, ast.Gt: z3.fpGT, ast.GtE: z3.fpGEQ, ast.Eq: z3.fpEQ}
            for k, fn in table.items():
                if isinstance(e.ops[0], k):
                    return fn(fa, fb)
        raise Unsupported(ast.dump(e)[:80])


def _joined(e, tr):
    """f"{<int expr>}<suffix>"  ->  (int term tuple, suffix)"""
    if not isinstance(e, ast.JoinedStr) or len(e.values) != 2:
        raise Unsupported("return value is not f'{int}suffix'")
    fv, suf = e.values
    if not (isinstance(suf, ast.Constant) and isinstance(suf.value, str)):
        raise Unsupported("suffix is not a literal")
    if isinstance(fv, ast.FormattedValue) and fv.conversion == ord("r") and fv.format_spec is None:
        # f"{x!r}<suffix>" with x a float: repr(float) is the shortest string that float() maps back to x exactly
        t = tr.num(fv.value)
        if t[0] != "f":
            raise Unsupported("!r of a non-float")
        return ("r", None, t[1]), suf.value
    if not (isinstance(fv, ast.FormattedValue) and fv.conversion == -1 and fv.format_spec is None):
        raise Unsupported("formatted value with conversion/format spec")
    t = tr.num(fv.value)
    if t[0] != "i":
        raise Unsupported("formatted value is not int(...)")
    return t, suf.value


def unparse_cases(fn: ast.FunctionDef, value: z3.FPRef):
    """[(guard, (‘i’, bv, fp operand), suffix)] — straight-line If/Return bodies only"""
    if [a.arg for a in fn.args.args] != ["value"]:
        raise Unsupported("unparse signature")
    tr = Tr({"value": ("f", value)})
    cases, path = [], []

    def block(stmts, path):
        for i, st in enumerate(stmts):
            if isinstance(st, ast.Expr) and isinstance(st.value, ast.Constant):
                continue  # docstring
            if isinstance(st, ast.Assign) and len(st.targets) == 1 and isinstance(st.targets[0], ast.Name):
                tr.env[st.targets[0].id] = tr.num(st.value)
                continue
            if isinstance(st, ast.Return):
                t, suf = _joined(st.value, tr)
                cases.append((z3.And(*path) if path else z3.BoolVal(True), t, suf))
                return True
            if isinstance(st, ast.If):
                c = tr.cond(st.test)
                then_ret = block(st.body, path + [c])
                else_ret = block(st.orelse, path + [z3.Not(c)]) if st.orelse else False
                if then_ret and else_ret:
                    return True
                if then_ret:
                    path = path + [z3.Not(c)]
                    continue
                raise Unsupported("if-branch that falls through")
            raise Unsupported(type(st).__name__)
        return False

    if not block(fn.body, path):
        raise Unsupported("unparse may fall off its end")
    return cases


def parse_time_branches(fn: ast.FunctionDef):
    """the `isinstance(arg, str)` chain of parse_time -> ([(suffix, strip, op, const)], zero_literal, has_default_recursion)"""
    top = None
    for st in fn.body:
        if isinstance(st, ast.If) and isinstance(st.test, ast.Call) and getattr(st.test.func, "id", "") == "isinstance" \
                and isinstance(st.test.args[1], ast.Name) and st.test.args[1].id == "str":
            top = st
    if top is None or len(top.body) != 1 or not isinstance(top.body[0], ast.If):
        raise Unsupported("parse_time: str branch not found")
    branches, zero, default_rec = [], None, False
    node = top.body[0]
    while True:
        t = node.test
        if isinstance(t, ast.Call) and isinstance(t.func, ast.Attribute) and t.func.attr == "endswith" \
                and isinstance(t.func.value, ast.Name) and t.func.value.id == "arg" and len(t.args) == 1 \
                and isinstance(t.args[0], ast.Constant):
            suffix = t.args[0].value
            if len(node.body) != 1 or not isinstance(node.body[0], ast.Return):
                raise Unsupported("endswith branch body")
            branches.append((suffix, *_float_of_slice(node.body[0].value)))
        elif isinstance(t, ast.Compare) and isinstance(t.left, ast.Name) and t.left.id == "arg" \
                and isinstance(t.ops[0], ast.Eq) and isinstance(t.comparators[0], ast.Constant):
            r = node.body[0]
            if not (isinstance(r, ast.Return) and isinstance(r.value, ast.Constant)):
                raise Unsupported("literal branch body")
            zero = (t.comparators[0].value, float(r.value.value))
        else:
            raise Unsupported("parse_time: unrecognised test " + ast.dump(t)[:60])
        if len(node.orelse) == 1 and isinstance(node.orelse[0], ast.If):
            node = node.orelse[0]
            continue
        # final else: `if not default_unit: raise ...; return parse_time(arg + default_unit, default_unit=None)`
        for st in node.orelse:
            if isinstance(st, ast.Return) and isinstance(st.value, ast.Call) and getattr(st.value.func, "id", "") == fn.name:
                a0 = st.value.args[0]
                if isinstance(a0, ast.BinOp) and isinstance(a0.op, ast.Add) and getattr(a0.left, "id", "") == "arg" \
                        and getattr(a0.right, "id", "") == "default_unit":
                    default_rec = True
        break
    return branches, zero, default_rec


def _float_of_slice(e):
    """float(arg[:-k]) [op const] -> (k, op, const)"""
    op, const = None, None
    if isinstance(e, ast.BinOp):
        if not isinstance(e.right, ast.Constant):
            raise Unsupported("parse_time: non-constant factor")
        op, const, e = type(e.op), e.right.value, e.left
        if op not in (ast.Mult, ast.Div):
            raise Unsupported("parse_time: operator")
    if not (isinstance(e, ast.Call) and getattr(e.func, "id", "") == "float" and len(e.args) == 1):
        raise Unsupported("parse_time: not float(...)")
    sl = e.args[0]
    if not (isinstance(sl, ast.Subscript) and getattr(sl.value, "id", "") == "arg" and isinstance(sl.slice, ast.Slice)
            and sl.slice.lower is None and isinstance(sl.slice.upper, ast.UnaryOp)
            and isinstance(sl.slice.upper.op, ast.USub) and isinstance(sl.slice.upper.operand, ast.Constant)):
        raise Unsupported("parse_time: slice")
    return sl.slice.upper.operand.value, op, const


class Model:
    """the translated kernels for one source tree"""

    def __init__(self, src_root: str):
        cfg = _parse_file(src_root, "halmos/config.py")
        utl = _parse_file(src_root, "halmos/utils.py")
        self.unparse_fn = _find(cfg, "ParseTimeout", "unparse")
        parse_fn = _find(cfg, "ParseTimeout", "parse")
        self.default_unit = self._default_unit(parse_fn)
        self.branches, self.zero, self.default_rec = parse_time_branches(_find(utl, "parse_time"))
        self.constructs = ["ParseTimeout.unparse: If/Compare/Return/JoinedStr/int()/BinOp",
                           "ParseTimeout.parse -> parse_time(values, default_unit=...)",
                           "parse_time: endswith chain " + ",".join(repr(b[0]) for b in self.branches)]

    @staticmethod
    def _default_unit(parse_fn):
        rets = [s for s in parse_fn.body if isinstance(s, ast.Return)]
        if len(rets) != 1:
            raise Unsupported("ParseTimeout.parse body")
        c = rets[0].value
        if not (isinstance(c, ast.Call) and getattr(c.func, "id", "") == "parse_time" and len(c.args) == 1
                and getattr(c.args[0], "id", "") == "values"):
            raise Unsupported("ParseTimeout.parse is not parse_time(values, ...)")
        for kw in c.keywords:
            if kw.arg == "default_unit" and isinstance(kw.value, ast.Constant):
                return kw.value.value
        raise Unsupported("default_unit")

    def parse_int_with_suffix(self, m_bv, suffix: str) -> z3.FPRef:
        """parse(f"{M}{suffix}") for an integer M >= 0 given as a signed bit-vector"""
        eff = suffix
        if suffix == "":
            if not self.default_rec or not self.default_unit:
                raise Unsupported("no default unit recursion")
            eff = self.default_unit  # arg + default_unit, then the chain again ("0" -> 0.0 agrees with 0/1000)
            if self.zero is not None and self.zero != ("0", 0.0):
                raise Unsupported("zero literal branch")
        for suf, k, op, const in self.branches:
            if eff.endswith(suf):  # decimal digits never end with a letter, so the first matching literal decides
                if k != len(suf) or len(eff) != len(suf):
                    raise Unsupported("slice does not strip exactly the unit")
                x = z3.fpSignedToFP(RNE, m_bv, F64)  # float("<digits of M>") is the correctly rounded M
                if op is None:
                    return x
                return (z3.fpMul if op is ast.Mult else z3.fpDiv)(RNE, x, fp_const(const))
        raise Unsupported(f"no branch for unit {eff!r}")

    def parse_float_with_suffix(self, x: z3.FPRef, suffix: str) -> z3.FPRef:
        """parse(f"{x!r}{suffix}") for a finite float x: float(repr(x)) == x exactly (Python's repr guarantee)"""
        for suf, k, op, const in self.branches:
            if suffix.endswith(suf):
                if k != len(suf) or len(suffix) != len(suf):
                    raise Unsupported("slice does not strip exactly the unit")
                if op is None:
                    return x
                return (z3.fpMul if op is ast.Mult else z3.fpDiv)(RNE, x, fp_const(const))
        raise Unsupported(f"no branch for unit {suffix!r}")

    def unparse(self, value: z3.FPRef):
        return unparse_cases(self.unparse_fn, value)

    def roundtrip_defect(self, x0: z3.FPRef):
        """formula: parse(unparse(x0)) != x0 (for finite x0 >= 0 with the int() operand below 2^(NBITS-2)), plus the per-case terms"""
        alts, cases = [], []
        for guard, (kind, m_bv, operand), suffix in self.unparse(x0):
            if kind == "r":
                x1 = self.parse_float_with_suffix(operand, suffix)
                alts.append(z3.And(guard, z3.Not(z3.fpEQ(x1, x0))))
                cases.append((guard, None, suffix, x1))
                continue
            x1 = self.parse_int_with_suffix(m_bv, suffix)
            inrange = z3.And(z3.fpLT(operand, z3.FPVal(2.0 ** (NBITS - 2), F64)), z3.fpGEQ(operand, z3.FPVal(0.0, F64)))
            alts.append(z3.And(guard, inrange, z3.Not(z3.fpEQ(x1, x0))))
            cases.append((guard, m_bv, suffix, x1))
        return z3.Or(*alts), cases


def fp_to_float(v) -> float:
    bv = z3.simplify(z3.fpToIEEEBV(v))
    return struct.unpack(">d", bv.as_long().to_bytes(8, "big"))[0]


def eval_concrete(model: Model, n: int, unit: str):
    """model prediction for the string f"{n}{unit}": (x0, unparse text, x1)"""
    nb = z3.BitVecVal(n, NBITS)
    x0 = z3.simplify(model.parse_int_with_suffix(nb, unit))
    for guard, (kind, m_bv, operand), suffix in model.unparse(x0):
        if z3.is_true(z3.simplify(guard)):
            if kind == "r":
                xv = fp_to_float(z3.simplify(operand))
                x1 = z3.simplify(model.parse_float_with_suffix(operand, suffix))
                return fp_to_float(x0), f"{xv!r}{suffix}", fp_to_float(x1)
            m = z3.simplify(m_bv).as_signed_long()
            x1 = z3.simplify(model.parse_int_with_suffix(z3.BitVecVal(m, NBITS), suffix))
            return fp_to_float(x0), f"{m}{suffix}", fp_to_float(x1)
    raise Unsupported("no unparse case applies")


def real_concrete(n: int, unit: str):
    from halmos.config import ParseTimeout

    x0 = ParseTimeout.parse(f"{n}{unit}")
    u = ParseTimeout.unparse(x0)
    return x0, u, ParseTimeout.parse(u)


GRID = [0, 1, 2, 7, 9, 10, 57, 99, 100, 101, 250, 999, 1000, 1001, 1499, 1500, 1999, 2000, 2001, 12345, 59999, 60000,
        60001, 3599999, 3600000, 9999999, 10 ** 7]


def validate(model: Model, units=("ms", "s", "m", "h", "")) -> list[str]:
    """translation validation: the model's prediction equals the real functions on GRID x units"""
    bad = []
    for unit in units:
        for n in GRID:
            want = real_concrete(n, unit)
            got = eval_concrete(model, n, unit)
            if want != got:
                bad.append(f"{n}{unit}: real {want} model {got}")
    return bad
