"""C12: per-instance obligations on the calldata returned by the real `mk_calldata`.

An *instance* = (parameter list, naming, configuration).  The real halmos code produces (ByteVec, dyn_params); the
calldata is observed only through the read API the EVM instructions use (`ByteVec.get_word` = CALLDATALOAD,
`ByteVec.slice(..).unwrap()` = CALLDATACOPY) and decoded by lib/c12_abi (independent of halmos).
"""

from __future__ import annotations

import itertools
import traceback

import z3
from eth_hash.auto import keccak

from lib import c12_abi as A
from lib import portfolio

SOLVER_MS = 4000


# ---------------------------------------------------------------------------------------------------------------------
# configuration
# ---------------------------------------------------------------------------------------------------------------------
def build_args(cfg: dict):
    """Config through the real option parsers where the command-line syntax can express it"""
    from halmos.config import ConfigSource, ParseArrayLengths, ParseCSVInt, default_config

    over = {}
    over["default_array_lengths"] = ParseCSVInt.parse(",".join(str(x) for x in cfg["dal"]))
    over["default_bytes_lengths"] = ParseCSVInt.parse(",".join(str(x) for x in cfg["dbl"]))
    al = cfg.get("al") or {}
    if al:
        if all(n and not set(n) & set("=,{} ") for n in al):
            text = ",".join(f"{n}={{{','.join(str(x) for x in v)}}}" for n, v in al.items())
            parsed = ParseArrayLengths.parse(text)
            if {k: list(v) for k, v in parsed.items()} != {k: list(v) for k, v in al.items()}:
                # the parser itself lost/reordered something: keep what it produced (that is what a user gets) and let
                # the size_choices obligation speak
                pass
            over["array_lengths"] = parsed
        else:  # names the CLI cannot express (unnamed parameter): programmatic Config, as toml / tests do
            over["array_lengths"] = {k: list(v) for k, v in al.items()}
    else:
        over["array_lengths"] = {}
    over["loop"] = cfg.get("loop", 2)
    return default_config().with_overrides(ConfigSource.command_line, **over)


def cands_of(cfg):
    al = cfg.get("al") or {}

    def cands(name, kind):
        if name in al:
            return list(al[name])
        return list(cfg["dal"] if kind == "array" else cfg["dbl"])

    return cands


def expected_dyn(params, name_fn, cfg):
    cands = cands_of(cfg)
    return A.dyn_names(params, name_fn, lambda n, k: max(cands(n, k)))


def max_words(params, name_fn, cfg) -> int:
    """number of 32-byte words of the encoding with every dynamic node at its largest candidate (own computation)"""
    cands = cands_of(cfg)

    def sz(t, name, jpath):
        k = t[0]
        if k == "e":
            return 1
        if k == "b":
            return 1 + (max(cands(name, "bytes")) + 31) // 32
        if k == "tu":
            prefix = f"{name}." if name else ""
            return sum(sz(x, prefix + name_fn(jpath + (i,)), jpath + (i,)) + (1 if A.is_dynamic(x) else 0)
                       for i, x in enumerate(t[1]))
        n = t[2] if k == "fa" else max(cands(name, "array"))
        extra = 1 if A.is_dynamic(t[1]) else 0
        return (1 if k == "da" else 0) + sum(sz(t[1], f"{name}[{i}]", jpath) + extra for i in range(n))

    return sum(sz(p, name_fn((i,)), (i,)) + (1 if A.is_dynamic(p) else 0) for i, p in enumerate(params))


# ---------------------------------------------------------------------------------------------------------------------
# observing the ByteVec
# ---------------------------------------------------------------------------------------------------------------------
def to_term(x, nbytes):
    """whatever the read API returned -> z3 term of 8*nbytes bits"""
    if isinstance(x, int):
        return z3.BitVecVal(x, 8 * nbytes)
    if isinstance(x, (bytes, bytearray)):
        if len(x) != nbytes:
            raise ValueError(f"read returned {len(x)} bytes, expected {nbytes}")
        return z3.BitVecVal(int.from_bytes(x, "big"), 8 * nbytes)
    if hasattr(x, "as_z3"):
        x = x.as_z3()
    if z3.is_bv(x):
        if x.size() != 8 * nbytes:
            raise ValueError(f"read returned {x.size()} bits, expected {8 * nbytes}")
        return x
    raise TypeError(type(x))


class CdView:
    """memoised raw reads of one calldata object"""

    def __init__(self, cd):
        self.cd = cd
        self.size = len(cd)
        self._w = {}
        self._b = {}
        self._c = {}

    def raw_word(self, pos):
        w = self._w.get(pos)
        if w is None:
            w = self._w[pos] = to_term(self.cd.get_word(pos), 32)
        return w

    def consts(self, t):
        k = t.get_id()
        c = self._c.get(k)
        if c is None:
            c = self._c[k] = (t, portfolio.free_consts([t]))  # keep t alive: ids are only unique among live terms
        return c[1]

    def raw_blob(self, pos, n):
        k = (pos, n)
        b = self._b.get(k)
        if b is None:
            b = self._b[k] = to_term(self.cd.slice(pos, pos + n).unwrap(), n)
        return b


class HalmosReader(A.Reader):
    def __init__(self, view: CdView, subst):
        self.view, self.subst, self.size = view, subst, view.size
        self.by_id = {s.get_id(): (s, v) for s, v in subst}
        self._memo = {}

    def _apply(self, t):
        """t[S := candidates], simplified (only the size symbols that occur in t are substituted: z3.substitute is linear
        in the length of the substitution list)"""
        if z3.is_bv_value(t):
            return t
        if z3.is_const(t):
            sv = self.by_id.get(t.get_id())
            return sv[1] if sv is not None else t
        if self.by_id:
            sub = [self.by_id[c.get_id()] for c in self.view.consts(t) if c.get_id() in self.by_id]
            if sub:
                t = z3.substitute(t, *sub)
        return z3.simplify(t)

    def word(self, pos):
        r = self._memo.get(pos)
        if r is None:
            raw = self.view.raw_word(pos)
            t = self._apply(raw)
            r = self._memo[pos] = (raw, t.as_long() if z3.is_bv_value(t) else None, t)
        return r

    def blob(self, pos, n):
        return self._apply(self.view.raw_blob(pos, n))


# ---------------------------------------------------------------------------------------------------------------------
# syntactic shape of leaves
# ---------------------------------------------------------------------------------------------------------------------
def is_uconst(t) -> bool:
    return z3.is_const(t) and t.decl().kind() == z3.Z3_OP_UNINTERPRETED


_ATOMS = {}


def atoms_of(t):
    """memoised (z3 hash-conses terms: equal ids <=> same term while it is alive; the cache keeps it alive)"""
    k = t.get_id()
    r = _ATOMS.get(k)
    if r is None:
        if len(_ATOMS) > 200000:
            _ATOMS.clear()
        r = _ATOMS[k] = (t, _atoms_of(t))
    return r[1]


def _atoms_of(t):
    """term -> list of atoms from MSB to LSB: ("c", const, hi, lo) | ("v", value, width) | ("?", term)"""
    if is_uconst(t):
        return [("c", t, t.size() - 1, 0)]
    if z3.is_bv_value(t):
        return [("v", t.as_long(), t.size())]
    if z3.is_app(t):
        k = t.decl().kind()
        if k == z3.Z3_OP_EXTRACT and is_uconst(t.arg(0)):
            hi, lo = t.params()
            return [("c", t.arg(0), hi, lo)]
        if k == z3.Z3_OP_CONCAT:
            out = []
            for ch in t.children():
                out += _atoms_of(ch)
            return out
    return [("?", t)]


# ---------------------------------------------------------------------------------------------------------------------
# assignments of the size symbols
# ---------------------------------------------------------------------------------------------------------------------
MAX_ASSIGN = 16


def assignments(choice_lists):
    """all combinations when <= 16; otherwise a deterministic subset of 16: all-max, all-min, each parameter moved to
    each of its other candidates from all-max (in order), then a fixed-stride walk through the product"""
    total = 1
    for c in choice_lists:
        total *= len(c)
    if total <= MAX_ASSIGN:
        return [tuple(x) for x in itertools.product(*choice_lists)], total, True
    out, seen = [], set()

    def add(a):
        a = tuple(a)
        if a not in seen and len(out) < MAX_ASSIGN:
            seen.add(a)
            out.append(a)

    mx = [max(c) for c in choice_lists]
    add(mx)
    add([min(c) for c in choice_lists])
    for i, c in enumerate(choice_lists):
        for v in c:
            if v != mx[i]:
                add(mx[:i] + [v] + mx[i + 1:])
    k, stride = 0, max(1, total // 7) | 1
    while len(out) < MAX_ASSIGN and k < 4 * MAX_ASSIGN:
        idx = (k * stride + 3) % total
        a = []
        for c in reversed(choice_lists):
            a.append(c[idx % len(c)])
            idx //= len(c)
        add(list(reversed(a)))
        k += 1
    return out, total, False


# ---------------------------------------------------------------------------------------------------------------------
# the instance check
# ---------------------------------------------------------------------------------------------------------------------
class Events:
    """collects events; a *candidate* violation is only reported after `replay` reproduced it"""

    def __init__(self):
        self.ev = []
        self.stats = {}

    def ok(self, cls, key):
        self.ev.append(("ok", cls, key, True))

    def inconc(self, cls, key, why):
        self.ev.append(("inconc", cls, key, why))

    def cand(self, cls, key, what, witness):
        self.ev.append(("cand", cls, key, what, witness))

    def herr(self, msg):
        self.ev.append(("harness_error", msg))

    def stat(self, k, n=1):
        self.stats[k] = self.stats.get(k, 0) + n


def inst_key(params, naming, cfg):
    al = cfg.get("al") or {}
    als = ";".join(f"{k}={v}" for k, v in al.items())
    return f"{A.fun_sig('f', params)}|{naming}|dal={cfg['dal']}|dbl={cfg['dbl']}|al={{{als}}}|loop={cfg.get('loop', 2)}"


def class_key(params, cfg, what):
    """stable key of the failing input class: shape class + failure kind (for known_findings matching)"""
    return f"{what}:{A.fun_sig('f', params)}"


def make_calldata(params, naming, cfg, uid_stub=None):
    """call the real mk_calldata; returns (cd, dyn_params, args, sig, selector bytes)"""
    from halmos.calldata import FunctionInfo, mk_calldata, str_abi

    name_fn = A.NAMINGS[naming]
    item = A.abi_item("f", params, name_fn)
    sig = str_abi(item)
    sel = keccak(A.fun_sig("f", params).encode())[:4]
    args = build_args(cfg)
    fi = FunctionInfo("C12", "f", sig, sel.hex())
    cd, dyn = mk_calldata({sig: item}, fi, args)
    return cd, dyn, args, sig, sel


def solve(assertions, run_stats=None, timeout_ms=SOLVER_MS):
    s = z3.Solver()
    s.set("timeout", timeout_ms)
    for a in assertions:
        s.add(a)
    r = s.check()
    if r == z3.unknown:
        res = portfolio.solve(assertions, timeout=10, inproc_ms=10)
        return res.status, res.model, res
    if r == z3.sat:
        return "sat", s.model(), None
    return "unsat", None, None


def check_instance(params, naming, cfg, ev: Events, quant_budget=2, deep=True):
    """all C12 obligations for one instance; returns nothing, records into ev"""
    from halmos.__main__ import mk_solver
    from halmos.sevm import Path

    name_fn = A.NAMINGS[naming]
    ikey = inst_key(params, naming, cfg)
    try:
        cd, dyn, args, sig, sel = make_calldata(params, naming, cfg)
    except Exception as e:  # a supported type must be encoded
        ev.cand("supported-raises", class_key(params, cfg, "raises"),
                f"mk_calldata raised {type(e).__name__}: {e} on a supported signature", {"instance": ikey})
        return
    if sig != A.fun_sig("f", params):
        ev.inconc("sig", ikey, f"str_abi gives {sig!r}, own rendering {A.fun_sig('f', params)!r}")
        return

    # ---- dyn_params vs. the configuration -------------------------------------------------------------------------
    cands = cands_of(cfg)
    exp = expected_dyn(params, name_fn, cfg)
    got = [(d.name, "array" if type(d.typ).__name__ == "DynamicArrayType" else "bytes") for d in dyn]
    want = [(x.name, x.kind) for x in exp]
    if got != want:
        ev.cand("dyn-params", class_key(params, cfg, "dyn-list"),
                f"dyn_params are {got}, expected (by the --array-lengths naming rule) {want}", {"instance": ikey})
        return
    bad = None
    for d, x in zip(dyn, exp):
        if sorted(set(d.size_choices)) != sorted(set(cands(x.name, x.kind))):
            bad = (x.name, list(d.size_choices), cands(x.name, x.kind))
    if bad:
        ev.cand("dyn-params", class_key(params, cfg, "size-choices"),
                f"size_choices of {bad[0]!r} is {bad[1]}, configured candidates {bad[2]}", {"instance": ikey})
        return
    syms = [d.size_symbol for d in dyn]
    if not all(is_uconst(s) and s.size() == 256 for s in syms) or len({s.get_id() for s in syms}) != len(syms):
        ev.cand("dyn-params", class_key(params, cfg, "size-symbols"),
                f"size symbols are not pairwise distinct 256-bit constants: {syms}", {"instance": ikey})
        return
    ev.ok("dyn-params", ikey)
    ev.stat("dyn_params_total", len(dyn))

    # ---- path conditions after process_dyn_params: nothing but candidate registration -----------------------------
    path = Path(mk_solver(args))
    path.process_dyn_params(dyn)
    reg = path.concretization.candidates
    conds = [c for c in path.conditions if not z3.is_true(c)]
    sym_ids = {s.get_id() for s in syms}
    foreign = [c for c in conds if any(x.get_id() not in sym_ids for x in portfolio.free_consts([c]))]
    if foreign:
        ev.cand("path-conditions", class_key(params, cfg, "pc"),
                f"process_dyn_params added conditions over non-size symbols: {foreign[:3]}", {"instance": ikey})
        return
    miss = [str(s) for s, d in zip(syms, dyn) if sorted(set(reg.get(s, []))) != sorted(set(d.size_choices))]
    if miss:
        ev.cand("path-conditions", class_key(params, cfg, "candidates-registered"),
                f"candidates not registered for {miss}", {"instance": ikey})
        return
    if conds:  # conditions over size symbols only: every assignment must still be admitted
        ev.stat("pc_over_sizes", 1)
    ev.ok("path-conditions", ikey)

    view = CdView(cd)
    # ---- selector ----------------------------------------------------------------------------------------------------
    if view.size < 4 or not z3.is_bv_value(z3.simplify(view.raw_blob(0, 4))) or \
            z3.simplify(view.raw_blob(0, 4)).as_long() != int.from_bytes(sel, "big"):
        ev.cand("selector", class_key(params, cfg, "selector"), "first four bytes are not the selector",
                {"instance": ikey})
        return
    ev.ok("selector", ikey)
    if not params:
        return

    # ---- every size symbol occurs exactly once as a whole word ----------------------------------------------------
    lists = [list(d.size_choices) for d in dyn]
    assigns, total, complete = assignments(lists)
    if complete:
        ev.stat("assignments_total_in_complete_instances", total)
    ev.stat("assignments_checked", len(assigns))
    ev.stat("instances_complete" if complete else "instances_subset", 1)
    mx = tuple(max(c) for c in lists)
    if mx in assigns:  # all-max first: it is the layout reference
        assigns.remove(mx)
    assigns.insert(0, mx)

    tpath_to_idx = {x.path: i for i, x in enumerate(exp)}
    quant_left = quant_budget
    for a in assigns:
        akey = f"{ikey}|S={list(a)}"
        ckey_suffix = f"S={'max' if a == mx else 'nonmax'}"
        subst = [(s, z3.BitVecVal(v, 256)) for s, v in zip(syms, a)]
        rd = HalmosReader(view, subst)
        wit = {"instance": ikey, "params": repr(params), "naming": naming, "cfg": cfg, "assignment": list(a)}
        # admitted by the path conditions?
        if conds:
            st, _, _ = solve(list(conds) + [s == v for s, v in subst])
            if st != "sat":
                ev.cand("path-conditions", class_key(params, cfg, "pc-excludes"),
                        f"path conditions exclude the assignment {list(a)}", wit)
                continue
        # (a) layout
        try:
            dec = A.decode_params(rd, params, 4)
        except A.DecodeError as e:
            ev.cand("layout", class_key(params, cfg, e.kind), f"decoding with lengths {list(a)}: {e}", wit)
            continue
        ov = A.overlapping(dec.regions)
        if ov:
            ev.cand("layout", class_key(params, cfg, "overlap"), f"decoded regions overlap: {ov}", wit)
            continue
        if dec.end > view.size:
            ev.cand("layout", class_key(params, cfg, "out-of-range"), f"decoder read up to {dec.end} of {view.size}", wit)
            continue
        ev.ok("layout", akey)
        ev.stat("offset_words", len(dec.offsets))
        # (b) length words are the registered size symbols
        bad = None
        for (p, pos, raw, val, kind) in dec.lengths:
            i = tpath_to_idx.get(p)
            if i is None or not raw.eq(syms[i]) or val != a[i] or kind != exp[i].kind:
                bad = (p, pos, raw, val, i)
                break
        if bad:
            ev.cand("lengths", class_key(params, cfg, "length-word"),
                    f"length word at {bad[1]} (path {bad[0]}) is {bad[2]} = {bad[3]}; expected size symbol "
                    f"{syms[bad[4]] if bad[4] is not None else '?'} = {a[bad[4]] if bad[4] is not None else '?'}", wit)
            continue
        ev.ok("lengths", akey)
        ev.stat("length_words", len(dec.lengths))
        # (c)/(d) leaves
        check_leaves(params, cfg, dec, syms, ev, akey, wit, quant=quant_left > 0)
        quant_left -= 1
        # canonical instance at the largest candidates: byte-exact
        if a == mx:
            check_canonical(params, cfg, view, rd, dec, ev, akey, wit)
        if not deep:
            break


def targets_for(dec):
    """fresh admissible target per decoded leaf -> (terms, fresh constants)"""
    T, fresh = [], []
    for i, (p, typ, term) in enumerate(dec.leaves):
        if typ in ("bytes", "string"):
            c = z3.BitVec(f"T_{i}", term.size())
            T.append(c)
            fresh.append(c)
        else:
            t, cs = A.clean_target(typ, str(i))
            T.append(t)
            fresh += cs
    return T, fresh


def lo_hi(typ, width):
    """two admissible values of a leaf that differ in every significant bit"""
    if typ in ("bytes", "string"):
        return 0, (1 << width) - 1
    if typ.startswith("uint"):
        n = int(typ[4:] or 256)
        return 0, (1 << n) - 1
    if typ.startswith("int"):
        return 0, (1 << 256) - 1
    if typ == "address":
        return 0, (1 << 160) - 1
    if typ == "bool":
        return 0, 1
    n = int(typ[5:])
    return 0, ((1 << (8 * n)) - 1) << (256 - 8 * n)


def check_leaves(params, cfg, dec, syms, ev, akey, wit, quant):
    sym_ids = {s.get_id() for s in syms}
    # ---- syntactic: disjoint slices of distinct non-size constants ------------------------------------------------
    used = {}  # const id -> list of (lo, hi, leaf index)
    problems = []
    consts = {}
    for i, (p, typ, term) in enumerate(dec.leaves):
        for at in atoms_of(term):
            if at[0] == "c":
                _, c, hi, lo = at
                if c.get_id() in sym_ids:
                    problems.append(("size-symbol", i, i))
                consts[c.get_id()] = c
                for (lo2, hi2, j) in used.get(c.get_id(), []):
                    if lo <= hi2 and lo2 <= hi:
                        problems.append(("alias", j, i))
                used.setdefault(c.get_id(), []).append((lo, hi, i))
            elif at[0] == "v":
                problems.append(("concrete-bits", i, i))
            else:
                problems.append(("opaque", i, i))
    for (p, term) in dec.paddings:  # padding must not alias a leaf (it may be anything else)
        for at in atoms_of(term):
            if at[0] == "c":
                _, c, hi, lo = at
                for (lo2, hi2, j) in used.get(c.get_id(), []):
                    if lo <= hi2 and lo2 <= hi:
                        problems.append(("padding-alias", j, j))
    n_static_whole = sum(1 for (p, typ, term) in dec.leaves
                         if typ not in ("bytes", "string") and is_uconst(term) and term.size() == 256)
    ev.stat("leaves", len(dec.leaves))
    ev.stat("static_leaves_whole_256bit_constant", n_static_whole)
    ev.stat("static_leaves", sum(1 for (_, typ, _) in dec.leaves if typ not in ("bytes", "string")))
    pad_sym = sum(1 for (_, t) in dec.paddings if not z3.is_bv_value(t))
    ev.stat("paddings_symbolic", pad_sym)
    ev.stat("paddings_concrete", len(dec.paddings) - pad_sym)

    T, fresh = targets_for(dec)
    L = [t for (_, _, t) in dec.leaves]
    if not L:
        ev.ok("leaves", akey)
        return

    if problems:
        # decide with the solver whether an admissible argument tuple is excluded
        for kind, i, j in problems[:6]:
            ti, tj = dec.leaves[i][1], dec.leaves[j][1]
            lo_i, hi_i = lo_hi(ti, L[i].size())
            lo_j, hi_j = lo_hi(tj, L[j].size())
            tests = [(lo_i, hi_j), (hi_i, lo_j)] if i != j else [(lo_i, lo_i), (hi_i, hi_i)]
            for vi, vj in tests:
                q = [L[i] == z3.BitVecVal(vi, L[i].size()), L[j] == z3.BitVecVal(vj, L[j].size())]
                st, _, _ = solve(q)
                if st == "unsat":
                    w = dict(wit)
                    w.update({"leaf_i": [str(dec.leaves[i][0]), ti, str(L[i])[:200], hex(vi)],
                              "leaf_j": [str(dec.leaves[j][0]), tj, str(L[j])[:200], hex(vj)], "problem": kind,
                              "i": i, "j": j, "vi": vi, "vj": vj})
                    ev.cand("leaves", class_key(params, cfg, f"{kind}:{ti},{tj}"),
                            f"no instance: argument {dec.leaves[i][0]} ({ti}) = {hex(vi)[:20]} together with argument "
                            f"{dec.leaves[j][0]} ({tj}) = {hex(vj)[:20]} is unsatisfiable ({kind}: {str(L[i])[:60]} / "
                            f"{str(L[j])[:60]})", w)
                    return
        ev.inconc("leaves", akey, f"leaves are not disjoint slices of constants ({problems[:3]}) but no excluded "
                                  f"admissible tuple was found")
        return

    # ---- unification witness: H := w(T), then validity of L[H := w(T)] == T (quantifier-free) --------------------
    pieces = {}  # const id -> list of (hi, lo, term)
    for i, (p, typ, term) in enumerate(dec.leaves):
        pos = term.size()
        for (_, c, hi, lo) in atoms_of(term):
            w = hi - lo + 1
            pieces.setdefault(c.get_id(), []).append((hi, lo, z3.Extract(pos - 1, pos - w, T[i]) if w != term.size()
                                                      else T[i]))
            pos -= w
    subst, gaps = [], []
    for cid, ps in pieces.items():
        c = consts[cid]
        ps.sort(key=lambda x: -x[0])
        parts, cur = [], c.size() - 1
        for hi, lo, t in ps:
            if hi < cur:
                g = z3.BitVec(f"G_{cid}_{cur}", cur - hi)
                gaps.append(g)
                parts.append(g)
            parts.append(t)
            cur = lo - 1
        if cur >= 0:
            g = z3.BitVec(f"G_{cid}_{cur}", cur + 1)
            gaps.append(g)
            parts.append(g)
        subst.append((c, z3.Concat(*parts) if len(parts) > 1 else parts[0]))
    diffs = []
    sub_by_id = {c.get_id(): (c, w) for c, w in subst}
    leaf_consts = [[at[1].get_id() for at in atoms_of(t)] for t in L]
    for i, t in enumerate(L):
        t2 = z3.simplify(z3.substitute(t, *[sub_by_id[k] for k in dict.fromkeys(leaf_consts[i])]))
        if not t2.eq(z3.simplify(T[i])):
            diffs.append(t2 != T[i])
    if diffs:
        st, m, res = solve([z3.Or(*diffs)])
        if st == "sat":
            ev.herr(f"unification witness rejected by the solver although the syntactic check passed: {akey}")
            return
        if st != "unsat":
            ev.inconc("leaves", akey, f"validity after unification: {st}")
            return
    ev.ok("leaves", akey)

    # ---- reachability twin + concrete adversarial targets: L == pattern must be satisfiable ------------------------
    pat = []
    for i, (p, typ, term) in enumerate(dec.leaves):
        if typ in ("bytes", "string"):
            n = term.size() // 8
            v = int.from_bytes(bytes(((i * 37 + k * 11 + 1) % 255) + 1 for k in range(n)), "big")
        else:
            v = A.pattern_value(typ, i)
        pat.append(v)
    st, m, _ = solve([t == z3.BitVecVal(v, t.size()) for t, v in zip(L, pat)])
    if st == "sat":
        ev.ok("instance-sat", akey)
    elif st == "unsat":
        ev.herr(f"pattern tuple unsatisfiable although leaves are independent: {akey}")
    else:
        ev.inconc("instance-sat", akey, st)

    # ---- cross-check: the quantified statement itself, forall T exists H. L(H) == T -------------------------------
    if quant:
        # split constants that are read through Extract into independent pieces (sound: exists pieces => exists H)
        split = []
        H = []
        for cid, ps in pieces.items():
            c = consts[cid]
            if len(ps) == 1 and ps[0][0] == c.size() - 1 and ps[0][1] == 0:
                H.append(c)
                continue
            cuts = sorted({c.size()} | {hi + 1 for hi, _, _ in ps} | {lo for _, lo, _ in ps} | {0}, reverse=True)
            parts = [z3.BitVec(f"H_{cid}_{a}", a - b) for a, b in zip(cuts, cuts[1:])]
            H += parts
            split.append((c, z3.Concat(*parts) if len(parts) > 1 else parts[0]))
        split_by_id = {c.get_id(): (c, w) for c, w in split}
        Ls = []
        for i, t in enumerate(L):
            sub = [split_by_id[k] for k in dict.fromkeys(leaf_consts[i]) if k in split_by_id]
            Ls.append(z3.simplify(z3.substitute(t, *sub)) if sub else t)
        body = z3.And(*[a == b for a, b in zip(Ls, T)])
        s = z3.Solver()
        s.set("timeout", 3000)
        s.add(z3.ForAll(fresh, z3.Exists(H, body)) if H else body)
        r = s.check()
        if r == z3.sat:
            ev.ok("leaves-quantified", akey)
        elif r == z3.unsat:
            ev.herr(f"quantified query refuted although the unification succeeded: {akey}")
        else:
            ev.inconc("leaves-quantified", akey, "z3 unknown on forall-exists")


def check_canonical(params, cfg, view, rd, dec, ev, akey, wit):
    """at the largest candidates the generalized encoding must *be* the canonical (strict) encoding of its decoded
    value, up to the padding bytes of byte strings: same length, every word equal"""
    # canonical encoding of the decoded value, with the padding taken as zero
    canon = A.enc_seq(list(params), dec.value)
    n_words = (view.size - 4) // 32
    if (view.size - 4) % 32 or n_words != len(canon):
        # longer calldata is not a violation of the property (trailing bytes are ignored by decoders): report only if
        # shorter (cannot happen once the decoder succeeded) -- otherwise remember the fact
        ev.stat("noncanonical_length", 1)
        if view.size < 4 + 32 * len(canon):
            ev.cand("layout", class_key(params, cfg, "short"),
                    f"calldata has {view.size} bytes, canonical encoding needs {4 + 32 * len(canon)}", wit)
            return
    diffs = []
    for k, cw in enumerate(canon[:n_words]):
        pos = 4 + 32 * k
        _, _, hw = rd.word(pos)
        cw = z3.simplify(cw)
        if hw.eq(cw):
            continue
        diffs.append((pos, hw, cw))
    # words that differ may only differ in padding bytes of a byte-string body
    leaf_bodies = {}
    for (p, typ, term) in dec.leaves:
        if typ in ("bytes", "string"):
            leaf_bodies[p] = term.size() // 8
    body_by_start = {s: (e, p) for (s, e, what, p) in dec.regions if what == "body"}
    bad = []
    for pos, hw, cw in diffs:
        okpad = False
        for s, (e, p) in body_by_start.items():
            n = leaf_bodies[p]
            if s <= pos < e and pos + 32 > s + n:  # the word contains padding of this body
                keep = max(0, s + n - pos)  # leading content bytes in this word
                if keep == 0:
                    okpad = True
                else:
                    a = z3.simplify(z3.Extract(255, 256 - 8 * keep, hw))
                    b = z3.simplify(z3.Extract(255, 256 - 8 * keep, cw))
                    if a.eq(b):
                        okpad = True
                    else:
                        st, _, _ = solve([a != b])
                        okpad = st == "unsat"
        if not okpad:
            st, _, _ = solve([hw != cw])
            if st != "unsat":
                bad.append((pos, str(hw)[:80], str(cw)[:80]))
    if bad:
        ev.cand("canonical", class_key(params, cfg, "noncanonical-at-max"),
                f"at the largest candidates the calldata differs from the canonical encoding of its own decoded value "
                f"at {bad[:3]}", wit)
        return
    ev.ok("canonical", akey)


# ---------------------------------------------------------------------------------------------------------------------
# replay of a candidate violation: regenerate from scratch, re-decide, and reproduce on concrete bytes
# ---------------------------------------------------------------------------------------------------------------------
def concretize(view: CdView, valuation) -> bytes:
    """the calldata as python bytes under a valuation {const name -> int} (unlisted constants := pseudo-random)"""
    out = bytearray()
    pos = 0
    while pos < view.size:
        n = min(32, view.size - pos) if pos else min(4, view.size)
        t = view.raw_blob(pos, n)
        cs = portfolio.free_consts([t])
        sub = []
        for c in cs:
            nm = str(c)
            if nm not in valuation:
                h = int.from_bytes(keccak((nm + "|" + str(valuation.get("__salt", 0))).encode()) * 64, "big")
                valuation[nm] = h % (1 << c.size())
            sub.append((c, z3.BitVecVal(valuation[nm], c.size())))
        v = z3.simplify(z3.substitute(t, *sub)) if sub else z3.simplify(t)
        if not z3.is_bv_value(v):
            raise ValueError(f"cannot concretise {t}")
        out += v.as_long().to_bytes(n, "big")
        pos += n
    return bytes(out)


def replay_candidate(cand) -> tuple[bool, dict]:
    """-> (reproduced, extra witness).  Regenerates the calldata with the real code (fresh symbols), re-runs the
    instance check restricted to the failing assignment and demonstrates the failure on concrete bytes."""
    _, cls, key, what, wit = cand
    params = eval(wit["params"]) if "params" in wit else None  # noqa: S307 - our own repr of nested tuples
    if params is None:
        # instance-level candidates (dyn-params, path-conditions, selector, raises): re-run and compare the key
        return None, {}
    naming, cfg = wit["naming"], wit["cfg"]
    a = wit["assignment"]
    extra = {}
    try:
        cd, dyn, args, sig, sel = make_calldata(params, naming, cfg)
    except Exception as e:
        return False, {"replay": f"mk_calldata raised {e}"}
    view = CdView(cd)
    syms = [d.size_symbol for d in dyn]
    concrete = []
    for salt in (1, 2, 3):
        val = {"__salt": salt}
        for s, v in zip(syms, a):
            val[str(s)] = v
        try:
            data = concretize(view, val)
        except ValueError as e:
            return False, {"replay": str(e)}
        concrete.append(data)
    extra["calldata_hex"] = [d.hex() for d in concrete[:2]]
    if cls == "layout":
        # the concrete ABI decoding of the concrete bytes with these lengths must fail / overlap as well
        fails = 0
        for data in concrete:
            try:
                dec = A.decode_params(A.BytesReader(data), params, 4)
                if A.overlapping(dec.regions) or dec.end > len(data):
                    fails += 1
            except A.DecodeError as e:
                extra["concrete_decode_error"] = str(e)
                fails += 1
        return fails == len(concrete), extra
    if cls == "lengths":
        fails = 0
        for data in concrete:
            try:
                dec = A.decode_params(A.BytesReader(data), params, 4)
                got = [x[3] for x in dec.lengths]
                extra["concrete_lengths"] = got
                # compare with the assignment through the expected order
                exp = expected_dyn(params, A.NAMINGS[naming], cfg)
                idx = {x.path: i for i, x in enumerate(exp)}
                if any(idx.get(x[0]) is None or a[idx[x[0]]] != x[3] for x in dec.lengths):
                    fails += 1
            except A.DecodeError:
                fails += 1
        return fails == len(concrete), extra
    if cls == "leaves":
        i, j, vi, vj = wit["i"], wit["j"], wit["vi"], wit["vj"]
        # under every valuation of the constants the two decoded arguments are tied: they can never take (vi, vj)
        tied = 0
        seen = []
        for data in concrete:
            dec = A.decode_params(A.BytesReader(data), params, 4)
            li, lj = dec.leaves[i][2], dec.leaves[j][2]
            seen.append([hex(li)[:24], hex(lj)[:24]])
            if (li, lj) != (vi, vj):
                tied += 1
        extra["concrete_leaf_pairs"] = seen
        # and the solver verdict on the regenerated term
        rd = HalmosReader(view, [(s, z3.BitVecVal(v, 256)) for s, v in zip(syms, a)])
        dec = A.decode_params(rd, params, 4)
        Li, Lj = dec.leaves[i][2], dec.leaves[j][2]
        st, _, _ = solve([Li == z3.BitVecVal(vi, Li.size()), Lj == z3.BitVecVal(vj, Lj.size())])
        if i != j:
            # relation: equal on the shared bits in all valuations
            rel = all(x[0] == x[1] for x in seen) or st == "unsat"
        else:
            rel = st == "unsat"
        return st == "unsat" and rel and tied == len(concrete), extra
    if cls == "canonical":
        fails = 0
        for data in concrete:
            try:
                dec = A.decode_params(A.BytesReader(data), params, 4)
            except A.DecodeError:
                fails += 1
                continue
            # re-encode concretely (padding zero) and compare outside padding
            words = A.enc_seq(list(params), _concrete_value(dec.value))
            re = data[:4] + b"".join(z3.simplify(w).as_long().to_bytes(32, "big") for w in words)
            extra["reencoded_len"] = len(re)
            if len(re) != len(data) or _differs_outside_padding(re, data, dec):
                fails += 1
        return fails == len(concrete), extra
    return None, extra


def _concrete_value(v):
    if isinstance(v, list):
        return [_concrete_value(x) for x in v]
    if isinstance(v, tuple):
        n, t = v
        return (n, z3.BitVecVal(t, 8 * n) if n else None)
    return v


def _differs_outside_padding(a: bytes, b: bytes, dec) -> bool:
    pad = set()
    sizes = {p: None for (p, _, _) in dec.leaves}
    for (s, e, what, p) in dec.regions:
        if what == "body":
            n = next(x[3] for x in dec.lengths if x[0] == p)
            pad.update(range(s + n, e))
    return any(x != y for k, (x, y) in enumerate(zip(a, b)) if k not in pad)


def run_instance(item):
    """worker entry: item = (params, naming, cfg, quant_budget) -> (events, stats)"""
    params, naming, cfg, quant = item
    ev = Events()
    try:
        check_instance(params, naming, cfg, ev, quant_budget=quant)
    except Exception:
        ev.herr(f"exception in instance {inst_key(params, naming, cfg)}: {traceback.format_exc()[-600:]}")
    out, seen = [], set()
    for e in ev.ev:
        if e[0] != "cand":
            out.append(e)
            continue
        _, cls, key, what, wit = e
        if (cls, key) in seen:  # one report per failing input class and instance
            continue
        seen.add((cls, key))
        try:
            rep, extra = replay_candidate(e)
            if rep is None:  # instance-level: reproduce by a second, independent run of the whole instance
                ev2 = Events()
                check_instance(params, naming, cfg, ev2, quant_budget=0, deep=False)
                rep = any(x[0] == "cand" and x[1] == cls and x[2] == key for x in ev2.ev)
        except Exception:
            rep, extra = False, {"replay_exception": traceback.format_exc()[-400:]}
        w = dict(wit)
        w.update(extra)
        if rep:
            out.append(("violation", cls, key, what, w))
        else:
            out.append(("harness_error", f"candidate violation did not reproduce: {cls} {key}: {what[:200]} {extra}"))
    return out, ev.stats
