"""Obligations O1 (soundness) and O2 (coverage) between the paths reported by the real halmos SEVM
and the paths of the reference EVM (DESIGN §1).

O1: for every halmos path i and reference path j whose conditions overlap (sat), the end states agree for all
    inputs in the overlap (validity query).
O2: for every reference path j, no input satisfies A ∧ RC_j and none of the halmos path conditions
    (after eliminating definitional helper variables), unless halmos flagged the run incomplete.
"""

from __future__ import annotations

import re
from dataclasses import dataclass, field

import z3
from eth_hash.auto import keccak as _keccak

from lib import exact, portfolio

MAX_ETH = 1 << 128
HASH_MAX = (1 << 256) - (1 << 64)
_DEFVAR = re.compile(r"^(storage_.*_\d\d+|balance_[0-9a-zA-Z]+_\d\d+|call_exit_code_.*)$")
_EMPTY = re.compile(r"^(storage_.+|balance)_00$")


def _is_uconst(e):
    return z3.is_const(e) and e.decl().kind() == z3.Z3_OP_UNINTERPRETED


def _mentions(e, pred) -> bool:
    seen, stack = set(), [e]
    while stack:
        x = stack.pop()
        i = x.get_id()
        if i in seen:
            continue
        seen.add(i)
        if z3.is_app(x) and pred(x):
            return True
        stack.extend(x.children())
    return False


def _fname(e):
    return e.decl().name() if z3.is_app(e) else ""


@dataclass
class NormPC:
    core: list
    assumptions: list
    unknown: list = field(default_factory=list)


def normalize_pc(conds) -> NormPC:
    """eliminate helper variables; split modelling assumptions (A2/A4) from genuine constraints"""
    subs = []  # (var, definition)
    rest = []
    for c in conds:
        c2 = z3.substitute(c, *subs) if subs else c
        if z3.is_eq(c2):
            l, r = c2.arg(0), c2.arg(1)
            for v, d in ((l, r), (r, l)):
                if _is_uconst(v) and _DEFVAR.match(str(v)) and not _EMPTY.match(str(v)) and not _mentions(
                        d, lambda x, v=v: x.eq(v)):
                    subs.append((v, d))
                    break
            else:
                rest.append(c)
            continue
        rest.append(c)
    out_core, out_assume, unknown = [], [], []
    for c in rest:
        c = z3.substitute(c, *subs) if subs else c
        # empty arrays -> constant zero arrays
        empties = [x for x in portfolio.free_consts([c]) if z3.is_array(x) and _EMPTY.match(str(x))]
        if empties:
            c = z3.substitute(c, *[(x, z3.K(x.sort().domain(), z3.BitVecVal(0, x.sort().range().size())))
                                   for x in empties])
        c = z3.simplify(c)
        if z3.is_true(c):
            continue
        kind = classify(c)
        if kind == "assume":
            out_assume.append(c)
        elif kind == "core":
            out_core.append(c)
        else:
            unknown.append(c)
            out_core.append(c)
    return NormPC(out_core, out_assume, unknown)


def _is_sha3(e):
    return z3.is_app(e) and e.num_args() == 1 and re.match(r"^f_sha3_\d+$", _fname(e)) is not None


def classify(c) -> str:
    """'assume' for recognised A2/A4 instances, else 'core'"""
    k = c.decl().kind()
    # A4: balance <= 2^128
    if k == z3.Z3_OP_ULEQ:
        a, b = c.arg(0), c.arg(1)
        if z3.is_bv_value(b) and b.as_long() == MAX_ETH and _mentions(
                a, lambda x: z3.is_array(x) and _is_uconst(x) and str(x).startswith("balance")):
            return "assume"
        if z3.is_bv_value(b) and b.as_long() == HASH_MAX and _is_sha3(a):
            return "assume"
    # A2: hash != 0
    if k == z3.Z3_OP_NOT and z3.is_eq(c.arg(0)):
        l, r = c.arg(0).arg(0), c.arg(0).arg(1)
        for h, z in ((l, r), (r, l)):
            if _is_sha3(h) and z3.is_bv_value(z) and z.as_long() == 0:
                return "assume"
    if k == z3.Z3_OP_DISTINCT and c.num_args() == 2:
        l, r = c.arg(0), c.arg(1)
        for h, z in ((l, r), (r, l)):
            if _is_sha3(h) and z3.is_bv_value(z) and z.as_long() == 0:
                return "assume"
    if z3.is_eq(c):
        l, r = c.arg(0), c.arg(1)
        for x, y in ((l, r), (r, l)):
            n = _fname(x)
            # injectivity witnesses: f_inv_sha3_N(Extract(159,0,f_sha3_N(d))) == d ; f_inv_sha3_size(...) == N
            if n.startswith("f_inv_sha3_"):
                inner = x.arg(0)
                if inner.decl().kind() == z3.Z3_OP_EXTRACT and inner.params() == [159, 0] and (
                        _is_sha3(inner.arg(0)) or _fname(inner.arg(0)) == "f_sha3_0" or True):
                    h = inner.arg(0)
                    if n == "f_inv_sha3_size":
                        if z3.is_bv_value(y) and (
                                (_is_sha3(h) and y.as_long() == h.arg(0).size()) or (not _is_sha3(h) and y.as_long() == 0)):
                            return "assume"
                    elif _is_sha3(h) and y.eq(h.arg(0)):
                        return "assume"
            # true keccak facts: f_sha3_N(const) == keccak(const)
            if _is_sha3(x) and z3.is_bv_value(x.arg(0)) and z3.is_bv_value(y):
                data = x.arg(0).as_long().to_bytes(x.arg(0).size() // 8, "big")
                if int.from_bytes(_keccak(data), "big") == y.as_long():
                    return "assume"
    return "core"


# ---------------------------------------------------------------------------
HALMOS_KIND = {
    "NoneType": "success", "Revert": "revert", "InvalidOpcode": "exceptional", "InvalidJumpDestError": "exceptional",
    "OutOfGasError": "exceptional", "StackUnderflowError": "exceptional", "WriteInStaticContext": "exceptional",
    "OutOfBoundsRead": "exceptional", "MessageDepthLimitError": "exceptional", "AddressCollision": "exceptional",
    "InsufficientFunds": "exceptional", "FailCheatcode": "fail",
}


def halmos_kind(rec) -> str:
    n = type(rec.error).__name__
    if n in HALMOS_KIND:
        return HALMOS_KIND[n]
    return "stuck"  # HalmosException family: flagged incomplete


def ref_kind(end) -> str:
    if end.kind in ("return", "stop"):
        return "success"
    if end.kind == "revert":
        return "revert"
    if end.kind.startswith("exceptional"):
        return "exceptional"
    if end.kind == "fail":  # a failed vm.assert* / failure flag (lib/foundry_spec.py)
        return "fail"
    return "unsupported"


@dataclass
class Obl:
    key: str
    kind: str  # 'O1' | 'O2' | 'O1-kind'
    assertions: list
    info: dict


def data_equal(hbytes: list, rbytes: list):
    """z3 Bool: byte-wise equality (lengths are concrete)"""
    if len(hbytes) != len(rbytes):
        return z3.BoolVal(False)
    if not hbytes:
        return z3.BoolVal(True)
    return z3.And(*[h == r for h, r in zip(hbytes, rbytes)]) if len(hbytes) > 1 else hbytes[0] == rbytes[0]


def obligations(hrecs, hdata, rends, extra_assume=(), observers=None, name="prog"):
    """
    hrecs: driver.PathRec list; hdata[i]: list of 8-bit terms of the output data of path i (or None if stuck)
    rends: refevm.End list
    observers: optional list of (label, fn_h(rec)->term, fn_r(end)->term) extra end-state observations
    Yields Obl objects.  Returns also summary info through generator .info
    """
    norm = [normalize_pc(r.conds) for r in hrecs]
    hk = [halmos_kind(r) for r in hrecs]
    flagged = any(k == "stuck" for k in hk)
    obls = []
    A_h = [exact.inline(a) for n in norm for a in n.assumptions]
    for j, e in enumerate(rends):
        rk = ref_kind(e)
        RC = list(e.rc)
        A = list(e.assumptions) + list(extra_assume)
        # ---- O2: coverage ----
        if rk != "unsupported":
            cores = []
            for i, n in enumerate(norm):
                if hk[i] == "stuck":
                    continue
                cores.append(z3.And(*[exact.inline(c) for c in n.core]) if n.core else z3.BoolVal(True))
            none_of = z3.Not(z3.Or(*cores)) if cores else z3.BoolVal(True)
            obls.append(Obl(f"{name}/O2/r{j}", "O2", RC + A + A_h + [none_of],
                            dict(ref_path=j, ref_kind=e.kind, flagged=flagged)))
        # ---- O1: soundness on every overlapping pair ----
        for i, r in enumerate(hrecs):
            if hk[i] == "stuck" or rk == "unsupported":
                continue
            PC = [exact.inline(c) for c in r.conds]
            base = PC + RC + A
            if hk[i] != rk:
                # kinds differ: the overlap must be empty
                obls.append(Obl(f"{name}/O1kind/h{i}r{j}", "O1", base,
                                dict(h=i, r=j, what=f"halmos ends {hk[i]} ({type(r.error).__name__}), EVM ends {e.kind}")))
                continue
            if hk[i] == "fail":
                continue
            if hk[i] in ("success", "revert"):
                eq = data_equal([exact.inline(b) for b in hdata[i]], e.data)
                if z3.is_false(eq):
                    obls.append(Obl(f"{name}/O1len/h{i}r{j}", "O1", base,
                                    dict(h=i, r=j, what=f"output length {len(hdata[i])} vs EVM {len(e.data)}")))
                else:
                    obls.append(Obl(f"{name}/O1data/h{i}r{j}", "O1", base + [z3.Not(eq)],
                                    dict(h=i, r=j, what="output data differ")))
            for (label, fh, fr) in observers or []:
                try:
                    th, tr = fh(r), fr(e)
                except Exception as ex:  # observer not applicable to this pair
                    continue
                if th is None or tr is None:
                    continue
                if th.size() != tr.size():
                    obls.append(Obl(f"{name}/O1{label}shape/h{i}r{j}", "O1", base,
                                    dict(h=i, r=j, what=f"{label} structure differs")))
                    continue
                obls.append(Obl(f"{name}/O1{label}/h{i}r{j}", "O1", base + [exact.inline(th) != tr],
                                dict(h=i, r=j, what=f"{label} differ")))
    return obls, dict(halmos_kinds=hk, ref_kinds=[e.kind for e in rends], flagged=flagged,
                      unknown_shapes=[str(u)[:120] for n in norm for u in n.unknown])
