"""Runs lists of Prog through check_program and concludes O1/O2 obligations with replay."""

from __future__ import annotations

import time

import z3

from lib import bisim, exact, portfolio, progs, refevm


def _subst_model(exprs, model: dict, names):
    subs = []
    for n in names:
        width = 160 if n in ("msg_sender", "tx_origin") else 256
        subs.append((z3.BitVec(n, width), z3.BitVecVal(int(model.get(n, 0)), width)))
    return [interp_keccak(z3.simplify(z3.substitute(e, *subs))) for e in exprs]


def interp_keccak(e):
    """standard interpretation of keccak: f_sha3_N applied to a concrete value is the real hash (bottom-up)"""
    from eth_hash.auto import keccak as _k

    for _ in range(8):
        pairs, seen, stack = [], set(), [e]
        while stack:
            t = stack.pop()
            i = t.get_id()
            if i in seen:
                continue
            seen.add(i)
            if z3.is_app(t):
                nm = t.decl().name()
                if nm.startswith("f_sha3_") and t.num_args() == 1 and z3.is_bv_value(t.arg(0)):
                    a = t.arg(0)
                    pairs.append((t, z3.BitVecVal(int.from_bytes(_k(a.as_long().to_bytes(a.size() // 8, "big")), "big"), 256)))
                stack.extend(t.children())
        if not pairs:
            return e
        e = z3.simplify(z3.substitute(e, *pairs))
    return e


def replay_o1(c, model):
    """-> (confirmed: bool|None, text)"""
    p, o, names = c["prog"], c["obl"], c["names"]
    rec, hd = c["recs"][o.info["h"]], c["hdata"][o.info["h"]]
    full = progs.complete_model(model, names)
    pc = _subst_model([exact.inline(x) for x in rec.conds], full, names)
    s = z3.Solver()
    s.set("timeout", 20000)
    for x in pc:
        s.add(x)
    if s.check() != z3.sat:
        return None, "witness does not satisfy the halmos path condition on replay"
    m = s.model()
    inp = progs.Inputs(p, concrete=full)
    try:
        oracle = progs.created_addresses(rec)
    except Exception:
        oracle = []
    try:
        ev, ends = progs.run_ref(p, inp, oracle=oracle)
    except refevm.Unsupported as e:
        return None, f"reference unsupported on witness: {e}"
    if len(ends) != 1 or bisim.ref_kind(ends[0]) == "unsupported":
        return None, f"reference not deterministic/unsupported on witness ({[e.kind for e in ends]})"
    e = ends[0]
    hk, rk = bisim.halmos_kind(rec), bisim.ref_kind(e)
    if hk != rk:
        return True, f"inputs {fmt(full)} satisfy halmos path {o.info['h']} (ends {hk}) but the EVM ends {e.kind}"
    if "O1data" in o.key or "O1len" in o.key:
        if hd is None:
            return None, "no data"
        hterms = _subst_model([exact.inline(b) for b in hd], full, names)
        if any(_has_uf(t) for t in hterms):
            return None, "output depends on an uninterpreted function (hash/gas/exp abstraction) on the witness"
        hvals = [m.eval(b, model_completion=True) for b in hterms]
        hvals = [v.as_long() if z3.is_bv_value(v) else None for v in hvals]
        rvals = [refevm.conc(b) for b in e.data]
        if None in hvals or None in rvals:
            return None, "data not concrete on witness (uninterpreted function)"
        if hvals != rvals:
            return True, (f"inputs {fmt(full)} satisfy halmos path {o.info['h']}: halmos output {bytes(hvals).hex()[:160]} "
                          f"but EVM output {bytes(rvals).hex()[:160]}")
        return False, "outputs agree on witness"
    obs = c.get("observers_eval")
    if obs is not None:
        return obs(c, model, m, e, full)
    return None, "observer replay not available"


def _has_uf(t) -> bool:
    seen, stack = set(), [t]
    while stack:
        x = stack.pop()
        i = x.get_id()
        if i in seen:
            continue
        seen.add(i)
        if z3.is_app(x) and x.decl().kind() == z3.Z3_OP_UNINTERPRETED and x.num_args() > 0:
            return True
        stack.extend(x.children())
    return False


def replay_o2(c, model):
    p, o, names = c["prog"], c["obl"], c["names"]
    full = progs.complete_model(model, names)
    inp = progs.Inputs(p, concrete=full)
    try:
        ev, ends = progs.run_ref(p, inp, oracle=c.get("oracle"))
    except refevm.Unsupported as e:
        return None, f"reference unsupported on witness: {e}"
    if len(ends) != 1 or bisim.ref_kind(ends[0]) == "unsupported":
        return None, f"reference unsupported on witness ({[e.kind for e in ends]})"
    # the reference's own assumptions (A4) must hold on the witness
    for a in ends[0].assumptions:
        if z3.is_false(z3.simplify(a)):
            return None, "witness violates a modelling assumption"
    covered = []
    for i, rec in enumerate(c["recs"]):
        if bisim.halmos_kind(rec) == "stuck":
            continue
        n = bisim.normalize_pc(rec.conds)
        core = _subst_model([exact.inline(x) for x in n.core + n.assumptions], full, names)
        s = z3.Solver()
        s.set("timeout", 20000)
        for x in core:
            s.add(x)
        r = s.check()
        if r != z3.unsat:
            covered.append((i, str(r)))
    if covered:
        return None, f"witness is covered by halmos path(s) {covered} on replay"
    return True, (f"inputs {fmt(full)} reach the EVM end '{ends[0].kind}' but satisfy none of the "
                  f"{len(c['recs'])} path conditions halmos reported, and the run was not flagged incomplete")


def fmt(m):
    return "{" + ", ".join(f"{k}={v:#x}" for k, v in m.items()) + "}"


_PAR = {}


def _par_worker(chunk_id):
    from lib import common

    a = _PAR
    rec = common.Recorder(a["run"])
    stats = run_programs(rec, a["chunks"][chunk_id], want=a["want"], observers=a["observers"], jobs=a["jobs"],
                         cap=a["cap"], cls_prefix=a["cls_prefix"], nproc=1, post=a.get("post"))
    return rec.events, stats


def run_programs(run, plist, want=("O1", "O2"), observers=None, jobs=None, cap=None, cls_prefix="", nproc=None, post=None):
    """nproc > 1: programs are split round-robin over forked worker processes (each runs both engines in-process and
    owns a small solver pool); their recorded events are replayed into `run` in the parent."""
    from lib import common

    nproc = nproc if nproc is not None else max(1, min(len(plist) // 4, getattr(run.args, "jobs", 8) // 2))
    if nproc > 1:
        chunks = [plist[i::nproc] for i in range(nproc)]
        _PAR.update(run=run, chunks=chunks, want=want, observers=observers, jobs=2, cap=cap, cls_prefix=cls_prefix, post=post)
        total = {}
        for res in common.parallel_map(_par_worker, list(range(nproc)), nproc):
            if res and res[0] == "error":
                run.harness_error("worker crashed: " + res[1].strip().splitlines()[-1])
                continue
            events, stats = res
            common.replay_events(run, events)
            for k, v in stats.items():
                total[k] = total.get(k, 0) + v
        return total
    pool = portfolio.Pool(jobs=jobs or max(2, run.args.jobs // 3), timeout=cap or run.bounds.get("solver_cap_s", 20),
                          inproc_ms=200)
    ctx, stats = {}, {}
    for p in plist:
        t0 = time.time()
        local = {}
        try:
            inp = progs.Inputs(p)
            sevm, recs, hdata = progs.run_halmos(p, inp)
        except progs.HarnessTimeout:
            run.inconc(f"{cls_prefix}{p.name.split('#')[0]}/run", p.name, "halmos run exceeded the harness time limit")
            continue
        except Exception as e:
            # the engine itself raised out of SEVM.run (it is supposed to turn errors into path outcomes)
            import traceback

            run.harness_error(f"engine raised on {p.name}: {type(e).__name__}: {e} | "
                              + " <- ".join(x.strip()[:90] for x in traceback.format_exc().strip().splitlines()[-6:-1:2]))
            continue
        oracle = []
        for r in recs:
            try:
                ca = progs.created_addresses(r)
            except Exception:
                ca = []
            if len(ca) > len(oracle):
                oracle = ca
        try:
            ev, ends = progs.run_ref(p, inp, oracle=oracle)
        except refevm.Unsupported as e:
            run.inconc(f"{cls_prefix}{p.name.split('#')[0]}/ref", p.name, f"reference: {e}")
            continue
        try:
            obls, info = bisim.obligations(recs, hdata, ends, observers=observers, name=p.name)
        except Exception as e:  # a harness problem with one program must not lose the others
            import traceback

            run.harness_error(f"obligation construction failed for {p.name}: {type(e).__name__}: {e} | "
                              + traceback.format_exc().strip().splitlines()[-3][:160])
            continue
        info["bounded_loops"] = len(sevm.logs.bounded_loops)
        if post is not None:
            post(run, p, info, recs, ends)
        stats["programs"] = stats.get("programs", 0) + 1
        stats["multi_path"] = stats.get("multi_path", 0) + (1 if len(recs) > 1 else 0)
        stats["halmos_paths"] = stats.get("halmos_paths", 0) + len(recs)
        stats["ref_paths"] = stats.get("ref_paths", 0) + len(ends)
        stats["with_abstraction"] = stats.get("with_abstraction", 0) + (
            1 if any(exact.has_abstraction(list(r.conds)) for r in recs) else 0)
        if info["unknown_shapes"]:
            stats["unknown_shapes"] = stats.get("unknown_shapes", 0) + 1
        run.sample({"program": p.name, "code": {hex(a): c.hex()[:200] for a, c in p.contracts.items()},
                    "halmos_paths": len(recs), "ref_paths": len(ends), "kinds": info["halmos_kinds"]}, limit=8)
        names = inp.names()
        consts = [z3.BitVec(n, 160 if n in ("msg_sender", "tx_origin") else 256) for n in names]
        for o in obls:
            if o.kind not in want:
                continue
            ctx[o.key] = dict(prog=p, obl=o, info=info, names=names, recs=recs, hdata=hdata, oracle=oracle,
                              observers_eval=None)
            pool.submit(o.key, o.assertions, model_consts=consts)
        # drain decided ones to keep memory flat
        while pool.done:
            k, r = pool.done.pop()
            conclude(run, k, r, ctx.pop(k), cls_prefix)
    for k, r in pool.results():
        conclude(run, k, r, ctx.pop(k), cls_prefix)
    pool.close()
    return stats


def conclude(run, key, r, c, cls_prefix=""):
    run.note_solver(r)
    o, p = c["obl"], c["prog"]
    fam = p.name.split("#")[0]
    cls_prefix = cls_prefix or (f"{p.script_name}/" if getattr(p, "script_name", "") else "")
    cls = f"{cls_prefix}{fam}/{o.kind}"
    if r.status == "unsat":
        run.ok(cls, key)
        return
    if r.status == "sat":
        if o.kind == "O2" and (c["info"]["flagged"] or c["info"]["bounded_loops"]):
            # exploration was flagged incomplete (C10's business): not a C02 violation
            run.ok(cls + "/flagged", key, nontrivial=False)
            return
        try:
            confirmed, text = (replay_o1 if o.kind == "O1" else replay_o2)(c, r.model)
        except Exception as e:  # replay machinery failure is never a violation
            confirmed, text = None, f"replay raised {type(e).__name__}: {e}"
        if confirmed:
            vkey = f"{fam}/{o.kind}/{violation_class(o, p)}"
            run.violation(cls, vkey, f"[{p.name}] {o.info.get('what', 'coverage')}: {text}",
                          {"program": p.name, "code": {hex(a): code.hex() for a, code in p.contracts.items()},
                           "options": p.options, "model": {k: hex(v) if isinstance(v, int) else v for k, v in r.model.items()},
                           "obligation": key})
        else:
            run.inconc(cls, key, f"sat from {r.backend} but not confirmed by replay: {text}")
        return
    if r.status == "disagree":
        run.harness_error(f"solver disagreement on {key}: {r.answers}")
        return
    run.inconc(cls, key, f"all back ends unknown within cap: {r.answers}")


def violation_class(o, p):
    tag = getattr(p, "vtag", None)
    if tag:
        return tag
    return "+".join(sorted(p.features)[:6]) or "generic"
