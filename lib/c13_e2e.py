"""C13 part 5: end-to-end verdicts of the real run_contract (real solver) on hand-assembled tests that call vm.assert*.

Each test function `check_k(uint256,uint256)` computes operand words from its two arguments with a tiny expression
language that has two interpreters (EVM items / z3 term), calls vm.assertXX on the ABI encoding produced by the
independent encoder of lib/c13_abi, and must be reported FAIL iff  not(relation)  is satisfiable (lib/portfolio).
"""

from __future__ import annotations

import z3

from lib import c13_abi as abi
from lib import e2e, portfolio
from lib.c13_sigs import parse

bv = abi.bv
A0, A1 = z3.BitVec("arg0", 256), z3.BitVec("arg1", 256)
SIGN = 1 << 255


# expression language: ("arg", i) | ("const", v) | ("and", e, v) | ("or", e, v) | ("add", e, v)
def to_items(e) -> list:
    k = e[0]
    if k == "arg":
        return e2e.arg(e[1])
    if k == "const":
        return [("PUSH", e[1])] if e[1] else ["PUSH0"]
    op = {"and": "AND", "or": "OR", "add": "ADD"}[k]
    return to_items(e[1]) + [("PUSH", e[2]), op]


def to_z3(e):
    k = e[0]
    if k == "arg":
        return (A0, A1)[e[1]]
    if k == "const":
        return bv(e[1])
    x = to_z3(e[1])
    return {"and": x & bv(e[2]), "or": x | bv(e[2]), "add": x + bv(e[2])}[k]


a0, a1 = ("arg", 0), ("arg", 1)


def C(v):
    return ("const", v)


# (signature, operand expressions [for arrays: lists of expressions], nesting)
CASES = [
    ("assertLt(uint256,uint256)", [("and", a0, 0xFF), C(0xFF)], 1),  # fails for 0xff
    ("assertLe(uint256,uint256)", [("and", a0, 0xFF), C(0xFF)], 1),  # never fails
    ("assertLt(uint256,uint256)", [("or", a0, SIGN), C(0)], 1),  # unsigned: always fails
    ("assertLt(int256,int256)", [("or", a0, SIGN), C(0)], 1),  # signed: never fails
    ("assertGt(int256,int256)", [C(0), ("or", a0, SIGN)], 1),  # never fails
    ("assertGt(uint256,uint256)", [C(0), ("or", a0, SIGN)], 1),  # always fails
    ("assertGe(int256,int256)", [("and", a0, SIGN - 1), C((1 << 256) - 1)], 1),  # x >= -1 for x >= 0: never fails
    ("assertGe(uint256,uint256)", [("and", a0, SIGN - 1), C((1 << 256) - 1)], 1),  # always fails
    ("assertLe(int256,int256)", [a0, a1], 1),
    ("assertEq(uint256,uint256)", [("and", a0, 1), ("and", a0, 1)], 1),  # never fails
    ("assertEq(uint256,uint256,string)", [a0, a1], 1),
    ("assertNotEq(uint256,uint256)", [("or", a0, 1), ("and", a1, (1 << 256) - 2)], 1),  # odd vs even: never fails
    ("assertNotEq(bytes32,bytes32)", [a0, a1], 1),
    ("assertTrue(bool)", [("and", a0, 1)], 1),
    ("assertTrue(bool)", [C(1)], 1),
    ("assertFalse(bool)", [("and", a0, 1)], 1),
    ("assertFalse(bool,string)", [C(0)], 1),
    ("assertEq(bool,bool)", [("and", a0, 1), ("and", a1, 1)], 1),
    ("assertEq(address,address)", [("and", a0, 0xFF), ("and", a0, 0xFF)], 1),
    ("assertEq(uint256[],uint256[])", [[a0], [a0, a1]], 1),  # prefix: always fails
    ("assertNotEq(uint256[],uint256[])", [[a0], [a0, a1]], 1),  # never fails
    ("assertEq(uint256[],uint256[])", [[a0, a1], [a0, a1]], 1),  # never fails
    ("assertEq(int256[],int256[],string)", [[a0, C(3)], [C(3), a1]], 1),
    ("assertNotEq(bytes32[],bytes32[])", [[], []], 1),  # always fails
    # nested: the test calls itself (depth 2) and the inner frame calls vm
    ("assertLt(int256,int256)", [a0, a1], 2),
    ("assertGe(uint256,uint256)", [("or", a0, 1), C(1)], 2),  # never fails
    ("assertEq(uint256[],uint256[])", [[a0, a1], [a0]], 2),  # always fails
]


def _values(sem, ops_e):
    """z3 values and per-word EVM items of the encoded argument tuple"""
    ops = []
    for oe in ops_e:
        ops.append([to_z3(x) for x in oe] if isinstance(oe, list) else to_z3(oe))
    values = list(ops)
    if sem.has_msg:
        values.append([bv(c, 8) for c in b"err"])
    words = abi.enc_tuple(sem.param_types, values)
    # the same tuple once more with placeholder constants whose positions tell which words are the operand words
    flat = []
    for oe in ops_e:
        flat += oe if isinstance(oe, list) else [oe]
    marks = [z3.BitVec(f"__slot{i}", 256) for i in range(len(flat))]
    it = iter(marks)
    mvalues = [[next(it) for _ in oe] if isinstance(oe, list) else next(it) for oe in ops_e]
    if sem.has_msg:
        mvalues.append([bv(c, 8) for c in b"err"])
    mwords = abi.enc_tuple(sem.param_types, mvalues)
    items = []
    for w, mw in zip(words, mwords):
        mw = z3.simplify(mw)
        if z3.is_bv_value(mw):
            items.append([("PUSH", mw.as_long())] if mw.as_long() else ["PUSH0"])
        else:
            idx = [i for i, m in enumerate(marks) if m.eq(mw)]
            if len(idx) != 1:
                raise ValueError("operand word not recognised")
            items.append(to_items(flat[idx[0]]))
    return ops, items


def build(cases=None):
    """-> (Spec, [(test sig, sem, z3 relation)])"""
    cases = CASES if cases is None else cases
    fns, meta = [], []
    for k, (sig, ops_e, nest) in enumerate(cases):
        sem = parse(sig)
        ops, word_items = _values(sem, ops_e)
        rel = abi.relation(sem, ops)
        call = e2e.call_cheat(sig, word_items) + ["POP"]
        name = f"check_{k:02d}(uint256,uint256)"
        if nest == 1:
            fns.append((name, call))
        else:
            inner = f"inner_{k:02d}(uint256,uint256)"
            sel = int.from_bytes(e2e.selector(inner), "big")
            outer = [("PUSH", sel << 224, 32), ("PUSH", 0x80), "MSTORE"] + e2e.arg(0) + [("PUSH", 0x84), "MSTORE"] + \
                e2e.arg(1) + [("PUSH", 0xA4), "MSTORE", "PUSH0", "PUSH0", ("PUSH", 0x44), ("PUSH", 0x80), "PUSH0", "ADDRESS",
                              "GAS", "CALL", "POP"]
            fns.append((name, outer))
            fns.append((inner, call))
        meta.append((name, sem, rel, nest))
    return e2e.Spec("C13Asserts", fns), meta


def run_cases(rc, timeout: float, cases=None) -> dict:
    spec, meta = build(cases)
    out = e2e.run(spec, funsigs=[m[0] for m in meta])
    stats = {"tests": len(meta), "fail_verdicts": 0, "pass_verdicts": 0}
    if out.exception is not None:
        rc.harness_error(f"e2e: run_contract raised {type(out.exception).__name__}: {out.exception}")
        return stats
    for name, sem, rel, nest in meta:
        key = f"{name}:{sem.sig}:nest={nest}"
        res = portfolio.solve([z3.Not(rel)], timeout=timeout, model_consts=[A0, A1])
        rc.note_solver(res)
        r = out.result(name)
        if r is None or res.status not in ("sat", "unsat"):
            rc.inconc("e2e-verdict", key, f"no result / solver {res.status}")
            continue
        expect_fail = res.status == "sat"
        if r.exitcode not in (0, 1):
            rc.inconc("e2e-verdict", key, f"halmos exit code {r.exitcode} ({out.line(name.split('(')[0])[:80]})")
            continue
        got_fail = r.exitcode == 1
        stats["fail_verdicts" if got_fail else "pass_verdicts"] += 1
        if got_fail == expect_fail:
            rc.ok("e2e-verdict", key)
            continue
        # replay: the verdict itself is the concrete observation; re-run this single test once more to confirm it
        spec1, meta1 = build([c for c, m in zip(CASES if cases is None else cases, meta) if m[0] == name])
        out1 = e2e.run(spec1, funsigs=[meta1[0][0]])
        r1 = out1.result("check_00")
        if r1 is not None and r1.exitcode == r.exitcode:
            rc.violation("e2e-verdict", f"{sem.sig}:nest={nest}:ops={_ops_txt(cases, name, meta)}",
                         f"vm.{sem.sig}: halmos verdict {'FAIL' if got_fail else 'PASS'} but not(relation) is "
                         f"{'satisfiable' if expect_fail else 'unsatisfiable'}",
                         {"sig": sem.sig, "nest": nest, "relation": str(z3.simplify(rel))[:300],
                          "witness_of_not_relation": {k: hex(v) for k, v in res.model.items() if isinstance(v, int)},
                          "halmos_exitcode": r.exitcode, "runtime": spec1.runtime().hex()})
        else:
            rc.inconc("e2e-verdict", key, "verdict did not reproduce in a single-test re-run")
    return stats


def _ops_txt(cases, name, meta):
    cs = CASES if cases is None else cases
    for c, m in zip(cs, meta):
        if m[0] == name:
            return str(c[1]).replace(" ", "")[:120]
    return "?"
