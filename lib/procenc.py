"""z3 encoding of the thread CFGs extracted by lib/procbmc.py: functional unrolling over a symbolic schedule.

Free variables: per step k the scheduled thread/event `tid_k` and the outcome index `out_k`, plus the per-job
environment constants (hasto_j: job has a timeout, pfail_j: Popen raises, igterm_j: process ignores SIGTERM).
tid values: 0..T-1 threads, T+j "process j exits by itself", T+J stutter (only as a suffix of the schedule).
z3 builds the unrolling; `Enc.solve` lets z3 try briefly in-process and hands the query to yices-smt2 (measured here:
z3 4.12.6 `unknown` after 120 s where yices answers `unsat` in 1-4 s).  Two partial-order reductions were tried and
dropped (both made the SAT problem slower).  A solver answer becomes a witness through `Enc.witness`, a concrete
interpreter of the same CFG that re-checks every guard.
"""

from __future__ import annotations

import os
import shutil
import subprocess
import tempfile
import time

import z3

from lib.procbmc import END, IDLE, P_RUN, Model, sort_of


class Enc:
    def __init__(self, model: Model, steps: int):
        self.m, self.N = model, steps
        self.T, self.J = len(model.threads), model.J
        self.STUTTER = self.T + self.J
        self.consts = {c: z3.Bool(c) for c in model.consts}
        self.tid = [z3.BitVec(f"tid_{k}", 6) for k in range(steps)]
        self.out = [z3.BitVec(f"out_{k}", 4) for k in range(steps)]
        self.states = []
        self.constraints = []
        s0 = {}
        for v, init in model.vars.items():
            so = sort_of(v)
            s0[v] = z3.BoolVal(bool(init)) if so == "b" else z3.BitVecVal(int(init), so)
        for th in model.threads:
            s0[f"pc{th.idx}"] = z3.BitVecVal(th.init_pc, 8)
        self.states.append(s0)
        for k in range(steps):
            self._step(k)

    # ---- expressions ------------------------------------------------------------------------------------------
    def V(self, S, name):
        return self.consts[name] if name in self.consts else S[name]

    def C(self, S, e):
        t = e[0]
        if t == "T":
            return z3.BoolVal(True)
        if t == "b":
            return self.V(S, e[1])
        if t == "nb":
            return z3.Not(self.V(S, e[1]))
        if t == "eq":
            return self.V(S, e[1]) == e[2]
        if t == "ne":
            return self.V(S, e[1]) != e[2]
        if t == "eqv":
            return self.V(S, e[1]) == self.V(S, e[2])
        if t == "ltv":
            return z3.ULT(self.V(S, e[1]), self.V(S, e[2]))
        if t == "succ_eq":
            return self.V(S, e[1]) + 1 == self.V(S, e[2])
        if t == "succ_ne":
            return self.V(S, e[1]) + 1 != self.V(S, e[2])
        if t == "and":
            return z3.And([self.C(S, x) for x in e[1]])
        if t == "or":
            return z3.Or([self.C(S, x) for x in e[1]])
        if t == "not":
            return z3.Not(self.C(S, e[1]))
        raise ValueError(e)

    def R(self, S, var, rhs):
        so = sort_of(var)
        t = rhs[0]
        if t == "const":
            return z3.BoolVal(bool(rhs[1])) if so == "b" else z3.BitVecVal(int(rhs[1]), so)
        if t == "var":
            return self.V(S, rhs[1])
        if t == "inc":
            x = self.V(S, rhs[1])
            top = (1 << so) - 1
            return z3.If(x == top, x, x + 1)
        if t == "ite":
            return z3.If(self.C(S, rhs[1]), self.R(S, var, rhs[2]), self.R(S, var, rhs[3]))
        if t == "bool":
            return self.C(S, rhs[1])
        if t == "count":  # number of true conditions
            acc = z3.BitVecVal(0, so)
            for c in rhs[1]:
                acc = acc + z3.If(self.C(S, c), z3.BitVecVal(1, so), z3.BitVecVal(0, so))
            return acc
        raise ValueError(rhs)

    # ---- transition -------------------------------------------------------------------------------------------
    def _step(self, k):
        S = self.states[k]
        tid, out = self.tid[k], self.out[k]
        updates: dict[str, list] = {}
        valid = [tid == self.STUTTER]
        for th in self.m.threads:
            pc = S[f"pc{th.idx}"]
            for n in th.nodes.values():
                at = z3.And(tid == th.idx, pc == n.id)
                for oi, o in enumerate(n.outs):
                    sel = z3.And(at, out == oi)
                    valid.append(z3.And(sel, self.C(S, o.cond)))
                    updates.setdefault(f"pc{th.idx}", []).append((sel, z3.BitVecVal(o.target, 8)))
                    for var, rhs in o.effects:
                        updates.setdefault(var, []).append((sel, self.R(S, var, rhs)))
        for j in range(self.J):
            sel = tid == self.T + j
            valid.append(z3.And(sel, S[f"proc{j}"] == P_RUN, out == 0))
            updates.setdefault(f"proc{j}", []).append((sel, z3.BitVecVal(2, 2)))
        self.constraints.append(z3.Or(valid))
        if k > 0:
            self.constraints.append(z3.Implies(self.tid[k - 1] == self.STUTTER, tid == self.STUTTER))
        S2 = {}
        for v in S:
            e = S[v]
            for sel, val in updates.get(v, []):
                e = z3.If(sel, val, e)
            S2[v] = e
        self.states.append(S2)

    # ---- predicates over a state --------------------------------------------------------------------------------
    def enabled(self, S, th, with_env: bool):
        pc = S[f"pc{th.idx}"]
        alts = []
        for n in th.nodes.values():
            cs = [self.C(S, o.cond) for o in n.outs if with_env or not o.env]
            if cs:
                alts.append(z3.And(pc == n.id, z3.Or(cs)))
        return z3.Or(alts) if alts else z3.BoolVal(False)

    def quiescent(self, S, with_env: bool):
        """no thread can take a step; with_env: not even after the environment acts (so: no process running either)"""
        cs = [z3.Not(self.enabled(S, th, with_env)) for th in self.m.threads]
        if with_env:
            cs += [S[f"proc{j}"] != P_RUN for j in range(self.J)]
        return z3.And(cs)

    def live(self, S, th):
        pc = S[f"pc{th.idx}"]
        return z3.And(pc != END, pc != IDLE)

    def final(self):
        return self.states[self.N]

    # ---- solving --------------------------------------------------------------------------------------------------
    def choice_consts(self):
        return list(self.tid) + list(self.out) + list(self.consts.values())

    def solve(self, extra, timeout_s=120, inproc_ms=1000):
        """-> (status, values of the choice variables or None, seconds, backend).  z3 in-process gets a short budget
        (it finds the shallow satisfying schedules); yices-smt2 then decides the query (it refutes these unrollings
        50-100x faster than z3 4.12)."""
        from lib import portfolio
        t0 = time.time()
        cc = self.choice_consts()
        s = z3.SolverFor("QF_BV")
        s.add(self.constraints)
        s.add(extra)

        def vals_of(m):
            out = {}
            for c in cc:
                v = m.eval(c, model_completion=True)
                out[str(c)] = bool(z3.is_true(v)) if z3.is_bool(c) else v.as_long()
            return out
        if inproc_ms > 0 or not portfolio.YICES_BIN:
            s.set("timeout", int(inproc_ms if portfolio.YICES_BIN else timeout_s * 1000))
            r = s.check()
            if r != z3.unknown or not portfolio.YICES_BIN:
                return str(r), (vals_of(s.model()) if r == z3.sat else None), time.time() - t0, "z3"
        d = tempfile.mkdtemp(prefix="c17q")
        try:
            f = os.path.join(d, "q.smt2")
            with open(f, "w") as fh:
                fh.write(_smt2(list(self.constraints) + list(extra), cc))
            try:
                p = subprocess.run([portfolio.YICES_BIN, f"--timeout={max(1, int(timeout_s))}", f],
                                   capture_output=True, text=True, timeout=timeout_s + 30)
                out = p.stdout
            except subprocess.TimeoutExpired:
                out = "unknown"
        finally:
            shutil.rmtree(d, ignore_errors=True)
        first = out.strip().split("\n", 1)[0].strip() if out.strip() else "unknown"
        if first == "unsat":
            return "unsat", None, time.time() - t0, "yices"
        if "(error" in out or first != "sat":
            return "unknown", None, time.time() - t0, "yices"
        got = portfolio._parse_get_value(out.split("\n", 1)[1] if "\n" in out else "")
        vals = {}
        for c in cc:
            v = got.get(str(c))
            vals[str(c)] = (bool(v) if z3.is_bool(c) else int(v)) if v is not None else (False if z3.is_bool(c) else 0)
        return "sat", vals, time.time() - t0, "yices"

    # ---- concrete interpretation of one schedule (no solver): used to turn a solver answer into a witness; it
    # re-checks every transition guard, so an answer that does not satisfy the model raises ValueError
    def _c(self, S, e):
        t = e[0]
        if t == "T":
            return True
        if t == "b":
            return bool(S[e[1]])
        if t == "nb":
            return not S[e[1]]
        if t == "eq":
            return S[e[1]] == e[2]
        if t == "ne":
            return S[e[1]] != e[2]
        if t == "eqv":
            return S[e[1]] == S[e[2]]
        if t == "ltv":
            return S[e[1]] < S[e[2]]
        if t == "succ_eq":
            return (S[e[1]] + 1) % (1 << sort_of(e[1])) == S[e[2]]
        if t == "succ_ne":
            return (S[e[1]] + 1) % (1 << sort_of(e[1])) != S[e[2]]
        if t == "and":
            return all(self._c(S, x) for x in e[1])
        if t == "or":
            return any(self._c(S, x) for x in e[1])
        if t == "not":
            return not self._c(S, e[1])
        raise ValueError(e)

    def _r(self, S, var, rhs):
        so = sort_of(var)
        t = rhs[0]
        if t == "const":
            return bool(rhs[1]) if so == "b" else int(rhs[1])
        if t == "var":
            return S[rhs[1]]
        if t == "inc":
            return min(S[rhs[1]] + 1, (1 << so) - 1)
        if t == "ite":
            return self._r(S, var, rhs[2]) if self._c(S, rhs[1]) else self._r(S, var, rhs[3])
        if t == "bool":
            return self._c(S, rhs[1])
        if t == "count":
            return sum(1 for c in rhs[1] if self._c(S, c)) % (1 << so)
        raise ValueError(rhs)

    def witness(self, vals):
        """concrete schedule + per-step expected parked map + final model state, from the choice-variable values"""
        consts = {c: bool(vals[c]) for c in self.consts}
        S = {v: (bool(i) if sort_of(v) == "b" else int(i)) for v, i in self.m.vars.items()}
        for th in self.m.threads:
            S[f"pc{th.idx}"] = th.init_pc
        S.update(consts)

        def parked():
            return {th.name: th.nodes[S[f"pc{th.idx}"]].line for th in self.m.threads
                    if S[f"pc{th.idx}"] not in (END, IDLE)}
        init = parked()
        steps = []
        for k in range(self.N):
            tid = vals[f"tid_{k}"]
            if tid == self.STUTTER:
                break
            if tid > self.STUTTER:
                raise ValueError(f"step {k}: thread id {tid} out of range")
            if tid >= self.T:
                j = tid - self.T
                if S[f"proc{j}"] != P_RUN:
                    raise ValueError(f"step {k}: exit of a process that is not running")
                S[f"proc{j}"] = 2
                steps.append({"kind": "env", "job": j, "parked_after": parked()})
                continue
            th = self.m.threads[tid]
            n = th.nodes.get(S[f"pc{tid}"])
            oi = vals[f"out_{k}"]
            if n is None or oi >= len(n.outs) or not self._c(S, n.outs[oi].cond):
                raise ValueError(f"step {k}: the solver's schedule does not satisfy the transition relation")
            o = n.outs[oi]
            new = {var: self._r(S, var, rhs) for var, rhs in o.effects}
            S.update(new)
            S[f"pc{tid}"] = o.target
            st = {"kind": "thread", "thread": th.name, "line": n.line, "tag": n.tag, "label": o.label,
                  "parked_after": parked()}
            if "sweep" in n.extra:
                st["sweep"] = n.extra["sweep"]
            steps.append(st)
        final = {v: S[v] for v in S if v not in consts}
        return {"consts": consts, "steps": steps, "parked_init": init, "final": final}


def _smt2(assertions, consts) -> str:
    s = z3.Solver()
    s.add(assertions)
    names = " ".join(c.sexpr() for c in consts)
    return ("(set-option :produce-models true)\n(set-logic QF_BV)\n" + s.to_smt2().replace("(set-info :status unknown)", "")
            + f"(get-value ({names}))\n")


# ----------------------------------------------------------------------------------------------------------------
# replay on the real classes (subprocess running lib/procreplay.py) and state comparison
# ----------------------------------------------------------------------------------------------------------------
def replay_job(model: Model, wit: dict, src_dir: str, probe: bool = True) -> dict:
    return {"src": src_dir, "scenario": model.sc.to_json(), "consts": wit["consts"],
            "gate_lines": model.gate_lines(), "stmt_of": {str(k): v for k, v in model.src.stmt_of.items()},
            "steps": wit["steps"], "parked_init": wit["parked_init"], "probe": probe, "final": wit["final"]}


def run_replay(job: dict, timeout=60) -> dict:
    import json
    import sys
    verif = os.path.dirname(os.path.dirname(os.path.abspath(__file__)))
    env = dict(os.environ)
    env["PYTHONPATH"] = verif + os.pathsep + env.get("PYTHONPATH", "")
    env["PYTHONDONTWRITEBYTECODE"] = "1"
    try:
        p = subprocess.run([sys.executable, "-m", "lib.procreplay"], input=json.dumps(job), capture_output=True,
                           text=True, timeout=timeout, cwd=verif, env=env)
    except subprocess.TimeoutExpired:
        return {"status": "diverged", "reason": "replay subprocess timed out"}
    try:
        return json.loads(p.stdout)
    except Exception:
        return {"status": "diverged", "reason": "replay subprocess failed: " + (p.stderr or p.stdout)[-400:]}


def compare_state(model: Model, final: dict, obs: dict) -> list[str]:
    """differences between the model's predicted end state and the state observed on the real classes"""
    from lib.procreplay import state_diffs
    return state_diffs(model.J, final, obs)
