"""z3 encoding of the thread CFGs extracted by lib/procbmc.py: functional unrolling over a symbolic schedule.

Free variables: per step k the scheduled thread/event `tid_k` and the outcome index `out_k`, plus the per-job
environment constants (hasto_j: job has a timeout, pfail_j: Popen raises, igterm_j: process ignores SIGTERM).
tid values: 0..T-1 threads, T+j "process j exits by itself", T+J stutter (only as a suffix of the schedule).
"""

from __future__ import annotations

import os
import shutil
import subprocess
import tempfile
import time

import z3

from lib.procbmc import END, IDLE, P_RUN, Model, sort_of


class Enc:
    def __init__(self, model: Model, steps: int, por: bool = False):
        self.m, self.N, self.por = model, steps, por
        self.res_index: dict[str, int] = {}
        self.masks = []
        self.T, self.J = len(model.threads), model.J
        self.STUTTER = self.T + self.J
        self.consts = {c: z3.Bool(c) for c in model.consts}
        self.tid = [z3.BitVec(f"tid_{k}", 6) for k in range(steps)]
        self.out = [z3.BitVec(f"out_{k}", 4) for k in range(steps)]
        self.states = []
        self.constraints = []
        s0 = {}
        for v, init in model.vars.items():
            so = sort_of(v)
            s0[v] = z3.BoolVal(bool(init)) if so == "b" else z3.BitVecVal(int(init), so)
        for th in model.threads:
            s0[f"pc{th.idx}"] = z3.BitVecVal(th.init_pc, 8)
        self.states.append(s0)
        for k in range(steps):
            self._step(k)
        if por:
            self._por()

    # ---- expressions ------------------------------------------------------------------------------------------
    def V(self, S, name):
        return self.consts[name] if name in self.consts else S[name]

    def C(self, S, e):
        t = e[0]
        if t == "T":
            return z3.BoolVal(True)
        if t == "b":
            return self.V(S, e[1])
        if t == "nb":
            return z3.Not(self.V(S, e[1]))
        if t == "eq":
            return self.V(S, e[1]) == e[2]
        if t == "ne":
            return self.V(S, e[1]) != e[2]
        if t == "eqv":
            return self.V(S, e[1]) == self.V(S, e[2])
        if t == "succ_eq":
            return self.V(S, e[1]) + 1 == self.V(S, e[2])
        if t == "succ_ne":
            return self.V(S, e[1]) + 1 != self.V(S, e[2])
        if t == "and":
            return z3.And([self.C(S, x) for x in e[1]])
        if t == "or":
            return z3.Or([self.C(S, x) for x in e[1]])
        if t == "not":
            return z3.Not(self.C(S, e[1]))
        raise ValueError(e)

    def R(self, S, var, rhs):
        so = sort_of(var)
        t = rhs[0]
        if t == "const":
            return z3.BoolVal(bool(rhs[1])) if so == "b" else z3.BitVecVal(int(rhs[1]), so)
        if t == "var":
            return self.V(S, rhs[1])
        if t == "inc":
            x = self.V(S, rhs[1])
            top = (1 << so) - 1
            return z3.If(x == top, x, x + 1)
        if t == "ite":
            return z3.If(self.C(S, rhs[1]), self.R(S, var, rhs[2]), self.R(S, var, rhs[3]))
        if t == "bool":
            return self.C(S, rhs[1])
        raise ValueError(rhs)

    # ---- partial-order reduction -------------------------------------------------------------------------------
    def _vars_of(self, e, acc):
        if isinstance(e, tuple):
            if e and e[0] in ("b", "nb", "eq", "ne", "var", "inc"):
                acc.add(e[1])
            elif e and e[0] in ("eqv", "succ_eq", "succ_ne"):
                acc.add(e[1]); acc.add(e[2])
            else:
                for x in e[1:]:
                    self._vars_of(x, acc)
        elif isinstance(e, list):
            for x in e:
                self._vars_of(x, acc)

    def job_local(self, th, n):
        """j if every variable the node reads or writes is a per-job variable of job j (or the thread's own pc /
        crash flag or an environment constant), else None"""
        vs = set()
        for o in n.outs:
            self._vars_of(o.cond, vs)
            for var, rhs in o.effects:
                vs.add(var)
                self._vars_of(rhs, vs)
        jobs = set()
        for v in vs:
            if v in (f"pc{th.idx}", f"crash{th.idx}"):
                continue
            base = v.rstrip("0123456789")
            if base in ("proc", "pf", "exc", "tf", "early", "started", "done", "nset", "igterm", "hasto", "pfail"):
                jobs.add(int(v[len(base):]))
            else:
                return None
        return jobs.pop() if len(jobs) == 1 else None

    def _por(self):
        """Partial-order reduction: two adjacent steps of different threads that are both *job-local* (touch only the
        per-job variables of one job and their own pc) to two different jobs commute; only the order with the smaller
        thread id first is kept.  Every Mazurkiewicz trace keeps its lexicographically least linearisation (same
        length, same end state), so reachability of end states within N steps is unchanged."""
        J = self.J
        table = []
        for th in self.m.threads:
            for n in th.nodes.values():
                j = self.job_local(th, n)
                if j is not None:
                    table.append((th.idx, n.id, j))
        self.por_nodes = len(table)
        jl = []
        for k in range(self.N):
            S = self.states[k]
            e = z3.BitVecVal(J, 3)
            for j in range(J):
                e = z3.If(self.tid[k] == self.T + j, z3.BitVecVal(j, 3), e)
            for t, nid, j in table:
                e = z3.If(z3.And(self.tid[k] == t, S[f"pc{t}"] == nid), z3.BitVecVal(j, 3), e)
            jl.append(e)
        for k in range(self.N - 1):
            self.constraints.append(z3.Not(z3.And(z3.UGT(self.tid[k], self.tid[k + 1]), jl[k] != J, jl[k + 1] != J,
                                                  jl[k] != jl[k + 1])))

    # ---- transition -------------------------------------------------------------------------------------------
    def _step(self, k):
        S = self.states[k]
        tid, out = self.tid[k], self.out[k]
        updates: dict[str, list] = {}
        valid = [tid == self.STUTTER]
        for th in self.m.threads:
            pc = S[f"pc{th.idx}"]
            for n in th.nodes.values():
                at = z3.And(tid == th.idx, pc == n.id)
                for oi, o in enumerate(n.outs):
                    sel = z3.And(at, out == oi)
                    valid.append(z3.And(sel, self.C(S, o.cond)))
                    updates.setdefault(f"pc{th.idx}", []).append((sel, z3.BitVecVal(o.target, 8)))
                    for var, rhs in o.effects:
                        updates.setdefault(var, []).append((sel, self.R(S, var, rhs)))
        for j in range(self.J):
            sel = tid == self.T + j
            valid.append(z3.And(sel, S[f"proc{j}"] == P_RUN, out == 0))
            updates.setdefault(f"proc{j}", []).append((sel, z3.BitVecVal(2, 2)))
        self.constraints.append(z3.Or(valid))
        if k > 0:
            self.constraints.append(z3.Implies(self.tid[k - 1] == self.STUTTER, tid == self.STUTTER))
        S2 = {}
        for v in S:
            e = S[v]
            for sel, val in updates.get(v, []):
                e = z3.If(sel, val, e)
            S2[v] = e
        self.states.append(S2)

    # ---- predicates over a state --------------------------------------------------------------------------------
    def enabled(self, S, th, with_env: bool):
        pc = S[f"pc{th.idx}"]
        alts = []
        for n in th.nodes.values():
            cs = [self.C(S, o.cond) for o in n.outs if with_env or not o.env]
            if cs:
                alts.append(z3.And(pc == n.id, z3.Or(cs)))
        return z3.Or(alts) if alts else z3.BoolVal(False)

    def quiescent(self, S, with_env: bool):
        """no thread can take a step; with_env: not even after the environment acts (so: no process running either)"""
        cs = [z3.Not(self.enabled(S, th, with_env)) for th in self.m.threads]
        if with_env:
            cs += [S[f"proc{j}"] != P_RUN for j in range(self.J)]
        return z3.And(cs)

    def live(self, S, th):
        pc = S[f"pc{th.idx}"]
        return z3.And(pc != END, pc != IDLE)

    def final(self):
        return self.states[self.N]

    # ---- solving --------------------------------------------------------------------------------------------------
    def choice_consts(self):
        return list(self.tid) + list(self.out) + list(self.consts.values())

    def solve(self, extra, timeout_s=120, inproc_ms=1000):
        """-> (status, z3 model or None, seconds, backend).  z3 in-process gets a short budget (it finds the shallow
        satisfying schedules); yices-smt2 then decides the query (it refutes these unrollings 50-100x faster than z3
        4.12); a `sat` answer of yices is turned back into a z3 model by pinning the schedule."""
        from lib import portfolio
        t0 = time.time()
        s = z3.SolverFor("QF_BV")
        s.set("timeout", int(inproc_ms))
        s.add(self.constraints)
        s.add(extra)
        r = s.check()
        if r != z3.unknown:
            return str(r), (s.model() if r == z3.sat else None), time.time() - t0, "z3"
        if not portfolio.YICES_BIN:
            s.set("timeout", int(timeout_s * 1000))
            r = s.check()
            return str(r), (s.model() if r == z3.sat else None), time.time() - t0, "z3"
        d = tempfile.mkdtemp(prefix="c17q")
        try:
            f = os.path.join(d, "q.smt2")
            cc = self.choice_consts()
            with open(f, "w") as fh:
                fh.write(_smt2(list(self.constraints) + list(extra), cc))
            try:
                p = subprocess.run([portfolio.YICES_BIN, f"--timeout={max(1, int(timeout_s))}", f],
                                   capture_output=True, text=True, timeout=timeout_s + 30)
                out = p.stdout
            except subprocess.TimeoutExpired:
                out = "unknown"
        finally:
            shutil.rmtree(d, ignore_errors=True)
        first = out.strip().split("\n", 1)[0].strip() if out.strip() else "unknown"
        if first == "unsat":
            return "unsat", None, time.time() - t0, "yices"
        if "(error" in out or first != "sat":
            return "unknown", None, time.time() - t0, "yices"
        vals = portfolio._parse_get_value(out.split("\n", 1)[1] if "\n" in out else "")
        s2 = z3.SolverFor("QF_BV")
        s2.set("timeout", 60000)
        s2.add(self.constraints)
        s2.add(extra)
        for c in cc:
            v = vals.get(c.sexpr(), vals.get(str(c)))
            if v is None:
                continue
            s2.add(c == (bool(v) if z3.is_bool(c) else int(v)))
        r = s2.check()
        if r != z3.sat:   # the two solvers disagree on a pinned schedule: report as undecided, the caller flags it
            return "disagree", None, time.time() - t0, "yices"
        return "sat", s2.model(), time.time() - t0, "yices"

    def witness(self, mdl):
        """concrete schedule + per-step expected parked map + final model state"""
        ev = lambda e: mdl.eval(e, model_completion=True)  # noqa: E731
        consts = {c: bool(z3.is_true(ev(v))) for c, v in self.consts.items()}
        steps = []

        def val(S, name):
            x = ev(S[name])
            return bool(z3.is_true(x)) if z3.is_bool(x) else x.as_long()

        def parked(S):
            out = {}
            for th in self.m.threads:
                pc = val(S, f"pc{th.idx}")
                if pc not in (END, IDLE):
                    out[th.name] = th.nodes[pc].line
            return out
        for k in range(self.N):
            tid = ev(self.tid[k]).as_long()
            S = self.states[k]
            if tid == self.STUTTER:
                break
            if tid >= self.T:
                steps.append({"kind": "env", "job": tid - self.T, "parked_after": parked(self.states[k + 1])})
                continue
            th = self.m.threads[tid]
            pc = val(S, f"pc{tid}")
            n = th.nodes[pc]
            o = n.outs[ev(self.out[k]).as_long()]
            st = {"kind": "thread", "thread": th.name, "line": n.line, "tag": n.tag, "label": o.label,
                  "parked_after": parked(self.states[k + 1])}
            if "sweep" in n.extra:
                st["sweep"] = n.extra["sweep"]
            steps.append(st)
        SN = self.states[len(steps)] if len(steps) < self.N else self.states[self.N]
        final = {v: val(SN, v) for v in SN}
        return {"consts": consts, "steps": steps, "parked_init": parked(self.states[0]), "final": final}


def _smt2(assertions, consts) -> str:
    s = z3.Solver()
    s.add(assertions)
    names = " ".join(c.sexpr() for c in consts)
    return ("(set-option :produce-models true)\n(set-logic QF_BV)\n" + s.to_smt2().replace("(set-info :status unknown)", "")
            + f"(get-value ({names}))\n")


# ----------------------------------------------------------------------------------------------------------------
# replay on the real classes (subprocess running lib/procreplay.py) and state comparison
# ----------------------------------------------------------------------------------------------------------------
def replay_job(model: Model, wit: dict, src_dir: str, probe: bool = True) -> dict:
    return {"src": src_dir, "scenario": model.sc.to_json(), "consts": wit["consts"],
            "gate_lines": model.gate_lines(), "stmt_of": {str(k): v for k, v in model.src.stmt_of.items()},
            "steps": wit["steps"], "parked_init": wit["parked_init"], "probe": probe}


def run_replay(job: dict, timeout=60) -> dict:
    import json
    import sys
    verif = os.path.dirname(os.path.dirname(os.path.abspath(__file__)))
    env = dict(os.environ)
    env["PYTHONPATH"] = verif + os.pathsep + env.get("PYTHONPATH", "")
    env["PYTHONDONTWRITEBYTECODE"] = "1"
    try:
        p = subprocess.run([sys.executable, "-m", "lib.procreplay"], input=json.dumps(job), capture_output=True,
                           text=True, timeout=timeout, cwd=verif, env=env)
    except subprocess.TimeoutExpired:
        return {"status": "diverged", "reason": "replay subprocess timed out"}
    try:
        return json.loads(p.stdout)
    except Exception:
        return {"status": "diverged", "reason": "replay subprocess failed: " + (p.stderr or p.stdout)[-400:]}


def compare_state(model: Model, final: dict, obs: dict) -> list[str]:
    """differences between the model's predicted end state and the state observed on the real classes"""
    diffs = []

    def chk(name, a, b):
        if a != b:
            diffs.append(f"{name}: model {a} real {b}")
    chk("flag", bool(final["flag"]), obs["flag"])
    chk("lock held", final["lock"] != 63, obs["locked"])
    chk("sdret", bool(final["sdret"]), obs["sdret"])
    reg = sorted((final[f"regpos{j}"], j) for j in range(model.J) if final[f"regpos{j}"] != 7)
    chk("registry", [j for _, j in reg], obs["registry"])
    for j in range(model.J):
        for v in ("proc", "pf", "exc", "done", "nset", "started", "acc", "rej", "res"):
            a = final[f"{v}{j}"]
            b = obs[f"{v}{j}"]
            chk(f"{v}{j}", int(a) if not isinstance(a, bool) else a, int(b) if not isinstance(b, bool) else b)
    return diffs
