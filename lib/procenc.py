"""z3 encoding of the thread CFGs extracted by lib/procbmc.py: functional unrolling over a symbolic schedule.

Free variables: per step k the scheduled thread/event `tid_k` and the outcome index `out_k`, plus the per-job
environment constants (hasto_j: job has a timeout, pfail_j: Popen raises, igterm_j: process ignores SIGTERM).
tid values: 0..T-1 threads, T+j "process j exits by itself", T+J stutter (only as a suffix of the schedule).
"""

from __future__ import annotations

import time

import z3

from lib.procbmc import END, IDLE, P_RUN, Model, sort_of


class Enc:
    def __init__(self, model: Model, steps: int):
        self.m, self.N = model, steps
        self.T, self.J = len(model.threads), model.J
        self.STUTTER = self.T + self.J
        self.consts = {c: z3.Bool(c) for c in model.consts}
        self.tid = [z3.BitVec(f"tid_{k}", 6) for k in range(steps)]
        self.out = [z3.BitVec(f"out_{k}", 4) for k in range(steps)]
        self.states = []
        self.constraints = []
        s0 = {}
        for v, init in model.vars.items():
            so = sort_of(v)
            s0[v] = z3.BoolVal(bool(init)) if so == "b" else z3.BitVecVal(int(init), so)
        for th in model.threads:
            s0[f"pc{th.idx}"] = z3.BitVecVal(th.init_pc, 8)
        self.states.append(s0)
        for k in range(steps):
            self._step(k)

    # ---- expressions ------------------------------------------------------------------------------------------
    def V(self, S, name):
        return self.consts[name] if name in self.consts else S[name]

    def C(self, S, e):
        t = e[0]
        if t == "T":
            return z3.BoolVal(True)
        if t == "b":
            return self.V(S, e[1])
        if t == "nb":
            return z3.Not(self.V(S, e[1]))
        if t == "eq":
            return self.V(S, e[1]) == e[2]
        if t == "ne":
            return self.V(S, e[1]) != e[2]
        if t == "eqv":
            return self.V(S, e[1]) == self.V(S, e[2])
        if t == "succ_eq":
            return self.V(S, e[1]) + 1 == self.V(S, e[2])
        if t == "succ_ne":
            return self.V(S, e[1]) + 1 != self.V(S, e[2])
        if t == "and":
            return z3.And([self.C(S, x) for x in e[1]])
        if t == "or":
            return z3.Or([self.C(S, x) for x in e[1]])
        if t == "not":
            return z3.Not(self.C(S, e[1]))
        raise ValueError(e)

    def R(self, S, var, rhs):
        so = sort_of(var)
        t = rhs[0]
        if t == "const":
            return z3.BoolVal(bool(rhs[1])) if so == "b" else z3.BitVecVal(int(rhs[1]), so)
        if t == "var":
            return self.V(S, rhs[1])
        if t == "inc":
            x = self.V(S, rhs[1])
            top = (1 << so) - 1
            return z3.If(x == top, x, x + 1)
        if t == "ite":
            return z3.If(self.C(S, rhs[1]), self.R(S, var, rhs[2]), self.R(S, var, rhs[3]))
        if t == "bool":
            return self.C(S, rhs[1])
        raise ValueError(rhs)

    # ---- transition -------------------------------------------------------------------------------------------
    def _step(self, k):
        S = self.states[k]
        tid, out = self.tid[k], self.out[k]
        updates: dict[str, list] = {}
        valid = [tid == self.STUTTER]
        for th in self.m.threads:
            pc = S[f"pc{th.idx}"]
            for n in th.nodes.values():
                at = z3.And(tid == th.idx, pc == n.id)
                for oi, o in enumerate(n.outs):
                    sel = z3.And(at, out == oi)
                    valid.append(z3.And(sel, self.C(S, o.cond)))
                    updates.setdefault(f"pc{th.idx}", []).append((sel, z3.BitVecVal(o.target, 8)))
                    for var, rhs in o.effects:
                        updates.setdefault(var, []).append((sel, self.R(S, var, rhs)))
        for j in range(self.J):
            sel = tid == self.T + j
            valid.append(z3.And(sel, S[f"proc{j}"] == P_RUN, out == 0))
            updates.setdefault(f"proc{j}", []).append((sel, z3.BitVecVal(2, 2)))
        self.constraints.append(z3.Or(valid))
        if k > 0:
            self.constraints.append(z3.Implies(self.tid[k - 1] == self.STUTTER, tid == self.STUTTER))
        S2 = {}
        for v in S:
            e = S[v]
            for sel, val in updates.get(v, []):
                e = z3.If(sel, val, e)
            S2[v] = e
        self.states.append(S2)

    # ---- predicates over a state --------------------------------------------------------------------------------
    def enabled(self, S, th, with_env: bool):
        pc = S[f"pc{th.idx}"]
        alts = []
        for n in th.nodes.values():
            cs = [self.C(S, o.cond) for o in n.outs if with_env or not o.env]
            if cs:
                alts.append(z3.And(pc == n.id, z3.Or(cs)))
        return z3.Or(alts) if alts else z3.BoolVal(False)

    def quiescent(self, S, with_env: bool):
        """no thread can take a step; with_env: not even after the environment acts (so: no process running either)"""
        cs = [z3.Not(self.enabled(S, th, with_env)) for th in self.m.threads]
        if with_env:
            cs += [S[f"proc{j}"] != P_RUN for j in range(self.J)]
        return z3.And(cs)

    def live(self, S, th):
        pc = S[f"pc{th.idx}"]
        return z3.And(pc != END, pc != IDLE)

    def final(self):
        return self.states[self.N]

    # ---- solving --------------------------------------------------------------------------------------------------
    def solve(self, extra, timeout_s=120):
        s = z3.SolverFor("QF_BV")
        s.set("timeout", int(timeout_s * 1000))
        s.add(self.constraints)
        s.add(extra)
        t0 = time.time()
        r = s.check()
        dt = time.time() - t0
        return str(r), (s.model() if r == z3.sat else None), dt

    def witness(self, mdl):
        """concrete schedule + per-step expected parked map + final model state"""
        ev = lambda e: mdl.eval(e, model_completion=True)  # noqa: E731
        consts = {c: bool(z3.is_true(ev(v))) for c, v in self.consts.items()}
        steps = []

        def val(S, name):
            x = ev(S[name])
            return bool(z3.is_true(x)) if z3.is_bool(x) else x.as_long()

        def parked(S):
            out = {}
            for th in self.m.threads:
                pc = val(S, f"pc{th.idx}")
                if pc not in (END, IDLE):
                    out[th.name] = th.nodes[pc].line
            return out
        for k in range(self.N):
            tid = ev(self.tid[k]).as_long()
            S = self.states[k]
            if tid == self.STUTTER:
                break
            if tid >= self.T:
                steps.append({"kind": "env", "job": tid - self.T, "parked_after": parked(self.states[k + 1])})
                continue
            th = self.m.threads[tid]
            pc = val(S, f"pc{tid}")
            n = th.nodes[pc]
            o = n.outs[ev(self.out[k]).as_long()]
            st = {"kind": "thread", "thread": th.name, "line": n.line, "tag": n.tag, "label": o.label,
                  "parked_after": parked(self.states[k + 1])}
            if "sweep" in n.extra:
                st["sweep"] = n.extra["sweep"]
            steps.append(st)
        SN = self.states[len(steps)] if len(steps) < self.N else self.states[self.N]
        final = {v: val(SN, v) for v in SN}
        return {"consts": consts, "steps": steps, "parked_init": parked(self.states[0]), "final": final}
