r"""C12 part 3: every configured length candidate is explored by the real SEVM.

A *scenario* is one configuration object (built once, shared, exactly as halmos shares `args` between the test
functions of a contract) and a sequence of functions.  For each function, in order:
  * the real mk_calldata builds (calldata, dyn_params);
  * a hand-assembled callee reads every length word with CALLDATALOAD (top-level parameters the way solc decoders do:
    load the head offset, add 4, load; nested length words at their absolute position), stores them and returns them;
  * the real SEVM.run_message runs it on a Path prepared exactly like halmos.__main__.run_message
    (extend_path + process_dyn_params);
  * solver obligations (O2 coverage): for every combination c of configured candidates (own cartesian product from the
    scenario's configuration, not from halmos' lists) the query  S = c  /\  not \\/_i PC_i  must be unsat; and (O1) each
    reported path returns the lengths its path condition fixes.
"""

from __future__ import annotations

import itertools
import traceback

import z3

from lib import asm
from lib import c12_abi as A
from lib import c12_check as C
from lib.driver import quiet

MAX_COMBOS = 243


def _callee(params, positions, order):
    """positions: list of (dyn index, abs byte pos, top-level head pos | None)"""
    items = []
    n = len(positions)
    seq = [(k, pos, head, 0) for (k, pos, head) in positions]
    if order == "rev":
        seq = seq[::-1]
    if order == "dup":  # every length word is read a second time (after all of them were read once)
        seq = seq + [(k, pos, head, n) for (k, pos, head, _) in seq]
    for (k, pos, head, shift) in seq:
        if head is not None:
            items += [("PUSH", head), "CALLDATALOAD", ("PUSH", 4), "ADD", "CALLDATALOAD"]
        else:
            items += [("PUSH", pos), "CALLDATALOAD"]
        items += [("PUSH", 32 * (k + shift)), "MSTORE"]
    items += [("PUSH", 32 * n * (2 if order == "dup" else 1)), "PUSH0", "RETURN"]
    return asm.assemble(items)


def _pre_ex(sevm, args, contract):
    from halmos.__main__ import mk_block, mk_solver
    from halmos.bytevec import ByteVec
    from halmos.sevm import FOUNDRY_CALLER, FOUNDRY_ORIGIN, FOUNDRY_TEST, CallContext, Message, Path
    from halmos.utils import EVM

    bal = z3.Array("balance_0", z3.BitVecSort(160), z3.BitVecSort(256))
    return sevm.mk_exec(
        code={FOUNDRY_TEST: contract},
        storage={FOUNDRY_TEST: sevm.mk_storagedata()},
        transient_storage={FOUNDRY_TEST: sevm.mk_storagedata()},
        balance=bal,
        block=mk_block(),
        context=CallContext(Message(target=FOUNDRY_TEST, caller=FOUNDRY_CALLER, origin=FOUNDRY_ORIGIN, value=0,
                                    data=ByteVec(), call_scheme=EVM.CALL)),
        pgm=contract,
        path=Path(mk_solver(args)),
    )


def explore_function(args, cfg, params, naming, order):
    """-> dict(paths=[(conds, words|None, error)], syms, lists(configured, own), dyn, problems=[...])"""
    from halmos.__main__ import mk_solver
    from halmos.calldata import FunctionInfo, mk_calldata, str_abi
    from halmos.sevm import FOUNDRY_CALLER, FOUNDRY_ORIGIN, FOUNDRY_TEST, SEVM, Contract, Message, Path
    from halmos.utils import EVM
    from eth_hash.auto import keccak

    name_fn = A.NAMINGS[naming]
    item = A.abi_item("f", params, name_fn)
    sig = str_abi(item)
    sel = keccak(A.fun_sig("f", params).encode())[:4]
    fi = FunctionInfo("C12", "f", sig, sel.hex())
    cd, dyn = mk_calldata({sig: item}, fi, args)

    exp = C.expected_dyn(params, name_fn, cfg)
    cands = C.cands_of(cfg)
    own_lists = [cands(x.name, x.kind) for x in exp]
    res = {"sig": sig, "dyn": dyn, "own_lists": own_lists, "problems": [], "paths": [], "syms": [d.size_symbol for d in dyn],
           "names": [x.name for x in exp]}
    if [d.name for d in dyn] != [x.name for x in exp]:
        res["problems"].append(("dyn-list", f"dyn_params {[d.name for d in dyn]} vs expected {[x.name for x in exp]}"))
        return res
    for d, own in zip(dyn, own_lists):
        if sorted(set(d.size_choices)) != sorted(set(own)):
            res["problems"].append(("size-choices", f"size_choices of {d.name!r} = {list(d.size_choices)}, configured {own}"))
    if res["problems"]:
        return res
    syms = res["syms"]
    # positions of the length words: own decoder at the largest candidates (every registered symbol is reachable there)
    mx = [max(o) for o in own_lists]
    view = C.CdView(cd)
    rd = C.HalmosReader(view, [(s, z3.BitVecVal(v, 256)) for s, v in zip(syms, mx)])
    dec = A.decode_params(rd, params, 4)
    idx = {x.path: i for i, x in enumerate(exp)}
    heads, cur = {}, 4
    for i, p in enumerate(params):
        if p[0] in ("b", "da"):
            heads[(i,)] = cur
        cur += A.head_size(p)
    positions = []
    for (p, pos, raw, val, kind) in dec.lengths:
        k = idx[p]
        if not raw.eq(syms[k]):
            res["problems"].append(("length-word", f"word at {pos} is {raw}, expected {syms[k]}"))
            return res
        positions.append((k, pos, heads.get(p)))
    if len(positions) != len(syms):
        res["problems"].append(("length-word", f"{len(positions)} length words reachable, {len(syms)} size symbols"))
        return res
    code = _callee(params, positions, order)
    sevm = SEVM(args, fi)
    contract = Contract(code)
    pre = _pre_ex(sevm, args, contract)
    message = Message(target=FOUNDRY_TEST, caller=FOUNDRY_CALLER, origin=FOUNDRY_ORIGIN, value=0, data=cd,
                      call_scheme=EVM.CALL, fun_info=fi)
    path = Path(mk_solver(args))
    path.extend_path(pre.path)
    path.process_dyn_params(dyn)
    with quiet():
        for ex in sevm.run_message(pre, message, path):
            conds = [c for c in ex.path.conditions if not z3.is_true(c)]
            out = ex.context.output
            words = None
            nw = len(syms) * (2 if order == "dup" else 1)
            if out.error is None and out.data is not None and len(out.data) == 32 * nw:
                words = [z3.simplify(C.to_term(out.data.get_word(32 * k), 32)) for k in range(nw)]
            res["paths"].append((conds, words, repr(out.error) if out.error is not None else None))
            if len(res["paths"]) > 4 * MAX_COMBOS:
                break
    return res


def n_combos(params, naming, cfg):
    exp = C.expected_dyn(params, A.NAMINGS[naming], cfg)
    cands = C.cands_of(cfg)
    n = 1
    for x in exp:
        n *= len(cands(x.name, x.kind))
    return n, len(exp)


def check_scenario(scn, ev, upto=None, witness_combo=None, kind="missing"):
    """scn = dict(cfg=..., seq=[(params, naming, order), ...]).  With `upto`/`witness_combo`: replay mode (the whole
    sequence is re-run with fresh objects, the reported path conditions and outputs are *evaluated* on the concrete
    witness) -> True iff function #upto still has no path admitting witness_combo (kind "missing") / still has a path
    that admits witness_combo but returns other lengths (kind "wrong-length")."""
    cfg = scn["cfg"]
    args = C.build_args(cfg)
    conf_before = (list(args.default_array_lengths), list(args.default_bytes_lengths),
                   {k: list(v) for k, v in (args.array_lengths or {}).items()})
    for fi, (params, naming, order) in enumerate(scn["seq"]):
        if upto is not None and fi > upto:
            break
        fkey = f"{C.inst_key(params, naming, cfg)}|#{fi}|{order}"
        wit = {"scenario": {"cfg": cfg, "seq": [[repr(p), n, o] for p, n, o in scn["seq"]]}, "function_index": fi}
        try:
            res = explore_function(args, cfg, params, naming, order)
        except Exception as e:
            if upto is not None:
                continue
            ev.cand("explore", f"raises:{A.fun_sig('f', params)}", f"exploration raised {type(e).__name__}: {e}", wit)
            continue
        if res["problems"]:
            if upto is None:
                k, msg = res["problems"][0]
                ev.cand("explore-dyn-params", f"{k}:#{fi}:{A.fun_sig('f', params)}",
                        f"function #{fi} of a sequence sharing one config object: {msg}", wit)
            elif fi == upto:
                return True
            continue
        syms, own = res["syms"], res["own_lists"]
        pcs = [z3.And(*c) if c else z3.BoolVal(True) for (c, _, _) in res["paths"]]
        if upto is not None:
            if fi != upto:
                continue
            sub = [(s, z3.BitVecVal(v, 256)) for s, v in zip(syms, witness_combo)]
            vals = [z3.simplify(z3.substitute(pc, *sub)) if sub else z3.simplify(pc) for pc in pcs]
            if kind == "missing":
                return all(z3.is_false(v) for v in vals)
            for v, (c, words, err) in zip(vals, res["paths"]):
                if z3.is_true(v) and words is not None:
                    got = [z3.simplify(z3.substitute(w, *sub)) for w in words]
                    reps = len(got) // max(1, len(witness_combo))
                    if all(z3.is_bv_value(g) for g in got) and [g.as_long() for g in got] != list(witness_combo) * reps:
                        return True
            return False
        ev.stat("functions_explored")
        ev.stat("paths", len(res["paths"]))
        if len(syms) >= 2:
            ev.stat("functions_with_2plus_dyn_params")
        if order == "dup":
            ev.stat("functions_reading_each_length_twice")
        if fi >= 1:
            ev.stat("functions_run_after_another_with_same_config")
        # O1: on every input a path admits it returns exactly that input's lengths
        in_cands = [z3.Or(*[s == z3.BitVecVal(v, 256) for v in o]) for s, o in zip(syms, own)]
        bad, wrong = None, None
        for (c, words, err), pc in zip(res["paths"], pcs):
            if err is not None or words is None:
                bad = f"path ended with {err}"
                break
            # (no restriction to the configured candidates here: whatever input a reported path admits must have the
            # lengths that were read on that path)
            st, m, _ = C.solve([pc] + [z3.Or(*[s != w for s, w in zip(syms * (len(words) // max(1, len(syms))), words)])])
            if st == "sat":
                combo = []
                for s in syms:
                    v = m.eval(s, model_completion=True) if hasattr(m, "eval") else None
                    combo.append(v.as_long() if v is not None and z3.is_bv_value(v) else m.get(str(s)))
                wrong = (combo, [str(w) for w in words], [str(x) for x in c])
                break
            if st != "unsat":
                bad = f"O1 query {st}"
                break
        if wrong:
            w = dict(wit)
            w.update({"combo": wrong[0], "returned": wrong[1], "path_condition": wrong[2], "size_symbols": res["names"]})
            ev.cand("explore-o1", f"wrong-length:{'first' if fi == 0 else 'later'}:{len(syms)}dyn:{A.fun_sig('f', params)}",
                    f"a reported path admits the lengths {dict(zip(res['names'], wrong[0]))} (path condition {wrong[2]}) but "
                    f"the callee read the lengths {wrong[1]} on it: the length word was replaced by a value the path "
                    f"condition does not imply", w)
        elif bad:
            ev.inconc("explore-o1", fkey, bad)
        else:
            ev.ok("explore-o1", fkey)
        # O2: every combination of configured candidates is admitted by some reported path
        combos = list(itertools.product(*own))
        ev.stat("combinations", len(combos))
        notcov = z3.Not(z3.Or(*pcs)) if pcs else z3.BoolVal(True)
        missing = []
        for c in combos:
            st, _, _ = C.solve([s == z3.BitVecVal(v, 256) for s, v in zip(syms, c)] + [notcov])
            if st == "unsat":
                ev.ok("explore-o2", f"{fkey}|{list(c)}")
            elif st == "sat":
                missing.append(c)
            else:
                ev.inconc("explore-o2", f"{fkey}|{list(c)}", st)
        # reachability twin: the union of the paths is satisfiable at all
        if pcs:
            st, _, _ = C.solve([z3.Or(*pcs)])
            if st != "sat":
                ev.herr(f"no satisfiable path at all for {fkey}")
        if missing:
            w = dict(wit)
            w.update({"missing": [list(m) for m in missing[:8]], "n_missing": len(missing), "n_paths": len(pcs),
                      "size_symbols": res["names"], "candidates": own})
            seq_dep = "first" if fi == 0 else "later"
            ev.cand("explore-o2", f"missing:{seq_dep}:{len(syms)}dyn:{A.fun_sig('f', params)}",
                    f"{len(missing)} of {len(combos)} length combinations have no reported path, e.g. "
                    f"{dict(zip(res['names'], missing[0]))} (function #{fi} in a sequence sharing one config object; "
                    f"{len(pcs)} paths reported)", w)
        # the shared configuration and DynamicParam.size_choices are intact after the run
        conf_after = (list(args.default_array_lengths), list(args.default_bytes_lengths),
                      {k: list(v) for k, v in (args.array_lengths or {}).items()})
        if conf_after != conf_before:
            ev.cand("explore-config", f"config-mutated:#{fi}:{A.fun_sig('f', params)}",
                    f"running function #{fi} changed the shared configuration lists: {conf_before} -> {conf_after}", wit)
            conf_before = conf_after
        else:
            ev.ok("explore-config", fkey)
        lost = [(d.name, list(d.size_choices), o) for d, o in zip(res["dyn"], own) if sorted(set(d.size_choices)) != sorted(set(o))]
        if lost:
            ev.cand("explore-dyn-params", f"size-choices-after-run:#{fi}:{A.fun_sig('f', params)}",
                    f"after the run DynamicParam.size_choices no longer lists every candidate: {lost[:3]}", wit)
    return None


def run_scenario(scn):
    ev = C.Events()
    try:
        check_scenario(scn, ev)
    except Exception:
        ev.herr(f"exception in scenario {scn['cfg']}: {traceback.format_exc()[-700:]}")
    out, seen = [], set()
    for e in ev.ev:
        if e[0] != "cand":
            out.append(e)
            continue
        _, cls, key, what, wit = e
        if (cls, key) in seen:
            continue
        seen.add((cls, key))
        try:
            if cls == "explore-o2":
                rep = all(check_scenario(scn, C.Events(), upto=wit["function_index"], witness_combo=tuple(m)) is True
                          for m in wit["missing"][:2])
            elif cls == "explore-o1":
                rep = check_scenario(scn, C.Events(), upto=wit["function_index"], witness_combo=tuple(wit["combo"]),
                                     kind="wrong-length") is True
            else:  # deterministic re-run of the whole scenario must show the same candidate
                ev2 = C.Events()
                check_scenario(scn, ev2)
                rep = any(x[0] == "cand" and x[1] == cls and x[2] == key for x in ev2.ev)
        except Exception:
            rep = False
            wit = dict(wit, replay_exception=traceback.format_exc()[-400:])
        if rep:
            out.append(("violation", cls, key, what, wit))
        else:
            out.append(("harness_error", f"candidate did not reproduce: {cls} {key}: {what[:200]}"))
    return out, ev.stats
