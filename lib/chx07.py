"""C07 Route P: generates the CrossHair condition file, runs `crosshair check` per condition in parallel
(/verif/.venv), parses verdicts, replays counterexamples under /venv/bin/python.

A condition is one generated function `c_<name>(x0..xk: int, <symbolic offsets/lengths>: int) -> bool` with PEP316
pre/post lines; "Confirmed over all paths" = the postcondition holds for every content byte and every offset/length
inside the stated ranges.  Conditions whose name starts with `twin_` carry `post: False` and must be *refuted*.
"""

from __future__ import annotations

import os
import re
import subprocess
import sys
import threading
import time
from concurrent.futures import ThreadPoolExecutor

VERIF = os.path.dirname(os.path.dirname(os.path.abspath(__file__)))
CROSSHAIR = os.path.join(VERIF, ".venv", "bin", "crosshair")
REPLAY_PY = "/venv/bin/python"

SHAPE = (2, 3, 1)  # chunk lengths of the pre-built vector: boundaries 0/2/5/6
NX0 = sum(SHAPE)


def _split(lo, hi, parts):
    """split [lo,hi] into `parts` consecutive ranges"""
    n = hi - lo + 1
    out, a = [], lo
    for k in range(parts):
        sz = n // parts + (1 if k < n % parts else 0)
        if sz <= 0:
            continue
        out.append((a, a + sz - 1))
        a += sz
    return out


def conditions(tier: str):
    """-> list of dict(name, cls, key, nx, ints=[(name,lo,hi)], body=[lines], post)"""
    thorough = tier == "thorough"
    MAXO = 40
    C = []

    def add(name, cls, nx, ints, body, post="__return__", pre_extra=None, shape=SHAPE):
        C.append({"name": name, "cls": cls, "key": name, "nx": nx, "ints": ints, "body": body, "post": post,
                  "pre_extra": pre_extra, "shape": shape})

    mk = f"v, ref = mk({SHAPE!r}, [{', '.join(f'x{i}' for i in range(NX0))}])"
    # vector whose chunk list was reshaped by real writes: a byte write splitting chunk 1, an aligned ByteVec write
    # (stored nested by the fast path) over chunk 0
    prep = [mk,
            f"v.set_byte(3, x{NX0}); r_write(ref, 3, bytes([x{NX0}]))",
            f"nv = ByteVec(); nv.append(bytes([x{NX0 + 1}])); nv.append(bytes([x{NX0 + 2}]))",
            f"v.set_slice(0, 2, nv); r_write(ref, 0, bytes([x{NX0 + 1}, x{NX0 + 2}]))"]

    # ---- reads at symbolic offsets --------------------------------------------------------------------
    for tag, pre, nx in (("plain", [mk], NX0), ("reshaped", prep, NX0 + 3)):
        add(f"R.get_byte.{tag}", "P.read", nx, [("i", 0, MAXO)],
            pre + ["return v.get_byte(i) == r_byte(ref, i) and v[i] == r_byte(ref, i)"])
        add(f"R.get_word.{tag}", "P.read", nx, [("w", 0, MAXO)],
            pre + ['return v.get_word(w) == int.from_bytes(r_read(ref, w, w + 32), "big")'])
        sranges = [(0, 1), (2, 3), (4, 5), (6, 7), (8, 12), (13, 24), (25, MAXO)] if thorough \
            else [(0, 2), (3, 5), (6, 8)]
        emax = MAXO if thorough else 12
        for lo, hi in sranges:
            add(f"R.slice.{tag}.s{lo}-{hi}", "P.read", nx, [("s", lo, hi), ("e", 0, emax)],
                pre + ["sl = v.slice(s, e)",
                       "return len(sl) == max(0, e - s) and sl.unwrap() == r_read(ref, s, e) "
                       "and v[s:e].unwrap() == r_read(ref, s, e)"])

    # ---- one write at a symbolic offset -----------------------------------------------------------------
    k = NX0
    for lo, hi in _split(0, MAXO, 4 if not thorough else 4):
        add(f"W.set_slice_bytes.a{lo}-{hi}", "P.write", k + 3, [("n", 0, 3), ("a", lo, hi)],
            [mk, f"d = bytes([x{k}, x{k + 1}, x{k + 2}][:n])", "v.set_slice(a, a + len(d), d); r_write(ref, a, d)",
             "return full_reads(v, ref)"])
    for lo, hi in _split(0, MAXO, 3):
        add(f"W.set_slice_bytevec.a{lo}-{hi}", "P.write", k + 3, [("a", lo, hi)],
            [mk, f"val = ByteVec(); val.append(bytes([x{k}])); val.append(bytes([x{k + 1}, x{k + 2}]))",
             f"v.set_slice(a, a + 3, val); r_write(ref, a, bytes([x{k}, x{k + 1}, x{k + 2}]))",
             "return full_reads(v, ref)"])
    for lo, hi in _split(0, MAXO, 2):
        add(f"W.set_byte.a{lo}-{hi}", "P.write", k + 1, [("a", lo, hi)],
            [mk, f"v.set_byte(a, x{k}); r_write(ref, a, bytes([x{k}]))", "return full_reads(v, ref)"])
        if thorough:
            add(f"W.setitem_byte.a{lo}-{hi}", "P.write", k + 1, [("a", lo, hi)],
                [mk, f"v[a] = x{k}; r_write(ref, a, bytes([x{k}]))", "return full_reads(v, ref)"])
    for lo, hi in (_split(0, MAXO, 3) if thorough else [(0, 13)]):
        add(f"W.set_word.a{lo}-{hi}", "P.write", k + 2, [("a", lo, hi)],
            [mk, f"wd = bytes([x{k}, x{k + 1}] * 16)", "v.set_word(a, wd); r_write(ref, a, wd)",
             "return full_reads(v, ref)"])
    # MCOPY-like self copy: all three symbolic
    smax, nmax = (9, 3) if thorough else (7, 2)
    for lo, hi in (_split(0, 11, 4) + _split(12, MAXO, 7) if thorough else _split(0, 8, 3)):
        add(f"W.mcopy.d{lo}-{hi}", "P.write", k, [("d", lo, hi), ("s", 0, smax), ("n", 0, nmax)],
            [mk, "mcopy(v, ref, d, s, n)", "return full_reads(v, ref)"])
    add("W.append", "P.write", k + 3, [("n", 0, 3)],
        [mk, f"d = bytes([x{k}, x{k + 1}, x{k + 2}][:n])", "v.append(d); ref.extend(d)", "return full_reads(v, ref)"])

    # ---- two writes ---------------------------------------------------------------------------------------
    for lo, hi in (_split(0, 8, 3) if thorough else [(0, 2)]):
        add(f"W2.slice_slice.a{lo}-{hi}", "P.write2", k + 4, [("a", lo, hi), ("b", 0, 8 if thorough else 6), ("n", 0, 2)],
            [mk, f"v.set_slice(a, a + 2, bytes([x{k}, x{k + 1}])); r_write(ref, a, bytes([x{k}, x{k + 1}]))",
             f"d = bytes([x{k + 2}, x{k + 3}][:n])", "v.set_slice(b, b + len(d), d); r_write(ref, b, d)",
             "return full_reads(v, ref)"])
    for lo, hi in (_split(0, 8, 3) if thorough else []):
        add(f"W2.bytevec_byte.a{lo}-{hi}", "P.write2", k + 3, [("a", lo, hi), ("b", 0, 9)],
            [mk, f"val = ByteVec(); val.append(bytes([x{k}])); val.append(bytes([x{k + 1}]))",
             f"v.set_slice(a, a + 2, val); r_write(ref, a, bytes([x{k}, x{k + 1}]))",
             f"v.set_byte(b, x{k + 2}); r_write(ref, b, bytes([x{k + 2}]))", "return full_reads(v, ref)"])
        add(f"W2.byte_mcopy.a{lo}-{hi}", "P.write2", k + 1, [("a", lo, hi), ("d", 0, 4), ("s", 0, 4)],
            [mk, f"v.set_byte(a, x{k}); r_write(ref, a, bytes([x{k}]))", "mcopy(v, ref, d, s, 2)",
             "return full_reads(v, ref)"])

    # ---- copy independence --------------------------------------------------------------------------------
    for who, other in (("v", "c"), ("c", "v")):
        for lo, hi in (_split(0, 12, 2) if thorough else [(0, 8)]):
            add(f"C.copy_write_{'original' if who == 'v' else 'copy'}.a{lo}-{hi}", "P.copy", k + 3,
                [("n", 0, 3), ("a", lo, hi)],
                [mk, "c = v.copy(); cref = bytearray(ref)", f"d = bytes([x{k}, x{k + 1}, x{k + 2}][:n])",
                 f"{who}.set_slice(a, a + len(d), d); r_write({'ref' if who == 'v' else 'cref'}, a, d)",
                 "return full_reads(c, cref) and full_reads(v, ref)"])
    for lo, hi in (_split(0, 5, 6) if thorough else []):
        add(f"C.slice_write_original.s{lo}-{hi}", "P.copy", k + 1, [("s", lo, hi), ("e", 0, 7), ("a", 0, 6)], [mk, "sl = v.slice(s, e); sref = bytearray(r_read(ref, s, e))",
         f"v.set_byte(a, x{k}); r_write(ref, a, bytes([x{k}]))",
         "return full_reads(sl, sref) and full_reads(v, ref)"])
    # a ByteVec written into / appended to another one is a copy of its content at that time
    for lo, hi in _split(0, 8, 2):
        add(f"C.value_write_source.a{lo}-{hi}", "P.value_copy", k + 3, [("a", lo, hi), ("o", 0, 3)],
            [mk, f"src = ByteVec(); src.append(bytes([x{k}, x{k + 1}])); sref = bytearray([x{k}, x{k + 1}])",
             "v.set_slice(a, a + 2, src); r_write(ref, a, bytes(sref))",
             f"src.set_byte(o, x{k + 2}); r_write(sref, o, bytes([x{k + 2}]))",
             "return full_reads(v, ref) and full_reads(src, sref)"])
    add("C.append_value_write_source", "P.value_copy", k + 3, [("o", 0, 3)],
        [mk, f"src = ByteVec(); src.append(bytes([x{k}, x{k + 1}])); sref = bytearray([x{k}, x{k + 1}])",
         "v.append(src); ref.extend(sref)", f"src.set_byte(o, x{k + 2}); r_write(sref, o, bytes([x{k + 2}]))",
         "return full_reads(v, ref) and full_reads(src, sref)"])

    # ---- reachability twins (post: False must be refuted) -----------------------------------------------------
    add("twin_set_slice", "P.twin", k + 3, [("n", 1, 3), ("a", 1, 4)],
        [mk, f"d = bytes([x{k}, x{k + 1}, x{k + 2}][:n])", "v.set_slice(a, a + len(d), d); r_write(ref, a, d)",
         "return full_reads(v, ref)"], post="False")
    add("twin_mcopy_overlap", "P.twin", k, [("d", 1, 4), ("s", 0, 3), ("n", 2, 3)],
        [mk, "mcopy(v, ref, d, s, n)", "return full_reads(v, ref)"], post="False", pre_extra="s < d < s + n")
    add("twin_copy", "P.twin", k + 1, [("a", 0, 5)],
        [mk, "c = v.copy(); cref = bytearray(ref)", f"v.set_byte(a, x{k}); r_write(ref, a, bytes([x{k}]))",
         "return full_reads(c, cref) and full_reads(v, ref)"], post="False")
    add("twin_read_slice", "P.twin", NX0, [("s", 1, 3), ("e", 4, 9)],
        [mk, "return v.slice(s, e).unwrap() == r_read(ref, s, e)"], post="False")
    return C


def render(conds) -> tuple[str, dict]:
    """-> (python source, {name: line number inside the def body})"""
    lines = ['"""generated by lib/chx07.py - CrossHair conditions for C07 (do not edit)"""',
             "from halmos.bytevec import ByteVec",
             "from lib.c07_chx_harness import full_reads, mcopy, mk, r_byte, r_read, r_write", "", ""]
    where = {}
    for c in conds:
        fn = fn_name(c["name"])
        params = [f"x{i}: int" for i in range(c["nx"])] + [f"{n}: int" for n, _, _ in c["ints"]]
        lines.append(f"def {fn}({', '.join(params)}) -> bool:")
        lines.append('    """')
        where[c["name"]] = len(lines) + 1
        xs = " and ".join(f"0 <= x{i} <= 255" for i in range(c["nx"]))
        lines.append(f"    pre: {xs}")
        lines.append("    pre: " + " and ".join(f"{lo} <= {n} <= {hi}" for n, lo, hi in c["ints"]))
        if c.get("pre_extra"):
            lines.append(f"    pre: {c['pre_extra']}")
        lines.append(f"    post: {c['post']}")
        lines.append('    """')
        for b in c["body"]:
            lines.append("    " + b)
        lines += ["", ""]
    return "\n".join(lines) + "\n", where


def fn_name(name: str) -> str:
    return "c_" + re.sub(r"[^A-Za-z0-9]+", "_", name)


_MSG = re.compile(r"^(?P<file>[^:]+):(?P<line>\d+): (?P<kind>info|error): (?P<msg>.*)$")
_CALL = re.compile(r"when calling (?P<call>c_\w+\([^()]*\))")


def run_one(path: str, line: int, cap_s: float, env: dict, hard_stop: float | None = None) -> dict:
    t0 = time.time()
    wall = cap_s * 2.5 + 60
    if hard_stop is not None:
        wall = max(15.0, min(wall, hard_stop - t0))
    cmd = [CROSSHAIR, "check", "--report_all", "--per_condition_timeout", str(cap_s), f"{path}:{line}"]
    try:
        p = subprocess.run(cmd, capture_output=True, text=True, env=env, timeout=wall,
                           cwd=os.path.dirname(path))
        out, err, rc = p.stdout, p.stderr, p.returncode
    except subprocess.TimeoutExpired as e:
        out, err, rc = (e.stdout or ""), "wall-clock timeout", -9
        if isinstance(out, bytes):
            out = out.decode(errors="replace")
    res = {"status": "unknown", "msg": "", "call": None, "wall": time.time() - t0, "rc": rc}
    for ln in out.splitlines():
        m = _MSG.match(ln.strip())
        if not m:
            continue
        msg = m.group("msg")
        if m.group("kind") == "info" and msg.startswith("Confirmed over all paths"):
            res.update(status="confirmed", msg=msg)
        elif m.group("kind") == "info":
            res.update(status="unknown", msg=msg)
        else:
            res.update(status="counterexample", msg=msg)
            mc = _CALL.search(msg)
            if mc:
                res["call"] = mc.group("call")
            break
    if res["status"] == "unknown" and not res["msg"]:
        res["msg"] = (err.strip().splitlines() or [f"no verdict line (rc={rc})"])[-1][:300]
    return res


def replay_call(tmpdir: str, call: str, env: dict) -> dict:
    """evaluate the counterexample call under the pinned interpreter (/venv, z3 4.12.6)"""
    code = ("import sys, traceback\n"
            f"sys.path.insert(0, {tmpdir!r})\n"
            "from c07_conds import *\n"
            "try:\n"
            f"    r = {call}\n"
            "    print('RESULT', repr(r))\n"
            "except Exception as e:\n"
            "    print('RAISED', type(e).__name__, str(e)[:200])\n")
    p = subprocess.run([REPLAY_PY, "-c", code], capture_output=True, text=True, env=env, timeout=120)
    out = p.stdout.strip().splitlines()
    last = out[-1] if out else ""
    if last.startswith("RESULT"):
        val = last.split(" ", 1)[1]
        return {"reproduced": val != "True", "outcome": val}
    if last.startswith("RAISED"):
        return {"reproduced": True, "outcome": last}
    return {"reproduced": False, "outcome": "replay failed: " + (p.stderr.strip().splitlines() or ["?"])[-1][:200]}


class Runner:
    """runs all conditions in a background thread pool; `results()` joins"""

    def __init__(self, tier: str, tmpdir: str, repo_src: str, cap_s: float, jobs: int, only=None, deadline=None,
                 hard_stop=None):
        self.tier, self.tmpdir, self.cap_s = tier, tmpdir, cap_s
        self.deadline = deadline  # conditions not started by then are not run (reported as inconclusive)
        self.hard_stop = hard_stop  # running conditions are killed then (inconclusive)
        self.conds = [c for c in conditions(tier) if not only or any(o in c["name"] for o in only)]
        src, self.where = render(self.conds)
        self.path = os.path.join(tmpdir, "c07_conds.py")
        with open(self.path, "w") as f:
            f.write(src)
        env = dict(os.environ)
        env["PYTHONPATH"] = os.pathsep.join([repo_src, VERIF, tmpdir])
        env["PYTHONDONTWRITEBYTECODE"] = "1"
        self.env = env
        self.ex = ThreadPoolExecutor(max_workers=64)
        self.slots = threading.Semaphore(max(1, jobs))  # concurrency gate; more_slots() widens it
        self.futs = {}

    def available(self) -> bool:
        return os.path.exists(CROSSHAIR)

    def more_slots(self, n: int):
        for _ in range(max(0, n)):
            self.slots.release()

    def _gated(self, line):
        with self.slots:
            if self.deadline is not None and time.time() > self.deadline:
                return {"status": "unknown", "msg": "not run (time budget)", "call": None, "wall": 0.0, "rc": None}
            return run_one(self.path, line, self.cap_s, self.env, self.hard_stop)

    def start(self):
        # twins and copy-independence first: they are cheap and must not be starved by the time budget
        rank = {"P.twin": 0, "P.value_copy": 1, "P.copy": 2, "P.write": 3, "P.write2": 4, "P.read": 5}
        for c in sorted(self.conds, key=lambda c: rank.get(c["cls"], 9)):
            self.futs[c["name"]] = self.ex.submit(self._gated, self.where[c["name"]])

    def results(self):
        for c in self.conds:
            r = self.futs[c["name"]].result()
            if r["status"] == "counterexample" and c["post"] != "False":
                r["replay"] = replay_call(self.tmpdir, r["call"], self.env) if r["call"] else \
                    {"reproduced": False, "outcome": "could not parse counterexample: " + r["msg"][:200]}
            yield c, r
        self.ex.shutdown(wait=True)


if __name__ == "__main__":  # timing probe: python lib/chx07.py quick [filter]
    import tempfile
    import shutil

    tier = sys.argv[1] if len(sys.argv) > 1 else "quick"
    only = sys.argv[2].split(",") if len(sys.argv) > 2 else None
    d = tempfile.mkdtemp(prefix="c07chx_")
    try:
        rn = Runner(tier, d, os.environ.get("VERIF_REPO_SRC", "/repo/src"), float(os.environ.get("CAP", "60")),
                    int(os.environ.get("JOBS", "16")), only)
        print(len(rn.conds), "conditions")
        t0 = time.time()
        rn.start()
        for c, r in rn.results():
            print(f"{c['name']:40s} {r['status']:15s} {r['wall']:6.1f}s {r.get('replay', '')} {r['msg'][:90]}")
        print("total wall", round(time.time() - t0, 1))
    finally:
        shutil.rmtree(d, ignore_errors=True)
