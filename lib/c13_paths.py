"""C13 parts 3 and 4: vm.assert* and vm.assume through the real SEVM (nesting depth 1-3, fault scripts)."""

from __future__ import annotations

import z3

from lib import c13_abi as abi
from lib import c13_sevm as S
from lib import portfolio
from lib.c13_routez import concretise, shape_key
from lib.c13_sigs import BYTES_TYPES, Sem, selector_of
from lib.portfolio import free_consts

bv = abi.bv


# ---------------------------------------------------------------------------
# part 3: vm.assertXX at depth 1..3
# ---------------------------------------------------------------------------
def path_shapes(sem: Sem, tier: str) -> list[dict]:
    msg = {"msg": 3} if sem.has_msg else {}
    if not (sem.array or sem.typ in BYTES_TYPES):
        out = [dict(alias="none", **msg)]
        if tier == "thorough" and sem.nops == 2:
            out += [dict(alias="same", **msg), dict(conc="rhs", **msg)]
        return out
    if sem.array:
        pairs = [(1, 1, "none"), (1, 2, "prefix"), (2, 2, "none"), (0, 1, "none")]
        if tier == "thorough":
            pairs += [(0, 0, "none"), (2, 1, "prefix"), (1, 2, "none"), (2, 2, "same"), (2, 0, "none"), (3, 3, "none"),
                      (2, 3, "prefix")]
    else:
        pairs = [(1, 1, "none"), (33, 33, "none"), (2, 33, "prefix"), (0, 0, "none")]
        if tier == "thorough":
            pairs += [(0, 1, "none"), (33, 2, "prefix"), (32, 32, "none"), (32, 33, "prefix"), (33, 33, "same"),
                      (1, 2, "none"), (64, 65, "prefix")]
    return [dict(n1=a, n2=b, alias=al, **msg) for a, b, al in pairs]


def check_assert_paths(rc, sem: Sem, tier: str, timeout: float, depths=(1, 2, 3), scripts=("none", "all-unknown")):
    stats = {"runs": 0, "both_kinds": 0, "nested_fail_frames": 0, "faults": 0, "cont_carries_cond": 0,
             "cont_lacks_cond": 0, "cont_example": None}
    cls = "sevm-assert-paths"
    for shape in path_shapes(sem, tier):
        values, ops, canon = abi.mk_case(sem, shape)
        rel = abi.relation(sem, ops)
        if rel is None:
            rc.inconc(cls, f"{sem.sig}:{shape_key(shape)}", "the harness has no specification for this operator")
            continue
        words = abi.enc_tuple(sem.param_types, values)
        syms = [s for s in free_consts([z3.And([z3.BoolVal(True)] + canon), rel] + words) if z3.is_bv(s)]
        relc = z3.simplify(rel)
        may_fail = portfolio.solve(canon + [z3.Not(rel)], timeout=timeout).status == "sat"
        may_pass = portfolio.solve(canon + [rel], timeout=timeout).status == "sat"
        for depth in depths:
            code = S.chain_code(depth, S.vm_forward(sem.selector))
            for sname in scripts:
                script = S.SCRIPTS[sname]
                key = f"{sem.sig}:{shape_key(shape)}:depth={depth}:script={sname}"
                data = S.mk_bytevec(S.SELECTOR, words)
                try:
                    recs, fs = S.run_prog(code, data, script)
                except NotImplementedError:
                    rc.ok("unsupported-raises", key, nontrivial=False)
                    continue
                stats["runs"] += 1
                stats["faults"] += fs.get("faults", 0)
                if script is not None and fs.get("faults", 0) == 0 and not (z3.is_true(relc) or z3.is_false(relc)):
                    rc.inconc(cls, key + ":script", "the fault script was never consulted in this run")

                def replay(model, code=code, script=script, words=words, syms=syms):
                    return S.concrete_classes(code, S.SELECTOR, lambda m: [concretise(w, m, syms) for w in words], model,
                                              script)

                spec = {"FAIL": ("exact", z3.Not(rel)), "M:aa": ("cover", rel)}
                out = S.check_classes(rc, cls, key, recs, spec, canon, syms, timeout, replay=replay,
                                      witness_extra={"sig": sem.sig, "shape": shape, "depth": depth, "script": sname,
                                                     "code": {hex(a): c.hex() for a, c in code.items()},
                                                     "calldata_words": [str(w)[:80] for w in words]})
                fails = out["groups"].get("FAIL", [])
                conts = out["groups"].get("M:aa", [])
                if fails and conts:
                    stats["both_kinds"] += 1
                for r in fails:
                    bad = S.fail_flags(r)
                    fkey = f"{key}:flags"
                    if bad and portfolio.solve(canon + [S.pc_of(r)], timeout=timeout).status != "unsat":
                        rc.violation("sevm-fail-flags", fkey, "failing vm.assert path is not seen as a failure: " + "; ".join(bad),
                                     {"sig": sem.sig, "depth": depth, "script": sname, "flags": bad,
                                      "error": repr(r.error), "frame_depth": r.ex.context.depth})
                    else:
                        rc.ok("sevm-fail-flags", fkey)
                    if r.ex.context.depth == depth and depth > 1:
                        stats["nested_fail_frames"] += 1
                    if r.ex.context.depth != depth:
                        rc.inconc("sevm-fail-flags", fkey + ":frame", f"failure reported in frame depth {r.ex.context.depth}, "
                                                                       f"expected {depth}")
                for r in conts:
                    # a path on which the assertion held must not be seen as a failure, whatever the call nesting
                    import halmos.__main__ as hm

                    ckey = f"{key}:cont-flags"
                    if hm.is_global_fail_set(r.ex.context) and \
                            portfolio.solve(canon + [S.pc_of(r)], timeout=timeout).status != "unsat":
                        rc.violation("sevm-fail-flags", ckey, "continuing path after vm.assert is seen as a failure by "
                                                              "is_global_fail_set", {"sig": sem.sig, "depth": depth, "script": sname})
                    else:
                        rc.ok("sevm-fail-flags", ckey)
                if depth == 3 and sname == "none":
                    # the failing frame wrapped in its (real) caller frames: the recursion of is_global_fail_set
                    for r in fails[:1]:
                        bad = S.wrapped_fail_flags(r, conts[0] if conts else None)
                        wkey = f"{key}:wrapped-flags"
                        if bad:
                            rc.violation("sevm-fail-flags", wkey, "; ".join(bad), {"sig": sem.sig, "depth": depth})
                        else:
                            rc.ok("sevm-fail-flags", wkey)
                # observation only (DESIGN §3 row 6): does the continuing path carry the asserted condition?
                if sname == "none" and conts and may_fail and may_pass:
                    c = out["disj"]["M:aa"]
                    r2 = portfolio.solve(canon + [c, z3.Not(rel)], timeout=timeout)
                    if r2.status == "unsat":
                        stats["cont_carries_cond"] += 1
                    elif r2.status == "sat":
                        stats["cont_lacks_cond"] += 1
                        if stats["cont_example"] is None:
                            stats["cont_example"] = {"sig": sem.sig, "depth": depth,
                                                     "continuing_path_constraints": [str(x)[:120] for x in conts[0].conds],
                                                     "failing_path_constraints": [str(x)[:120] for r in fails[:1] for x in r.conds]}
    return stats


# ---------------------------------------------------------------------------
# part 4: vm.assume
# ---------------------------------------------------------------------------
X, Y = z3.BitVec("cd0", 256), z3.BitVec("cd1", 256)
LD_X, LD_Y = S.cdload(0), S.cdload(1)

# name -> (items leaving the bool word on the stack, the condition over X, Y, extra assumptions)
CONDS = {
    "x==5": (LD_X + [("PUSH", 5), "EQ"], X == bv(5), []),
    "x<y": (LD_Y + LD_X + ["LT"], z3.ULT(X, Y), []),
    "x s< y": (LD_Y + LD_X + ["SLT"], abi.slt(X, Y), []),
    "x==0": (LD_X + ["ISZERO"], X == bv(0), []),
    "x!=y": (LD_Y + LD_X + ["EQ", "ISZERO"], X != Y, []),
    "x>7&&y==x+1": (LD_X + [("PUSH", 7), "LT"] + LD_X + [("PUSH", 1), "ADD"] + LD_Y + ["EQ", "AND"],
                    z3.And(z3.UGT(X, bv(7)), Y == X + bv(1)), []),
    "raw-bool-x": (LD_X, X == bv(1), [z3.ULE(X, bv(1))]),
    "true": ([("PUSH", 1)], z3.BoolVal(True), []),
    "false": (["PUSH0"], z3.BoolVal(False), []),
    "x<x": (LD_X + LD_X + ["LT"], z3.BoolVal(False), []),
    "y==0": (LD_Y + ["ISZERO"], Y == bv(0), []),
    "y!=0": (LD_Y + ["ISZERO", "ISZERO"], Y != bv(0), []),
    "x==6": (LD_X + [("PUSH", 6), "EQ"], X == bv(6), []),
    "x<=y": (LD_Y + LD_X + ["GT", "ISZERO"], z3.ULE(X, Y), []),
}


def assume(cname: str) -> list:
    return S.vm_call_words(S.ASSUME_SEL, [CONDS[cname][0]])


def vm_assert(sig: str, a_items, b_items) -> list:
    return S.vm_call_words(selector_of(sig), [a_items, b_items])


def branch(gname: str, then_items: list, else_items: list, jump_on: bool, tag: str) -> list:
    """if g then .. else ..; jump_on=True: JUMPI on g to the then-block; False: JUMPI on !g to the else-block
    (the two layouts make halmos explore the two sides in opposite orders)"""
    g = CONDS[gname][0]
    if jump_on:
        return g + [("PUSHL", f"then{tag}"), "JUMPI"] + else_items + [("LABEL", f"then{tag}")] + then_items
    return g + ["ISZERO", ("PUSHL", f"else{tag}"), "JUMPI"] + then_items + [("LABEL", f"else{tag}")] + else_items


def assume_programs(tier: str) -> list[dict]:
    """each: name, code (addr -> bytes), spec (class -> (mode, formula)), assumptions"""
    P = []
    M1, M2 = S.ret_marker(0xA1), S.ret_marker(0xA2)

    def c(n):
        return CONDS[n][1]

    def asm_(n):
        return list(CONDS[n][2])

    simple = ["x==5", "x<y", "x s< y", "x==0", "x!=y", "x>7&&y==x+1", "raw-bool-x", "true", "false", "x<x"]
    for n in simple:
        # S1: assume(c); return M1
        P.append(dict(name=f"S1[{n}]", code={S.THIS: assume(n) + M1}, spec={"M:a1": ("exact", c(n))}, assumptions=asm_(n),
                      feature="drop" if n in ("false", "x<x") else "restrict"))
    guards = ["y==0", "x<y"] if tier == "quick" else ["y==0", "x<y", "x==0", "x!=y"]
    inner = ["x==5", "x s< y", "false", "x!=y"] if tier == "quick" else simple
    for g in guards:
        for n in inner:
            for jo in (True, False):
                # S2: if g { assume(c); return M1 } else { return M2 }
                P.append(dict(name=f"S2[g={g},c={n},jump_on_g={jo}]",
                              code={S.THIS: branch(g, assume(n) + M1, M2, jo, "a")},
                              spec={"M:a1": ("exact", z3.And(c(g), c(n))), "M:a2": ("exact", z3.Not(c(g)))},
                              assumptions=asm_(n) + asm_(g), feature="sibling"))
    # S3: the sibling program:  if (y == 0) { vm.assume(x == 5); return } vm.assertEq(x, 5)   (x re-read from calldata)
    for sig in ("assertEq(uint256,uint256)", "assertEq(bytes32,bytes32)", "assertEq(int256,int256)"):
        for jo in (True, False):
            for g, gneg in (("y==0", False), ("y!=0", True)):
                then_ = assume("x==5") + M1
                else_ = vm_assert(sig, LD_X, [("PUSH", 5)]) + M2
                if gneg:  # if (y != 0) { assert } else { assume }
                    items = branch(g, else_, then_, jo, "b")
                else:
                    items = branch(g, then_, else_, jo, "b")
                P.append(dict(name=f"S3[{sig},g={g},jump_on_g={jo}]", code={S.THIS: items},
                              spec={"M:a1": ("exact", z3.And(Y == bv(0), X == bv(5))),
                                    "FAIL": ("exact", z3.And(Y != bv(0), X != bv(5))),
                                    "M:a2": ("cover", z3.And(Y != bv(0), X == bv(5)))},
                              assumptions=[], feature="sibling-assert",
                              must_admit={"FAIL": {"cd0": 7, "cd1": 1}}))
    # S3b: the assumed equality is on the other operand order / another constant, assert is NotEq / Lt
    for jo in (True, False):
        then_ = assume("x==6") + M1
        else_ = vm_assert("assertNotEq(uint256,uint256)", LD_X, [("PUSH", 6)]) + M2
        P.append(dict(name=f"S3b[assertNotEq,jump_on_g={jo}]", code={S.THIS: branch("y==0", then_, else_, jo, "c")},
                      spec={"M:a1": ("exact", z3.And(Y == bv(0), X == bv(6))),
                            "FAIL": ("exact", z3.And(Y != bv(0), X == bv(6))),
                            "M:a2": ("cover", z3.And(Y != bv(0), X != bv(6)))},
                      assumptions=[], feature="sibling-assert", must_admit={"FAIL": {"cd0": 6, "cd1": 1}}))
        else_ = vm_assert("assertLt(uint256,uint256)", LD_X, [("PUSH", 6)]) + M2
        P.append(dict(name=f"S3b[assertLt,jump_on_g={jo}]", code={S.THIS: branch("y==0", then_, else_, jo, "d")},
                      spec={"M:a1": ("exact", z3.And(Y == bv(0), X == bv(6))),
                            "FAIL": ("exact", z3.And(Y != bv(0), z3.UGE(X, bv(6)))),
                            "M:a2": ("cover", z3.And(Y != bv(0), z3.ULT(X, bv(6))))},
                      assumptions=[], feature="sibling-assert", must_admit={"FAIL": {"cd0": 7, "cd1": 1}}))
    # S4: assume inside a nested call restricts the caller's continuation too
    for depth in (2, 3):
        for n in (["x==5", "x<y", "false"] if tier == "quick" else simple):
            code = S.chain_code(depth, assume(n) + ["STOP"], after=M1)
            P.append(dict(name=f"S4[depth={depth},c={n}]", code=code, spec={"M:a1": ("exact", c(n))}, assumptions=asm_(n),
                          feature="nested"))
    # S5: assume followed by assert on the same operands
    P.append(dict(name="S5[assume(x<y);assertLt]",
                  code={S.THIS: assume("x<y") + vm_assert("assertLt(uint256,uint256)", LD_X, LD_Y) + M1},
                  spec={"FAIL": ("exact", z3.BoolVal(False)), "M:a1": ("cover", z3.ULT(X, Y))}, assumptions=[],
                  feature="assume-assert"))
    P.append(dict(name="S5[assume(x<=y);assertLt]",
                  code={S.THIS: assume("x<=y") + vm_assert("assertLt(uint256,uint256)", LD_X, LD_Y) + M1},
                  spec={"FAIL": ("exact", X == Y), "M:a1": ("cover", z3.ULT(X, Y))}, assumptions=[],
                  feature="assume-assert"))
    P.append(dict(name="S5[assume(x s< y);assertLt(int)]",
                  code={S.THIS: assume("x s< y") + vm_assert("assertLt(int256,int256)", LD_X, LD_Y) + M1},
                  spec={"FAIL": ("exact", z3.BoolVal(False)), "M:a1": ("cover", abi.slt(X, Y))}, assumptions=[],
                  feature="assume-assert"))
    P.append(dict(name="S5[assume(x s< y);assertLt(uint)]",
                  code={S.THIS: assume("x s< y") + vm_assert("assertLt(uint256,uint256)", LD_X, LD_Y) + M1},
                  spec={"FAIL": ("exact", z3.And(abi.slt(X, Y), z3.UGE(X, Y))),
                        "M:a1": ("cover", z3.And(abi.slt(X, Y), z3.ULT(X, Y)))}, assumptions=[],
                  feature="assume-assert"))
    # the assertion is false on the whole remaining path (halmos' "trivially false" branch halts the path itself)
    P.append(dict(name="S5[assume(x!=y);assertEq]",
                  code={S.THIS: assume("x!=y") + vm_assert("assertEq(uint256,uint256)", LD_X, LD_Y) + M1},
                  spec={"FAIL": ("exact", X != Y), "M:a1": ("cover", z3.BoolVal(False))}, assumptions=[],
                  feature="assume-assert"))
    P.append(dict(name="S5[assume(x==5);assertNotEq(x,5)]",
                  code={S.THIS: assume("x==5") + vm_assert("assertNotEq(uint256,uint256)", LD_X, [("PUSH", 5)]) + M1},
                  spec={"FAIL": ("exact", X == bv(5)), "M:a1": ("cover", z3.BoolVal(False))}, assumptions=[],
                  feature="assume-assert"))
    # S6: two assumes compose; a later contradictory assume leaves no feasible path
    P.append(dict(name="S6[x<y;x==5]", code={S.THIS: assume("x<y") + assume("x==5") + M1},
                  spec={"M:a1": ("exact", z3.And(z3.ULT(X, Y), X == bv(5)))}, assumptions=[], feature="restrict"))
    P.append(dict(name="S6[x==5;x==6]", code={S.THIS: assume("x==5") + assume("x==6") + M1},
                  spec={"M:a1": ("exact", z3.BoolVal(False))}, assumptions=[], feature="drop"))
    from lib import asm

    for p in P:
        p["code"] = {a: (asm.assemble(c) if isinstance(c, list) else c) for a, c in p["code"].items()}
    return P


def check_assume_program(rc, prog: dict, timeout: float, scripts=("none", "all-unknown")) -> dict:
    stats = {"runs": 0, "paths": 0, "dropped_paths_ok": 0}
    cls = "sevm-assume"
    syms = [X, Y]
    words = [X, Y]
    for sname in scripts:
        script = S.SCRIPTS[sname]
        key = f"{prog['name']}:script={sname}"
        recs, fs = S.run_prog(prog["code"], S.mk_bytevec(S.SELECTOR, words), script)
        stats["runs"] += 1
        stats["paths"] += len(recs)

        def replay(model, script=script):
            return S.concrete_classes(prog["code"], S.SELECTOR, lambda m: [concretise(w, m, syms) for w in words], model,
                                      script)

        out = S.check_classes(rc, cls, key, recs, prog["spec"], prog["assumptions"], syms, timeout, replay=replay,
                              witness_extra={"program": prog["name"], "script": sname,
                                             "code": {hex(a): c.hex() for a, c in prog["code"].items()}})
        # the named witness of the task statement: the sibling's failing path must admit (x, y) = (7, 1)
        for k, m in prog.get("must_admit", {}).items():
            d = out["disj"].get(k, z3.BoolVal(False))
            v = portfolio.eval_model(d, m, syms)
            if z3.is_true(v):
                rc.ok(cls, f"{key}:{k}:admits-named-witness")
            elif z3.is_false(v):
                wit = {"program": prog["name"], "script": sname, "model": m, "class": k,
                       "halmos_paths": [{"class": S.classify(r), "constraints": [str(c)[:160] for c in r.conds]} for r in recs],
                       "code": {hex(a): c.hex() for a, c in prog["code"].items()}}
                try:
                    wit["concrete_run"] = replay(m)
                except Exception as e:
                    wit["concrete_run"] = f"exception {type(e).__name__}"
                rc.violation(cls, f"{key}:{k}:admits-named-witness",
                             f"no {k} path of {prog['name']} admits {m} although the program fails on it", wit)
            else:
                rc.inconc(cls, f"{key}:{k}:admits-named-witness", f"path condition does not evaluate on the witness: {v}")
        for r in out["groups"].get("FAIL", []):
            bad = S.fail_flags(r)
            if bad and portfolio.solve(prog["assumptions"] + [S.pc_of(r)], timeout=timeout).status != "unsat":
                rc.violation("sevm-fail-flags", key + ":flags", "failing vm.assert path is not seen as a failure: " + "; ".join(bad),
                             {"program": prog["name"], "flags": bad})
            else:
                rc.ok("sevm-fail-flags", key + ":flags")
        if prog["feature"] == "drop" and sname == "none" and not any(S.classify(r) == "M:a1" for r in recs):
            stats["dropped_paths_ok"] += 1
    return stats
