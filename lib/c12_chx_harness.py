"""Route P harness for C12: the head/tail offset arithmetic of the real `Calldata.encode_tuple` with symbolic item
sizes and static flags (pure int/list logic once `con` is kept out of z3).

Boundary wrap (harness process only): `halmos.calldata.con` is replaced by the identity so that offset words stay Python
ints; nothing else of halmos is touched.  Each function returns True iff the result equals the ABI specification
  enc(X) = head(X1)..head(Xk) tail(X1)..tail(Xk),  head(Xi) = enc(Xi) if static else enc(len(heads) + len(tail(X1..Xi-1)))
computed here independently.
"""

import halmos.calldata as _cd

_cd.con = lambda n, size_bits=256: n  # noqa: E731

from halmos.calldata import Calldata, EncodingResult  # noqa: E402

LAST_DETAIL = None


def _spec(sizes, statics):
    head_total = 0
    for s, st in zip(sizes, statics):
        head_total += s if st else 32
    heads, tails, pos = [], [], head_total
    for i, (s, st) in enumerate(zip(sizes, statics)):
        if st:
            heads.append(("d", i))
        else:
            heads.append(pos)
            tails.append(("d", i))
            pos += s
    return heads + tails, pos, all(statics)


def _run(sizes, statics):
    global LAST_DETAIL
    items = [EncodingResult([("d", i)], s, st) for i, (s, st) in enumerate(zip(sizes, statics))]
    r = Calldata(None, None).encode_tuple(items)
    data, size, static = _spec(sizes, statics)
    LAST_DETAIL = (r.data, r.size, r.static, data, size, static)
    return r.data == data and r.size == size and r.static == static


def tuple1(s0: int, t0: bool) -> bool:
    """
    pre: 0 <= s0 <= 1 << 20
    post: __return__
    """
    return _run([s0], [t0])


def tuple2(s0: int, s1: int, t0: bool, t1: bool) -> bool:
    """
    pre: 0 <= s0 <= 1 << 20
    pre: 0 <= s1 <= 1 << 20
    post: __return__
    """
    return _run([s0, s1], [t0, t1])


def tuple3(s0: int, s1: int, s2: int, t0: bool, t1: bool, t2: bool) -> bool:
    """
    pre: 0 <= s0 <= 1 << 20
    pre: 0 <= s1 <= 1 << 20
    pre: 0 <= s2 <= 1 << 20
    post: __return__
    """
    return _run([s0, s1, s2], [t0, t1, t2])


def tuple4(s0: int, s1: int, s2: int, s3: int, t0: bool, t1: bool, t2: bool, t3: bool) -> bool:
    """
    pre: 0 <= s0 <= 1 << 20
    pre: 0 <= s1 <= 1 << 20
    pre: 0 <= s2 <= 1 << 20
    pre: 0 <= s3 <= 1 << 20
    post: __return__
    """
    return _run([s0, s1, s2, s3], [t0, t1, t2, t3])
