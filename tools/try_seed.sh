#!/bin/bash
# usage: tools/try_seed.sh <patch.diff> <prop> [extra check args]; applies the patch to /repo, runs the quick check, reverts.
set -u
patch="$1"; prop="$2"; shift 2
cd /repo || exit 9
if ! git diff --quiet; then echo "repo dirty"; exit 9; fi
git apply "$patch" || { echo "patch does not apply"; exit 9; }
cd /verif
cp evidence/$prop.json /tmp/ev_$prop.bak 2>/dev/null
./check "$prop" --tier quick "$@" > /tmp/seed_$prop.log 2>&1
rc=$?
cp /tmp/ev_$prop.bak evidence/$prop.json 2>/dev/null
git -C /repo checkout -- .
echo "rc=$rc"; grep -E "^(VIOLATION|KNOWN|HARNESS)" /tmp/seed_$prop.log | head -5; grep -A1 "^VIOLATION" /tmp/seed_$prop.log | grep "class=" | head -3; tail -1 /tmp/seed_$prop.log
