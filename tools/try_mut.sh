#!/bin/bash
# usage: tools/try_mut.sh <patch.diff> <prop> [check args...]
# Applies the patch to a private copy of /repo/src (never touches /repo) and runs ./check <prop> against it through
# VERIF_REPO_SRC.  Evidence of the real tree is preserved.  Prints rc and the VIOLATION lines.
set -u
patch="$(readlink -f "$1")"; prop="$2"; shift 2
T=$(mktemp -d /tmp/trymut.XXXXXX)
mkdir -p "$T/src"; cp -r /repo/src/halmos "$T/src/halmos"
( cd "$T" && patch -s -p1 < "$patch" ) || { echo "patch does not apply"; rm -rf "$T"; exit 9; }
cd /verif
export VERIF_EVIDENCE_DIR="$T/evidence" VERIF_REPLAY_DIR="$T/replays"
VERIF_REPO_SRC="$T/src" ./check "$prop" "$@" > "$T/log" 2>&1
rc=$?
echo "rc=$rc"; grep -E "^(VIOLATION|KNOWN|HARNESS)" "$T/log" | head -5; grep -A1 "^VIOLATION" "$T/log" | grep "class=" | cut -c1-400 | head -3; tail -1 "$T/log"
rm -rf "$T"
exit $rc
