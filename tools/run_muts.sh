#!/bin/bash
# usage: tools/run_muts.sh <mutdir-prop> <check-prop> [check args]   e.g. tools/run_muts.sh C09 C09 --tier quick
# runs every /tmp/mut/<mutdir-prop>/m*/patch.diff (or /verif/seeded/<..>) against ./check <check-prop>; summary on stdout
src="$1"; prop="$2"; shift 2
base=/tmp/mut/$src; [ -d "$base" ] || base=/verif/seeded/$src
for d in "$base"/m*/; do
  m=$(basename "$d")
  res=$(/verif/tools/try_mut.sh "$d/patch.diff" "$prop" "$@" 2>&1)
  rc=$(echo "$res" | grep -o "^rc=[0-9]*" | head -1)
  echo "MUT $src/$m vs $prop: $rc :: $(echo "$res" | grep -m1 'class=' | cut -c1-200)"
done
