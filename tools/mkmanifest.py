#!/venv/bin/python
"""Regenerates MANIFEST.json from the table below (keeps the file valid at all times)."""
import json
import os

VERIF = os.path.dirname(os.path.dirname(os.path.abspath(__file__)))

CHECKS = {
    "C06": dict(
        category="proof",
        technique="SMT validity (z3/yices/cvc5 portfolio) of terms produced by the real SEVM/HalmosBitVec code vs. an "
                  "independent Yellow-Paper term; CrossHair for concrete fast paths",
        text="Every (opcode, operand-representation) cell is executed by the real SEVM on symbolic operands; the "
             "resulting term, with the exact abstraction definitions inlined, is proved equal to an independent "
             "Yellow-Paper term for all 2^256 operand values by an SMT portfolio (unsat = holds). Auxiliary constraints "
             "are proved valid; exceptions/time-outs of the engine are violations. Bounded in: which constants occupy "
             "concrete operand positions (boundary set B), widths 8/16 for the width-generic proofs.",
        note="Trusted: z3 4.12.6, yices 2.6.4, cvc5 1.0.3, lib/evmspec.py (self-checked z3-vs-python). EXP with symbolic "
             "exponent only up to congruence. A solver 'unknown' is reported as inconclusive, never as success.",
        design="C06",
    ),
}

NOT_APPLICABLE = {
}

NOT_YET = ["C01", "C02", "C03", "C04", "C05", "C07", "C08", "C09", "C10", "C11", "C12", "C13", "C14", "C15", "C16",
           "C17", "C18", "C19", "C20"]


def main():
    checks = []
    for pid, c in sorted(CHECKS.items()):
        checks.append({
            "property_id": pid,
            "quick_cmd": f"./check {pid} --tier quick",
            "thorough_cmd": f"./check {pid} --tier thorough",
            "evidence_file": f"/verif/evidence/{pid}.json",
            "replay_cmd_template": f"./check {pid} --replay {{path}}",
            "engine": "halmos-selfsmt",
            "level_claimed": {"category": c["category"], "text": c["text"], "design_ref": f"DESIGN.md §1 {c['design']}"},
            "level_note": c["note"],
            "technique": c["technique"],
        })
    na = [{"property_id": k, "reason": v} for k, v in sorted(NOT_APPLICABLE.items())]
    for pid in NOT_YET:
        if pid not in CHECKS and pid not in NOT_APPLICABLE:
            na.append({"property_id": pid, "reason": "check not built yet in this round (see DESIGN.md §5 build order); "
                                                     "not claimed until its quick check exists"})
    man = {
        "version": 1,
        "setup_cmd": "./setup.sh",
        "hooks": {
            "guard": "A16Z_HALMOS_VERIF",
            "enable": "export A16Z_HALMOS_VERIF=1 (set by ./check); no in-repo hooks are currently needed: all "
                      "instrumentation is done by wrapping at the boundary inside the harness process",
            "baseline_off_cmd": "cd /repo && /venv/bin/python -m pytest -ra -q -p no:cacheprovider --timeout=900 "
                                "--continue-on-collection-errors",
            "source_commits": [],
            "add_only": True,
        },
        "engines": [
            {"name": "halmos-selfsmt", "path": "/verif/check", "serves_properties": sorted(CHECKS),
             "kind_free_text": "the real halmos code is executed on symbolic inputs and emits z3 terms / path "
                               "conditions; obligations are discharged by a z3+yices+cvc5 portfolio against an "
                               "independent reference EVM (lib/refevm.py, lib/evmspec.py); CrossHair for pure-Python "
                               "paths; AST->SMT for small kernels"},
        ],
        "checks": checks,
        "not_applicable": na,
        "notes": "All checks rebuild their encoding from /repo's working tree on every run (halmos is imported from "
                 "/repo/src). Exit 0 = held / inconclusive-with-report, 1 = replayed violation, 2 = harness error.",
    }
    with open(os.path.join(VERIF, "MANIFEST.json"), "w") as f:
        json.dump(man, f, indent=1)
    print("MANIFEST.json:", len(checks), "checks,", len(na), "not_applicable")


if __name__ == "__main__":
    main()
