#!/bin/bash
# usage: tools/wave2.sh "C01 n1 C01" "C06 n2 C06" ...   -> appends to /tmp/mutres/wave3.txt
cd /verif
for x in "$@"; do set -- $x
  res=$(tools/try_mut.sh /tmp/mut/$1/$2/patch.diff $3 --tier quick 2>&1)
  echo "MUT $1/$2 vs $3: $(echo "$res" | grep -o '^rc=[0-9]*' | head -1) :: $(echo "$res" | grep -m1 'class=' | cut -c1-180)" >> /tmp/mutres/wave3.txt
  [ -d /verif/seeded/$1-$2 ] || tools/confirm_mut.sh $1 $2 | cut -c1-170 >> /tmp/mutres/wave3.txt
done
