#!/venv/bin/python
"""usage: tools/replay_prog.py <replay.json | program-name> [k=v ...]  -- concrete run of a generated program on both engines"""
import json, sys, os
sys.path.insert(0, os.path.dirname(os.path.dirname(os.path.abspath(__file__))))
from lib import families, progs, refevm, exact, bisim, asm
import z3

arg = sys.argv[1]
model = {}
if os.path.exists(arg):
    w = json.load(open(arg))["witness"]
    name, model = w["program"], {k: int(v, 16) if isinstance(v, str) else v for k, v in w["model"].items()}
else:
    name = arg
for kv in [a for a in sys.argv[2:] if "=" in a]:
    k, v = kv.split("=")
    model[k] = int(v, 0)
fam = name.split("#")[0]
base = name.split("#")[1]
seed = int(base.split(":")[-1].split("-")[0]) if base.split(":")[-1].split("-")[0].isdigit() else 0
if fam.startswith(("F4", "c08")):
    pl = families.programs_c08(seed, 400 if "--thorough" in sys.argv else 30, "quick")
elif fam == "c09":
    pl = families.specials_c09()
else:
    pl = families.programs(seed, 400 if "--thorough" in sys.argv else 40, "quick", only={fam})
p = [x for x in pl if x.name.split("#")[0] == fam and x.name.split("#")[1].split(":")[-1] == base.split(":")[-1]][0]
for a, c in p.contracts.items():
    print(hex(a), asm.disasm(c)[:3000]) if "-c" in sys.argv else None
inp0 = progs.Inputs(p)
full = progs.complete_model(model, inp0.names())
print("inputs", {k: hex(v) for k, v in full.items()})
inp = progs.Inputs(p, concrete=full)
sevm, recs, hd = progs.run_halmos(p, inp)
oracle = []
for r in recs:
    try:
        ca = progs.created_addresses(r)
    except Exception:
        ca = []
    if len(ca) > len(oracle):
        oracle = ca
VERBOSE = "-v" in sys.argv
allh = []
for i, (r, d) in enumerate(zip(recs, hd)):
    vals = None
    if d is not None:
        from lib.progcheck import interp_keccak
        vals = [refevm.conc(interp_keccak(z3.simplify(exact.inline(b)))) for b in d]
    n = bisim.normalize_pc(r.conds)
    sol = z3.Solver(); sol.set("timeout", 20000)
    for c in r.conds: sol.add(exact.inline(c))
    print(f"halmos path {i}: {bisim.halmos_kind(r)} {type(r.error).__name__} PC is {sol.check()}")
    for c in n.core:
        print("      core:", str(z3.simplify(exact.inline(c)))[:300].replace(chr(10), " "))
    if vals is not None:
        hx = bytes(v if v is not None else 0xEE for v in vals).hex()
        allh.append([hx[i:i + 64] for i in range(0, len(hx), 64)])
    else:
        allh.append(None)
ev, ends = progs.run_ref(p, inp, oracle=oracle)
for e in ends:
    vals = [refevm.conc(b) for b in e.data]
    hx = bytes(v if v is not None else 0xEE for v in vals).hex()
    rw = [hx[i:i + 64] for i in range(0, len(hx), 64)]
    print("ref:", e.kind, len(rw), "words")
    for i, hw in enumerate(allh):
        if hw is None:
            continue
        if len(hw) != len(rw):
            print(f"  vs halmos path {i}: length {len(hw)} vs {len(rw)}")
        for k, (a, b) in enumerate(zip(hw, rw)):
            if a != b:
                print(f"  vs halmos path {i}: word {k}: halmos {a} ref {b}")
