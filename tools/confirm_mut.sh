#!/bin/bash
# usage: tools/confirm_mut.sh <PROP> <mN>   -- confirms /tmp/mut/<PROP>/<mN> in a scratch worktree of /repo HEAD and,
# if (patch applies, suite 306 passed, demo FAILs with the change, PASSes without), keeps it as /verif/seeded/<PROP>-<mN>/
set -u
P="$1"; M="$2"; src=/tmp/mut/$P/$M; id="$P-$M"
wt=/tmp/wtc/$id; mkdir -p /tmp/wtc; rm -rf "$wt"
git -C /repo worktree add -q --detach "$wt" HEAD || { echo "$id: worktree failed"; exit 9; }
cleanup() { git -C /repo worktree remove --force "$wt" 2>/dev/null; }
cd "$wt"
if ! git apply --check "$src/patch.diff" 2>/dev/null; then
  if ! git apply --3way "$src/patch.diff" 2>/dev/null; then echo "$id: PATCH-DOES-NOT-APPLY"; cleanup; exit 3; fi
else git apply "$src/patch.diff"; fi
git diff HEAD > /tmp/wtc/$id.patch
suite=$(PYTHONPATH=$wt/src timeout 900 /venv/bin/python -m pytest -q -p no:cacheprovider --timeout=900 2>&1 | tail -1)
imp=$(PYTHONPATH=$wt/src /venv/bin/python -c "import halmos; print(halmos.__file__)" 2>/dev/null)
PYTHONPATH=$wt/src timeout 900 /venv/bin/python "$src/demo.py" > /tmp/wtc/$id.changed.log 2>&1; rc_changed=$?
git reset -q --hard; git clean -fdq
PYTHONPATH=$wt/src timeout 900 /venv/bin/python "$src/demo.py" > /tmp/wtc/$id.clean.log 2>&1; rc_clean=$?
cleanup
ok=no
if echo "$suite" | grep -q "306 passed" && [ $rc_changed -ne 0 ] && [ $rc_clean -eq 0 ]; then ok=yes; fi
echo "$id: suite=[$suite] demo_changed_rc=$rc_changed demo_clean_rc=$rc_clean import=$imp confirmed=$ok"
if [ $ok = yes ]; then
  d=/verif/seeded/$id; mkdir -p $d
  cp /tmp/wtc/$id.patch $d/patch.diff; cp $src/demo.py $d/demo.py
  /venv/bin/python - "$src/meta.json" "$d/meta.json" "$suite" $rc_changed $rc_clean <<'PY'
import json, sys
m = json.load(open(sys.argv[1]))
m["confirmed_by_verif"] = {"suite_with_change": sys.argv[3], "demo_with_change_rc": int(sys.argv[4]), "demo_without_change_rc": int(sys.argv[5]),
                           "how": "tools/confirm_mut.sh: scratch worktree of /repo HEAD, git apply, full pytest suite, demo.py with and without the change"}
json.dump(m, open(sys.argv[2], "w"), indent=1)
PY
fi
rm -f /tmp/wtc/$id.patch
