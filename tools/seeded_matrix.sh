#!/bin/bash
# usage: tools/seeded_matrix.sh [jobs] [ids...]   -> /tmp/mutres/matrix.txt: "<id> <check> rc=<n> <first violation class>"
# every kept seeded change is run against the quick tier of its own property's check (on a patched copy of src/)
cd /verif; mkdir -p /tmp/mutres
jobs=${1:-3}; shift
ids=${@:-$(ls seeded)}
one() { id=$1; prop=${id%%-*}
  res=$(tools/try_mut.sh seeded/$id/patch.diff $prop --tier quick 2>&1)
  echo "$id $prop $(echo "$res" | grep -o '^rc=[0-9]*' | head -1) $(echo "$res" | grep -m1 -o 'class=[^ ]* key=[^ ]*' | cut -c1-120)"; }
export -f one
printf "%s\n" $ids | xargs -P $jobs -I{} bash -c 'one {}' >> /tmp/mutres/matrix.txt
