#!/bin/bash
# usage: tools/run_thorough.sh C01 C02 ...  -- runs thorough tiers one after another; evidence goes to /tmp/thorough_ev
mkdir -p /tmp/thorough_ev /tmp/thorough_rp
cd /verif
for p in "$@"; do
  t0=$(date +%s)
  VERIF_EVIDENCE_DIR=/tmp/thorough_ev VERIF_REPLAY_DIR=/tmp/thorough_rp nice -n 5 ./check $p --tier thorough > /tmp/thorough_$p.log 2>&1; rc=$?
  t1=$(date +%s)
  echo "$p thorough rc=$rc wall=$((t1-t0))s :: $(grep -E '^(VIOLATION|HARNESS)' /tmp/thorough_$p.log | head -2 | tr '\n' ' ' | cut -c1-240) $(tail -1 /tmp/thorough_$p.log | cut -c1-170)" >> /tmp/thorough_summary.txt
done
