#!/bin/bash
# usage: tools/run_all_quick.sh [seed] [props...]  -- runs the quick tier of each listed (default: all in MANIFEST) check
seed="${1:-0}"; shift
props="$@"
[ -z "$props" ] && props=$(/venv/bin/python -c "import json; print(' '.join(c['property_id'] for c in json.load(open('/verif/MANIFEST.json'))['checks']))")
cd /verif
for p in $props; do
  t0=$(date +%s)
  VERIF_SEED=$seed ./check $p --tier quick > /tmp/allq_$p.log 2>&1; rc=$?
  t1=$(date +%s)
  echo "$p seed=$seed rc=$rc wall=$((t1-t0))s :: $(grep -E '^(VIOLATION|HARNESS)' /tmp/allq_$p.log | head -2 | tr '\n' ' ' | cut -c1-200) $(tail -1 /tmp/allq_$p.log | cut -c1-160)"
done
