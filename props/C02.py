"""C02 — no feasible behaviour is dropped (obligation O2, DESIGN §1).

For every reference path R_j of a generated program, `A ∧ RC_j ∧ ¬⋁_i PC_i°` must be unsat (no input is covered by
no halmos path), where PC_i° are the whole constraint sets of the paths the real SEVM reported with helper variables
eliminated.  The branching solver is additionally replaced by a nondeterministic stub that answers `unknown`
according to a fault script (none / always / every k-th / seeded random subsets) and under the configured
--solver-timeout-branching values; O2 must hold under every script.
"""

from __future__ import annotations

import copy
import os
import random
import sys

sys.path.insert(0, os.path.dirname(os.path.dirname(os.path.abspath(__file__))))

from lib import common, families, progcheck  # noqa: E402


def scripts(seed, tier):
    out = [("none", None), ("all-unknown", lambda k: True)]
    if tier == "thorough":
        out += [("even", lambda k: k % 2 == 0), ("odd", lambda k: k % 2 == 1)]
    nrand = 1 if tier == "quick" else 4
    for i in range(nrand):
        r = random.Random(f"script-{seed}-{i}")
        bits = [r.random() < 0.4 for _ in range(4096)]
        out.append((f"rand{i}", lambda k, bits=bits: bits[k % len(bits)]))
    if tier == "thorough":
        for j in range(6):
            out.append((f"only{j}", lambda k, j=j: k == j))
    return out


def main(run: common.Run):
    tier = run.tier
    n = 10 if tier == "quick" else 300
    run.bounds = {"programs_per_family": n, "solver_cap_s": 20 if tier == "quick" else 120,
                  "fault_scripts": [s for s, _ in scripts(run.seed, tier)],
                  "solver_timeout_branching": ["default(1ms)", "0 (unlimited)", "1000"]}
    run.functions_encoded = ["halmos.sevm.SEVM.run", "halmos.sevm.SEVM.jumpi", "halmos.sevm.Exec.check",
                             "halmos.sevm.Exec.quick_custom_check", "halmos.sevm.Exec.select",
                             "halmos.sevm.SEVM.resolve_address_alias", "halmos.sevm.SEVM.handle_insufficient_fund_case",
                             "halmos.sevm.Path.check (stubbed by fault scripts)"]
    run.assumptions = families.ASSUMPTIONS + [
        "the fault stub may answer `unknown` on any Path.check call (contract of a time-limited solver); it never lies",
        "inputs violating A2/A4 instances that halmos itself records on the path are outside the claim",
    ]
    only = set(run.args.only.split(",")) if run.args.only else None
    base = families.programs(run.seed, n, tier, only=only, c02=True)
    if not only or "c09" in only:
        base += [p for p in families.specials_c09() if "symbolic-target" in p.name or "write-after" in p.name]
    plist = []
    for sname, script in scripts(run.seed, tier):
        for p in base:
            q = copy.copy(p)
            q.name = p.name.replace("#", f"#{sname}:", 1) if script is not None else p.name
            q.script, q.script_name = script, sname
            plist.append(q)
    # branching-timeout configurations (no stub)
    for label, val in (("tb0", 0), ("tb1000", 1000)):
        for p in base[:: 2 if tier == "quick" else 1]:
            q = copy.copy(p)
            q.name = p.name.replace("#", f"#{label}:", 1)
            q.options = dict(p.options, solver_timeout_branching=val)
            q.script_name = label
            plist.append(q)
    total = progcheck.run_programs(run, plist, want=("O2",))
    run.extra.update(total)
    run.extra["rule"] = ("one O2 obligation per (program, fault script or configuration, reference path); the solver "
                         "decides that no input of that reference path escapes every reported path condition")
    if total.get("multi_path", 0) == 0 and not only:
        run.harness_error("vacuity: no program produced more than one halmos path")


if __name__ == "__main__":
    common.guarded_main("C02", "proof", main, generic_replay=True)
