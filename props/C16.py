"""C16 — the unsat-core cache never changes a verdict.

What is decided, and by what (all on the real halmos code of VERIF_REPO_SRC):

1. Run-time monitor + solver (lib/c16_mon.py, lib/c16_run.py).  Generated test contracts (lib/c16_gen.py: decision
   trees over calldata with conflicting condition groups, twin subtrees, long order cycles, value-bearing calls (a
   non-branching balance constraint on one sibling only), switch/vm.assume cases (conditions owned by one path); several test functions per contract, MANY Panic(1) leaves per function, infeasible for DIFFERENT reasons)
   run through the real `run_contract` with `cache_solver=True`.  The branch-feasibility check of path exploration is
   allowed to time out (`unsat` -> `unknown`, an environment behaviour halmos documents), so infeasible prefixes reach
   the assertion solver.  `check_unsat_cores`, the reply callback and `run_test` are wrapped in the harness process.
   For EVERY cache hit the short-circuited query, and the matching core's formulas as they stand in that query, are
   sent to lib/portfolio and must be `unsat`; every stored core must be jointly unsat at store time; every id of a
   stored core must denote the same formula (solver-decided equivalence) in every later query that mentions it
   (z3 recycles AST ids: the harness keeps no z3 object and forces gc.collect() every 4th branch check and before
   every query); an empty core must never be stored.  A flagged obligation is replayed on the real
   `solve_end_to_end` (crafted query: with the core in the cache -> `unsat` without solver call; empty cache -> the
   real solver says `sat`) before it is reported.
2. Transparency: every generated contract runs with the cache on and off in the same process (alternating order, several
   contracts per process): exit code, number of counterexamples, per-path solver verdicts and counterexample variable
   names (modulo uid suffix) must coincide per test function; a difference is re-run before it is reported.
3. Route P (lib/c16_chx_harness.py, CrossHair): `check_unsat_cores` == "some core is a subset of query.assertions"
   for symbolic ids/lengths (both directions, empty cores included), monotonicity, `parse_unsat_core` insensitive to
   a symbolic tail; plus `parse_unsat_core` on the REAL replies of yices, z3 and cvc5 for cores of 1..40 ids and on a
   layout grid (concrete grid: regex matching on symbolic strings is inconclusive under CrossHair -- stated).
4. Scripted stub solver (lib/c16_stub.py) as --solver-command: verdict/model from the real yices, but the stub picks
   WHICH valid core it reports (real / all ids / minimal / superset / with foreign ids of earlier queries / reversed /
   duplicated) and HOW (error line or not, one id per line, wrapped lines, extra blanks), or behaves like a back end
   without usable cores (`()`, no core line, garbage).  Each hit is again decided by the solver; the dimension explored
   by generated histories is the order/shape of replies and the path sequence.
"""

from __future__ import annotations

import json
import os
import shutil
import subprocess
import sys
import tempfile
import threading
import time

sys.path.insert(0, os.path.dirname(os.path.dirname(os.path.abspath(__file__))))

from lib import c16_mon, c16_run, c16_stub, chx, common  # noqa: E402

LIB = os.path.join(common.VERIF, "lib")
HARNESS = os.path.join(LIB, "c16_chx_harness.py")

CHX_QUICK = ["cuc_scalar_small", "cuc_true_needs_subset", "cuc_monotone", "puc_symbolic_tail"]
CHX_THOROUGH = CHX_QUICK + ["cuc_scalar", "cuc_int_lists", "cuc_str_lists", "puc_roundtrip"]


def wanted(run, group: str) -> bool:
    only = run.args.only
    if not only:
        return True
    return group in [t.strip() for t in only.split(",")]


# ---------------------------------------------------------------------------------------------------------------
# plan
# ---------------------------------------------------------------------------------------------------------------
def plan(tier: str, seed: int, nproc: int = 5) -> list:
    """items are dealt round-robin to the worker processes and the deadline cuts the tail, so the list is ordered by
    value: every family / solver / reply script appears early"""
    b = seed * 1000
    M, D, F = c16_stub.CORE_MODES, c16_stub.DEGENERATE, c16_stub.FORMATS
    stub_scripts = [
        (M, F),  # every valid choice, cycling
        (["empty", "real", "empty", "full"], ["err", "noerr"]),  # `()` first, then real cores
        (["real", "foreign", "superset"], ["multiline", "wrap"]),
        (["none", "garbage", "real", "minimal"], ["spaces", "err"]),
        (["minimal"], ["wrap"]),
        (["full", "reversed", "dup"], ["multiline"]),
        (["empty"], ["noerr"]),
        (M + D, F),
    ]
    items = []

    def add(fam, s, solver="yices", **kw):
        it = dict(fam=fam, seed=b + s, solver=solver, **kw)
        it["order"] = ("on", "off") if len(items) % 2 == 0 else ("off", "on")
        items.append(it)

    def stub(q, s, fam=None):
        modes, fmts = stub_scripts[q]
        add(fam or ("tree" if q % 3 else "twin"), 400 + 10 * q + s, solver=f"stub{q}", modes=modes, formats=fmts)

    rounds = 1 if tier == "quick" else 7
    # every worker process starts with a switch/vm.assume contract: many conditions owned by one path and many 1-id
    # cores -- the most sensitive probe for id recycling inside a test and for cores surviving into later tests
    for w in range(nproc):
        add("assume", 900 + w, kw={"cases": 12 + 4 * (w % 3), "extra": 3 + (w % 4)})
    # same-named contract pair: a contract whose assertion paths are all infeasible, then (same contract and function
    # names, different code) one whose assertion paths are all feasible
    for r in range(1 if tier == "quick" else 4):
        nm = f"C16_samename_{r}"
        add("assume", 950 + r, kw={"cases": 12, "extra": 3, "p_empty": 0.0, "name": nm},
            prelude=dict(fam="assume", seed=b + 950 + r, kw={"cases": 12, "extra": 3, "p_empty": 1.0, "name": nm}))
        items[-1]["order"] = ("on", "off")
    for r in range(rounds):
        o = 10 * r
        add("tree", o + 0)
        add("assume", o + 0, kw={"cases": 20, "extra": 6})
        add("tree", o + 1)
        add("twin", o + 0)
        add("valuecall", o)
        add("chain", o + 0, kw={"n": 24})
        stub(0, r)
        add("tree", o + 2)
        add("mixed", o + 0)
        stub(1, r)
        add("chain", o + 1, kw={"n": 30})
        add("valuecall", 50 + o)
        stub(2, r)
        add("tree", o + 3)
        add("assume", o + 1, kw={"cases": 16, "extra": 6})
        add("tree", 100 + o, threads=4)
        stub(3, r)
        add("tree", 200 + o, policy="half")
        add("twin", 300 + o, solver="z3")
        stub(4, r)
        add("tree", o + 4)
        add("twin", o + 1)
        stub(5, r)
        add("mixed", o + 1)
        add("chain", o + 2)
        add("tree", o + 5)
        add("twin", 100 + o, threads=4)
        if tier == "thorough":
            add("assume", o + 2, kw={"cases": 24, "extra": 8})
            add("assume", o + 3, threads=4)
            stub(6, r)
            stub(7, r)
            add("tree", 300 + o, solver="z3")
            add("tree", o + 6)
            add("tree", o + 7)
            add("tree", 210 + o, policy="half", threads=4)
            add("mixed", o + 2)
            add("chain", 50 + o, solver="stub_c", modes=["real", "full", "reversed"], formats=["wrap", "multiline"],
                kw={"n": 24})
    return items


# ---------------------------------------------------------------------------------------------------------------
# parse_unsat_core on real solver replies + layout grid
# ---------------------------------------------------------------------------------------------------------------
def core_query(n: int, base: int, stride: int):
    """n tracked assertions forming one order cycle v0<v1<...<v_{n-1}<v0 over 16-bit words: the only core is all of
    them (cheap for every back end)"""
    ids = [base + stride * i for i in range(n)]
    ls = ["(set-option :produce-unsat-cores true)", "(set-logic QF_AUFBV)"]
    ls += [f"(declare-fun v{k} () (_ BitVec 16))" for k in range(n)]
    ls += [f"(declare-fun |{i}| () Bool)" for i in ids]
    for k, i in enumerate(ids):
        ls.append(f"(assert (=> |{i}| (bvult v{k} v{(k + 1) % n})))")
    ls += [f"(assert (! |{i}| :named <{i}>))" for i in ids]
    ls += ["(check-sat)", "(get-model)", "(get-unsat-core)"]
    return "\n".join(ls) + "\n", [str(i) for i in ids]


class _Quiet:
    """halmos.solve with the logger captured (parse_unsat_core warns on every reply it cannot parse)"""

    @staticmethod
    def parse_unsat_core(raw):
        import halmos.solve as hs
        from lib import e2e

        with e2e.capture():
            return hs.parse_unsat_core(raw)


def parse_grid(run, tmp, tier):
    from lib import c16_chx_harness as H

    hs = _Quiet

    solvers = {"yices": ["/venv/bin/yices-smt2"], "z3": ["/venv/bin/z3"], "cvc5": [shutil.which("cvc5") or "cvc5"]}
    sizes = [1, 2, 3, 17, 18, 19, 24, 40] if tier == "quick" else [1, 2, 3, 5, 9, 16, 17, 18, 19, 20, 24, 33, 40, 64, 100]
    stats = {"real_replies": 0, "multi_line": 0, "none": 0}
    for n in sizes:
        for base, stride in ((1000, 7), (100000, 13)) if tier == "thorough" else ((41000, 7),):
            text, ids = core_query(n, base, stride)
            f = os.path.join(tmp, f"core_{n}_{base}.smt2")
            with open(f, "w") as g:
                g.write(text)
            for sname, cmd in solvers.items():
                if not os.path.exists(cmd[0]):
                    continue
                try:
                    raw = subprocess.run(cmd + [f], capture_output=True, text=True, timeout=60).stdout
                except subprocess.TimeoutExpired:
                    run.inconc("parse-real", f"{sname}/n={n}", "solver timed out")
                    continue
                if not raw.startswith("unsat"):
                    run.inconc("parse-real", f"{sname}/n={n}", f"solver said {raw[:20]!r}")
                    continue
                ind = c16_mon.independent_core(raw)
                got = hs.parse_unsat_core(raw)
                stats["real_replies"] += 1
                if ind is not None and "\n" in raw.strip()[raw.strip().rfind("("):]:
                    stats["multi_line"] += 1
                if ind is None or sorted(ind) != sorted(ids):
                    run.inconc("parse-real", f"{sname}/n={n}", f"reply has no usable core list ({raw[-80:]!r})")
                    continue
                if got is None:
                    stats["none"] += 1
                    run.ok("parse-real", f"{sname}/n={n}/not-parsed(no caching)")
                elif [str(x) for x in got] == ind:
                    run.ok("parse-real", f"{sname}/n={n}")
                else:
                    again = hs.parse_unsat_core(raw)
                    run.violation("parse-faithful", f"parse-faithful/{sname}/real-reply",
                                  f"parse_unsat_core returned {len(got)} of the {len(ind)} names the solver listed",
                                  {"kind": "parse", "raw": raw, "halmos": got, "again": again, "solver_listed": ind})
    # layout grid (the layouts the stub uses)
    for n in range(0, 5):
        ids = [12345 + 111 * q for q in range(n)]
        for style in range(4):
            for err in range(3):
                out = H._fmt(ids, style, err)
                got = hs.parse_unsat_core(out)
                if got == [str(i) for i in ids]:
                    run.ok("parse-layout", f"n={n}/style={style}/err={err}", nontrivial=n > 0)
                    stats["layouts_parsed"] = stats.get("layouts_parsed", 0) + 1
                elif got is None:
                    # not parsed = nothing is cached for this reply: no soundness issue (C16 is not about cache efficacy)
                    run.ok("parse-layout", f"n={n}/style={style}/err={err}/not-parsed(no caching)", nontrivial=False)
                else:
                    run.violation("parse-faithful", f"parse-faithful/layout/style={style}",
                                  f"layout style {style} err {err}: parsed {got}", {"kind": "parse", "raw": out,
                                                                                    "halmos": got, "solver_listed": [str(i) for i in ids]})
    # degenerate replies must not yield a non-empty list
    for raw in ("unsat\n", "unsat\n(error \"x\")\n", "unsat\n(<12> foo)\n", "unsat\n(error \"no (core)\")\n"):
        got = hs.parse_unsat_core(raw)
        if not got:
            run.ok("parse-layout", f"degenerate/{raw[6:18]!r}", nontrivial=False)
        else:
            run.violation("parse-faithful", "parse-faithful/degenerate", f"{raw!r} parsed as {got}",
                          {"kind": "parse", "raw": raw, "halmos": got, "solver_listed": None})
    if not stats.get("layouts_parsed"):
        run.inconc("parse-layout", "all", "no layout of the grid is parsed at all (cache never fed): grid vacuous")
    run.extra["parse_grid"] = stats



# ---------------------------------------------------------------------------------------------------------------
# exact id matching on the engine's own query objects
# ---------------------------------------------------------------------------------------------------------------
def _id_exact_worker(_=None):
    """the real Path.to_smt2() query of a path with many conditions (ids of different lengths), and the real
    check_unsat_cores: a core matches only through ids that ARE assertion ids of the query -- never through a digit string
    that merely occurs inside one, and never when one of its ids is missing"""
    import z3
    import halmos.solve as hs
    from halmos.sevm import Path
    from halmos.utils import create_solver
    from lib import e2e

    args = e2e.mk_args(cache_solver=True)
    keep = [z3.BitVec(f"pad{i}", 8) + i for i in range(1500)]  # push AST ids into the thousands
    path = Path(create_solver())
    x = z3.BitVec("qx", 256)
    for i in range(60):
        path.append(z3.ULT(x + i, 1000 + 7 * i))
        keep.append(z3.BitVec(f"pad2{i}", 8) * i)
    q = path.to_smt2(args)
    ids = q.assertions.split() if isinstance(q.assertions, str) else [str(a) for a in q.assertions]
    idset = set(ids)
    bad, n = [], 0
    for i in ids:
        subs = {i[a:b] for a in range(len(i)) for b in range(a + 1, len(i) + 1)} - idset
        for t in sorted(subs)[:12]:
            n += 1
            if hs.check_unsat_cores(q, [[t]]):
                bad.append(("substring", i, t))
            n += 1
            if hs.check_unsat_cores(q, [[ids[0], t]]):
                bad.append(("substring+real", i, t))
    for i in ids[:10]:
        n += 1
        if not hs.check_unsat_cores(q, [[i]]):
            bad.append(("own-id-missed", i, i))
    return {"n": n, "ids": len(ids), "bad": bad[:5], "nbad": len(bad), "lens": sorted({len(i) for i in ids})}


def id_exact(run):
    r = common.parallel_map(_id_exact_worker, [None], 1)[0]
    if isinstance(r, tuple) and r and r[0] == "error":
        run.harness_error("id-exact worker crashed: " + r[1].strip().splitlines()[-1])
        return
    if r["nbad"]:
        kind, i, t = r["bad"][0]
        again = common.parallel_map(_id_exact_worker, [None], 1)[0]
        if isinstance(again, dict) and again.get("nbad"):
            run.violation("core-id-exact", f"core-id-exact/{kind}",
                          f"check_unsat_cores on the engine's own query ({r['ids']} ids): the core [{t!r}] is reported as contained in the "
                          f"query although {t!r} is not one of its assertion ids (it occurs inside the id {i!r}): such a core answers a "
                          f"satisfiable query unsat", {"kind": kind, "id": i, "core": t, "examples": r["bad"]})
        else:
            run.inconc("core-id-exact", "all", "did not reproduce")
    else:
        run.ok("core-id-exact", f"{r['n']}-lookups", nontrivial=True)
    run.extra["id_exact"] = {k: r[k] for k in ("n", "ids", "lens")}

# ---------------------------------------------------------------------------------------------------------------
# Route P
# ---------------------------------------------------------------------------------------------------------------
def chx_part(run, tmp, tier, out):
    err = chx.ensure_venv()
    if err:
        out["error"] = err
        return
    names = CHX_QUICK if tier == "quick" else CHX_THOROUGH
    conds = chx.conditions(HARNESS)
    twin_file = chx.make_twin(HARNESS, tmp)
    twins = chx.conditions(twin_file)
    groups = []
    t_main = 120 if tier == "quick" else 420
    for n in names:
        c, t = conds[n], twins[n]
        c.timeout, t.timeout, t.twin = t_main, t_main, True
        groups.append([c, t])
    out["groups"] = groups
    out["verdicts"] = chx.run_many(groups, t_main, jobs=3 if tier == "quick" else 4, extra_path=[LIB])


def chx_report(run, out):
    if "error" in out:
        run.harness_error(f"CrossHair venv: {out['error']}")
        return
    for grp, vs in zip(out.get("groups", []), out.get("verdicts", [])):
        for c, v in zip(grp, vs):
            name = c.name
            if not c.twin:
                if v.status == "confirmed":
                    run.ok("chx", name)
                elif v.status == "counterexample":
                    rp = chx.replay(HARNESS, v.call, extra_path=[LIB]) if v.call else {"reproduced": False}
                    if rp.get("reproduced"):
                        run.violation("chx", f"chx/{name}", f"{name}: {v.call} -> {rp.get('detail') or rp.get('raised')}",
                                      {"kind": "chx", "call": v.call, "replay": rp, "crosshair": v.message})
                    else:
                        run.inconc("chx", name, f"CrossHair counterexample {v.call} did not reproduce natively")
                elif v.inconclusive:
                    run.inconc("chx", name, f"CrossHair: {v.message or v.status} after {v.elapsed}s")
                else:
                    run.harness_error(f"chx {name}: {v.message[:300]}")
                run.extra.setdefault("chx_seconds", {})[name] = v.elapsed
            else:
                if v.status == "counterexample":
                    rp = chx.replay(HARNESS, v.call, extra_path=[LIB]) if v.call else {"held": False}
                    if rp.get("held"):
                        run.ok("reachability", name)
                    else:
                        run.inconc("reachability", name, f"twin refuted by {v.call} but native run: {rp}")
                elif v.status == "confirmed":
                    run.harness_error(f"chx {name}: `post: False` was CONFIRMED (vacuous harness)")
                elif v.inconclusive:
                    run.inconc("reachability", name, f"twin: {v.message or v.status}")
                else:
                    run.harness_error(f"chx twin {name}: {v.message[:300]}")


# ---------------------------------------------------------------------------------------------------------------
# monitor self-test (reachability twin of the run-time monitor)
# ---------------------------------------------------------------------------------------------------------------
def twin_worker(job):
    """the monitor must flag a planted unsound cache: `any` instead of `all` inside check_unsat_cores (planted in THIS
    process only, through the wrapper) -- and an empty core appended by the harness"""
    import halmos.solve as hs

    c16_run.tune_malloc()
    rec = common.Recorder()
    res = {}
    real = hs.check_unsat_cores

    def any_version(query, unsat_cores):
        return any(any(c in query.assertions for c in core) for core in unsat_cores)

    for plant in ("any", "empty"):
        try:
            c16_mon.uninstall()
            if plant == "any":
                hs.check_unsat_cores = any_version
            else:
                def with_empty(query, unsat_cores, _real=real):
                    if unsat_cores and [] not in unsat_cores:
                        unsat_cores.append([])
                    return _real(query, unsat_cores)
                hs.check_unsat_cores = with_empty
            item = dict(fam="tree", seed=1, solver="yices", order=("on", "off"))
            summ = c16_run.do_item(rec, item, job["tmp"], 20.0)
            res[plant] = {"hits": summ.get("hits")}
        finally:
            c16_mon.uninstall()
            hs.check_unsat_cores = real
    flagged = [e for e in rec.events if e[0] in ("violation", "inconc") and e[1] in
               ("hit-unsat", "hit-core", "empty-core", "transparency")]
    return {"flagged": [(e[0], e[1], str(e[2])[:80]) for e in flagged], "res": res,
            "errors": [e for e in rec.events if e[0] == "harness_error"]}


# ---------------------------------------------------------------------------------------------------------------
def do_replay(run, path):
    with open(path) as f:
        blob = json.load(f)
    w = blob["witness"]
    if w.get("kind") == "chx":
        rp = chx.replay(HARNESS, w["call"], extra_path=[LIB])
        if rp.get("reproduced"):
            run.violation(blob["class"], blob["key"], blob["what"], w)
        else:
            run.ok("replay", "not-reproduced")
        return
    if w.get("kind") == "parse":
        import halmos.solve as hs

        got = hs.parse_unsat_core(w["raw"])
        if got and w.get("solver_listed") != [str(x) for x in got]:
            run.violation(blob["class"], blob["key"], blob["what"], w)
        else:
            run.ok("replay", "not-reproduced")
        return
    item = w.get("item")
    if not item:
        run.harness_error("replay file has no item")
        return
    item["order"] = tuple(item.get("order", ("on", "off")))
    tmp = tempfile.mkdtemp(prefix="c16_")
    try:
        out = c16_run.worker(dict(wid=0, items=[item], deadline=time.time() + 1200, tmp=tmp))
        common.replay_events(run, out["events"])
        if not run.violations:
            run.ok("replay", "not-reproduced")
    finally:
        shutil.rmtree(tmp, ignore_errors=True)


def main(run):
    tier = run.tier
    if run.args.replay:
        do_replay(run, run.args.replay)
        return
    tmp = tempfile.mkdtemp(prefix="c16_")
    os.environ["VERIF_TMP"] = tmp
    t0 = time.time()
    try:
        chx_out: dict = {}
        th = None
        pool = tw = res_async = None
        if wanted(run, "monitor"):
            # fork the workers BEFORE any thread exists in this process
            nproc = min(run.args.jobs, 5 if tier == "quick" else 8)
            items = plan(tier, run.seed, nproc)
            budget = 140 if tier == "quick" else 1500
            deadline = t0 + budget
            jobs = [dict(wid=w, items=items[w::nproc], deadline=deadline, tmp=tmp, tier=tier, seed=run.seed,
                         timeout=20.0 if tier == "quick" else 60.0) for w in range(nproc)]
            import multiprocessing as mp

            pool = mp.get_context("fork").Pool(processes=nproc + 1)
            tw = pool.apply_async(twin_worker, (dict(tmp=tmp),))
            res_async = pool.starmap_async(common._guard, [(c16_run.worker, j) for j in jobs], chunksize=1)
        if wanted(run, "chx"):
            th = threading.Thread(target=chx_part, args=(run, tmp, tier, chx_out), daemon=True)
            th.start()
        if wanted(run, "grid"):
            parse_grid(run, tmp, tier)
            id_exact(run)
        sums = []
        if pool is not None:
            try:
                results = res_async.get(timeout=budget + 900)
                try:
                    twin = tw.get(timeout=600)
                except Exception as e:  # noqa: BLE001
                    twin = {"flagged": [], "errors": [repr(e)], "res": {}}
            finally:
                pool.terminate()
                pool.join()
            done = planned = 0
            for r in results:
                if isinstance(r, tuple) and r and r[0] == "error":
                    run.harness_error(f"worker crashed: {r[1][-400:]}")
                    continue
                common.replay_events(run, r["events"])
                sums += r["summaries"]
                done += r["done"]
                planned += r["planned"]
            # ---- vacuity guards ----
            kinds = {f[1] for f in twin["flagged"]}
            if {"hit-unsat", "empty-core"} <= kinds or ({"hit-core", "empty-core"} <= kinds):
                run.ok("reachability", "monitor-flags-planted-any-and-empty-core")
            else:
                run.harness_error(f"monitor self-test: planted unsound cache was not flagged ({twin})")
            tot = lambda k: sum(s.get(k, 0) or 0 for s in sums)  # noqa: E731
            cs = [n for s in sums for n in s.get("core_sizes", [])]
            hs_ = [n for s in sums for n in s.get("hit_core_sizes", [])]
            stub_modes = sorted({m for s in sums for m in s.get("stub_log", [])})
            run.extra["monitor"] = {
                "contracts_done": done, "contracts_planned": planned, "test_functions": tot("fns"),
                "cache_checks": tot("checks"), "cache_hits": tot("hits"), "cores_stored": tot("stores"),
                "stored_core_sizes": {str(n): cs.count(n) for n in sorted(set(cs))},
                "hit_core_sizes": {str(n): hs_.count(n) for n in sorted(set(hs_))},
                "multi_line_core_replies": tot("multi_line_cores"), "empty_core_replies": tot("empty_replies"),
                "unparsed_core_replies": tot("none_cores"), "foreign_ids_in_stored_cores": tot("foreign_ids"),
                "id_rebinding_events": tot("rebound"), "max_cores_visible_at_a_check": max([s.get("max_visible", 0) for s in sums] or [0]),
                "branch_checks_timed_out": sum((s.get("branch_on") or {}).get("downgraded", 0) for s in sums),
                "forced_gc_collections": sum((s.get("branch_on") or {}).get("gc_calls", 0) + (s.get("branch_off") or {}).get("gc_calls", 0) for s in sums),
                "stub_reply_kinds": stub_modes, "by_solver": {k: sum(1 for s in sums if s.get("solver") == k) for k in ("yices", "z3", "stub")},
                "monitor_selftest": twin["flagged"][:6],
            }
            if tot("hits") == 0 or tot("stores") == 0:
                run.harness_error("vacuous: no cache hit / no stored core in any generated run")
            if done < min(8, planned):
                run.harness_error(f"only {done} of {planned} contracts ran before the deadline")
            if not any(n >= 3 for n in cs):
                run.harness_error("vacuous: no stored core with >= 3 ids")
            for s in sums[:6]:
                run.sample({k: s.get(k) for k in ("tag", "order", "checks", "hits", "core_sizes", "desc")})
        if th is not None:
            th.join(timeout=(240 if tier == "quick" else 2400) - min(time.time() - t0, 200))
            if th.is_alive():
                run.inconc("chx", "all", "CrossHair conditions still running at the deadline")
            else:
                chx_report(run, chx_out)
    finally:
        shutil.rmtree(tmp, ignore_errors=True)

    run.bounds = {
        "programs": "generated test contracts of families tree (conflict groups: range, successor, order cycle, parity, "
                    "linear sum, signed/unsigned, shift), twin, chain (order cycles of 6..30 conditions over distinct "
                    "calldata words), valuecall, assume (vm.assume conditions owned by one path, 1-id cores), mixed; 1-3 test functions per contract, <= ~16 Panic leaves "
                    "per function; seeds listed by VERIF_SEED",
        "histories": "the path/query sequences of the contracts actually run (see monitor.contracts_done), cache on and "
                     "off in alternating order, several contracts per process; solver threads 1 (deterministic reply "
                     "order) and 4 (racing); branching time-out policy all / seeded half",
        "solvers": "yices-smt2 (main), z3 binary, scripted stub (verdicts from yices; core choice real/full/minimal/"
                   "superset/foreign/reversed/dup; degenerate replies (), none, garbage; 5 layouts)",
        "gc": "gc.collect() every 4th branch check, before every query, between contracts; harness keeps no z3 object",
        "crosshair": "check_unsat_cores: <= 3 assertions, 2 cores of <= 2 ids (ints), symbolic lengths; "
                     "parse_unsat_core: symbolic tail of <= 3 chars; real replies for cores of 1..40 (thorough 100) ids",
        "not_covered": "z3's id allocator and Python's collector are not symbolic: id recycling is provoked, not "
                       "enumerated; invariant tests (frontier states) are not generated; the refinement re-query path "
                       "(f_evm_* models) is not exercised",
    }
    run.functions_encoded = ["halmos.solve.check_unsat_cores", "halmos.solve.parse_unsat_core", "halmos.solve.dump",
                             "halmos.solve.solve_end_to_end", "halmos.solve.solve_low_level",
                             "halmos.solve.FunctionContext.append_unsat_core",
                             "halmos.__main__.CounterexampleHandler._solve_end_to_end_callback",
                             "halmos.__main__.CounterexampleHandler.handle_assertion_violation",
                             "halmos.__main__.run_test", "halmos.sevm.Path.to_smt2"]
    run.assumptions = [
        "the branch-feasibility solver may answer `unknown` instead of `unsat` (time-out); modelled by wrapping Path.check in the harness",
        "solvers return valid unsat cores (the stub only chooses among valid cores or returns no usable core)",
        "transparency compares per-path verdicts, exit codes, counterexample counts and variable names; concrete model values may legitimately differ between the two query texts",
    ]
    run.extra["rule"] = ("one obligation = one portfolio query (hit-unsat, hit-core, store-valid, id-stable equivalences), one "
                         "CrossHair condition, one on/off comparison of a test function (transparency) or one parsed solver "
                         "reply; distinct = distinct (class,key) pairs")
    run.extra["explanation"] = ("each cache hit and each stored core is decided by the solver portfolio on the formulas re-parsed "
                                "from halmos' own query text; the history dimension (which paths, in which order, with which "
                                "replies, with which reclamations) is explored by generated runs")


if __name__ == "__main__":
    common.guarded_main("C16", "proof", main)
