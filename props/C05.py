"""C05 — verdict aggregation is fail-safe and independent of solver timing.

Three groups of obligations, all on the halmos source of VERIF_REPO_SRC:

1. Route A (lib/c05_cascade.py): the `if counter["sat"] > 0 ... else PASS` cascade of `run_test` and the exit-code
   arithmetic of `_main` are read from the AST at run time and translated to z3 integer terms.  z3 decides, for ALL
   non-negative counts, that the cascade equals the specification table (FAIL > ERROR > TIMEOUT > STUCK > REVERT_ALL >
   PASS; PASS iff sat=err=unknown=stuck=0 and normal>0), that the printed label follows the same table, that with one
   sat result nothing else matters (what --early-exit changes), and -- by induction over the contract loop -- that the
   process exit code is non-zero iff some selected test did not pass.  Order independence is structural: the
   translator only accepts reads of Counter values / len(stuck) / normal, the Counter being built from the multiset
   of `str(m.result)`.  Unrecognised AST shape => inconclusive.  Counterexamples are replayed on the real
   run_test / _main (scripted stub solver) before they may become violations.
2. Route P (CrossHair, lib/c05_chx_harness.py): the real SolverOutput.from_result / from_error with symbolic stdout
   (<= 8 characters; thorough also first line <= 7 + tail <= 4), stderr and return code: unsat only for an exact first line "unsat", sat only for
   "sat...", unknown only for "unknown", everything else "err" carrying stderr; from_error is always "err".
   Each condition has a reachability twin; counterexamples are replayed under /venv/bin/python.
3. The real run_test / run_contract / _main with a SCRIPTED STUB SOLVER (lib/c05_e2e.py): hand-assembled contracts
   whose test function has k paths with assigned outcomes {success, revert, Panic(1), fail flag, stuck}; the stub
   replies per query {sat+model, sat+abstract model, unsat, unknown, sleep past the timeout, garbage, empty, exit 3}
   with delays forcing both completion orders; crossed with --early-exit / --cache-solver.  The observed
   TestResult.exitcode / printed label / MainResult.exitcode must equal the function proved in (1) applied to the
   multiset of scripted replies.  A mismatch is re-run (and, for --early-exit, re-run under a forced preemption at
   the stuck-path confirmation) before it may become a violation.  This validates the translator and the glue the
   translator does not see; the universal claim is (1).
"""

from __future__ import annotations

import json
import os
import random
import shutil
import sys
import tempfile
import threading
import time
import traceback

sys.path.insert(0, os.path.dirname(os.path.dirname(os.path.abspath(__file__))))

import z3  # noqa: E402

from lib import c05_cascade as CC  # noqa: E402
from lib import c05_e2e as CE  # noqa: E402
from lib import chx, common  # noqa: E402

# testing aid: point the known-findings list somewhere else (the committed file is never written)
if os.environ.get("VERIF_KNOWN_FINDINGS"):
    common.KNOWN_FINDINGS = os.environ["VERIF_KNOWN_FINDINGS"]

HARNESS = os.path.join(common.VERIF, "lib", "c05_chx_harness.py")
KEY_SHUTDOWN = "early-exit/stuck-confirmation/ShutdownError"

CHX_QUICK = ["unsat_only_exact_8", "sat_only_prefix_8", "unknown_only_exact_8", "non_unsat_cache_8",
             "err_else_8", "unsat_tail_6", "from_error_is_err", "from_error_default_rc"]
CHX_THOROUGH = CHX_QUICK + ["err_keeps_stderr_8", "classify_8", "head_tail_4"]
CHX_REACH = ["reach_unsat", "reach_sat", "reach_unknown", "reach_err_nonempty"]
CHX_COST = {"classify_8": 150, "head_tail_4": 105, "err_else_8": 22,
            "err_keeps_stderr_8": 65, "non_unsat_cache_8": 45, "unsat_only_exact_8": 28, "sat_only_prefix_8": 25,
            "unknown_only_exact_8": 27, "unsat_tail_6": 6}


def wanted(run, group: str) -> bool:
    only = run.args.only
    if not only:
        return True
    return group in [t.strip() for t in only.split(",")]


# =====================================================================================================================
# 1. Route A
# =====================================================================================================================
def _check(constraints, timeout_ms=20000):
    s = z3.Solver()
    s.set("timeout", timeout_ms)
    s.add(*constraints)
    t0 = time.time()
    r = s.check()
    return r, (s.model() if r == z3.sat else None), time.time() - t0


def _model_counts(model, inputs) -> dict:
    return {k: model.eval(v, model_completion=True).as_long() for k, v in inputs.items()}


def counts_to_scenario(counts: dict, tag: str) -> dict | None:
    """a concrete test function realising the given counts (used to replay a Route A counterexample on run_test)"""
    plan = ([("panic", ("sat_model", None))] * counts.get("sat", 0) + [("panic", ("garbage", None))] * counts.get("err", 0)
            + [("failflag", ("unknown", None))] * counts.get("unknown", 0) + [("panic", ("unsat", None))] * counts.get("unsat", 0)
            + [("stuck", ("unknown", None))] * counts.get("stuck", 0) + [("success", None)] * counts.get("normal", 0))
    if not plan:
        plan = [("revert", None)]
    if len(plan) > 12:
        return None
    return {"id": f"replay/{tag}", "outcomes": tuple(p[0] for p in plan), "replies": [p[1] for p in plan],
            "early_exit": False, "cache_solver": False}


def route_a(run, pool_submit):
    """returns (cascade|None, mainarith|None); pool_submit(kind, scenario) -> observation (synchronous)"""
    cls = "A-cascade"
    casc = None
    try:
        tree, src = CC.load_tree()
        casc = CC.extract_cascade(tree, src)
    except CC.Unrecognised as e:
        run.inconc(cls, "extract", f"run_test cascade not recognised: {e}")
    except Exception as e:  # noqa: BLE001
        run.harness_error(f"cascade extraction crashed: {type(e).__name__}: {e}")
    if casc is not None:
        run.functions_encoded.append(f"halmos.__main__.run_test lines {casc.lineno}-{casc.end_lineno} (verdict cascade)")
        run.extra["cascade_term"] = str(casc.term).replace("\n", " ")
        run.extra["cascade_reads"] = casc.reads
        run.ok("A-structure", "cascade reads only Counter values, len(stuck) and normal; Counter is built from the "
               "multiset of str(m.result); exitcode is not rebound before TestResult(...)")
        i, nn = casc.inputs, casc.nonneg
        try:
            spec = CC.spec_exitcode(i, casc.enums)
        except CC.Unrecognised as e:
            run.inconc(cls, "spec", str(e))
            spec = None
        E = casc.enums
        if spec is not None:
            if len(set(E[n] for n in CC.SPEC_ORDER)) != len(CC.SPEC_ORDER):
                run.inconc(cls, "enum-distinct", f"Exitcode values are not pairwise distinct: {E}")
            obligations = [
                ("equals-spec-table", [casc.term != spec]),
                ("pass-iff", [(casc.term == E["PASS"]) != z3.And(i["sat"] == 0, i["err"] == 0, i["unknown"] == 0,
                                                                 i["stuck"] == 0, i["normal"] > 0)]),
                ("sat-beats-all", [i["sat"] > 0, casc.term != E["COUNTEREXAMPLE"]]),
                ("err-beats-timeout", [i["sat"] == 0, i["err"] > 0, casc.term != E["EXCEPTION"]]),
                ("timeout-beats-stuck", [i["sat"] == 0, i["err"] == 0, i["unknown"] > 0, casc.term != E["TIMEOUT"]]),
                ("stuck-never-pass", [i["stuck"] > 0, casc.term == E["PASS"]]),
                ("revert-all-never-pass", [i["normal"] == 0, casc.term == E["PASS"]]),
                ("unsat-count-irrelevant", None),
                ("early-exit-invariance", None),
            ]
            for key, neg in obligations:
                if key == "unsat-count-irrelevant":
                    u2 = z3.Int("unsat'")
                    t2 = z3.substitute(casc.term, (i["unsat"], u2))
                    neg = [u2 >= 0, t2 != casc.term]
                elif key == "early-exit-invariance":
                    # after a valid counterexample the executor is shut down: later results become "err", paths are
                    # not explored any more.  With sat >= 1 no other count may matter.
                    prim = {k: z3.Int(k + "'") for k in i}
                    t2 = z3.substitute(casc.term, *[(i[k], prim[k]) for k in i])
                    neg = [i["sat"] >= 1, prim["sat"] >= 1] + [v >= 0 for v in prim.values()] + [t2 != casc.term]
                r, m, dt = _check(nn + neg)
                run.solver_time += dt
                run.backend_wins["z3"] = run.backend_wins.get("z3", 0) + 1
                if r == z3.unsat:
                    run.ok(cls, key)
                elif r == z3.unknown:
                    run.inconc(cls, key, "z3 unknown")
                else:
                    # minimise the witness a little so that it can be realised by a small contract
                    for bound in (2, 4, 8):
                        r2, m2, _ = _check(nn + neg + [sum(i.values()) <= bound])
                        if r2 == z3.sat:
                            m = m2
                            break
                    counts = _model_counts(m, i)
                    _replay_cascade_cex(run, cls, key, counts, casc, pool_submit)
            # labels
            if casc.label is not None:
                r, m, dt = _check(nn + [casc.label != CC.spec_label(i)])
                if r == z3.unsat:
                    run.ok("A-label", "label-equals-spec-table")
                elif r == z3.sat:
                    for bound in (2, 4, 8):
                        r2, m2, _ = _check(nn + [casc.label != CC.spec_label(i), sum(i.values()) <= bound])
                        if r2 == z3.sat:
                            m = m2
                            break
                    _replay_cascade_cex(run, "A-label", "label-equals-spec-table", _model_counts(m, i), casc,
                                        pool_submit, label=True)
                else:
                    run.inconc("A-label", "label-equals-spec-table", "z3 unknown")
            else:
                run.inconc("A-label", "label-equals-spec-table", casc.label_note)
            # vacuity: every verdict of the table is reachable in the extracted function
            reach = 0
            for n in CC.SPEC_ORDER:
                r, _, _ = _check(nn + [casc.term == E[n]])
                if r == z3.sat:
                    reach += 1
                else:
                    run.harness_error(f"extracted cascade can never yield {n}: translation is degenerate")
            run.extra["cascade_verdicts_reachable"] = reach

    # ---- _main -----------------------------------------------------------------------------------------------------
    cls = "A-exitcode"
    ma = None
    try:
        tree, src = CC.load_tree()
        ma = CC.extract_main(tree, src)
    except CC.Unrecognised as e:
        run.inconc(cls, "extract", f"_main exit-code arithmetic not recognised: {e}")
    except Exception as e:  # noqa: BLE001
        run.harness_error(f"_main extraction crashed: {type(e).__name__}: {e}")
    if ma is not None:
        run.functions_encoded.append("halmos.__main__._main (num_passed/num_failed/total_* arithmetic, exit code)")
        run.extra["main_step"] = {k: str(v) for k, v in ma.step.items()}
        run.extra["main_exit_term"] = str(ma.exit_term).replace("\n", " ")
        tf = ma.pre["total_failed"]
        bad = z3.Bool("some_selected_test_did_not_pass")
        nf, nr, np_ = ma.per["num_found"], ma.per["n_results"], ma.per["num_passed"]
        per_ok = [np_ >= 0, np_ <= nr, nr <= nf]

        def inv(t, b):
            return z3.And(t >= 0, (t > 0) == b)

        tf1 = ma.step["total_failed"]
        bad1 = z3.Or(bad, np_ < nf)
        obligations = [
            ("base", [z3.Not(inv(ma.init["total_failed"], z3.BoolVal(False)))], None),
            ("step", [inv(tf, bad)] + per_ok + [z3.Not(inv(tf1, bad1))], "step"),
            ("final", [inv(tf, bad), (ma.exit_term != 0) != bad], None),
            ("found-passed-bookkeeping", [ma.step["total_found"] != ma.pre["total_found"] + nf], None),
        ]
        for key, neg, kind in obligations:
            r, m, dt = _check(neg)
            run.solver_time += dt
            if r == z3.unsat:
                run.ok(cls, key)
            elif r == z3.unknown:
                run.inconc(cls, key, "z3 unknown")
            else:
                _replay_main_cex(run, cls, key, ma, neg, pool_submit)
        for n in ma.notes:
            run.assumptions.append(n)
    return casc, ma


_A_SEEN: set = set()


def _replay_cascade_cex(run, cls, key, counts, casc, pool_submit, label=False):
    """z3 found counts on which the extracted cascade differs from the table: run the real run_test on a contract that
    realises these counts and compare with the table"""
    sc = counts_to_scenario(counts, key)
    spec_cls = _spec_class_py(counts)
    want_code = casc.enums[spec_cls]
    want_label = CC.SPEC_LABEL[spec_cls]
    if sc is None:
        run.inconc(cls, key, f"counterexample {counts} too large to realise as a contract")
        return
    obs = pool_submit("e2e", sc)
    got = obs.get("label") if label else obs.get("exitcode")
    want = want_label if label else want_code
    w = {"kind": "cascade", "counts": counts, "scenario": _jsonable(sc), "observed": _slim(obs),
         "expected_by_table": {"class": spec_cls, "exitcode": want_code, "label": want_label}, "label": label}
    if obs.get("error") or obs.get("slow"):
        run.inconc(cls, key, f"replay of {counts} crashed or was disturbed by load: {str(obs.get('error') or obs.get('slow'))[-200:]}")
    elif got != want:
        vkey = f"cascade/{spec_cls}-reported-as-{got}"
        if vkey in _A_SEEN and run.match_known(vkey) is None:
            c = run.cls(cls)
            c["obligations"] += 1
            c["violations"] += 1
            run.obligations += 1
            return
        _A_SEEN.add(vkey)
        run.violation(cls, vkey, f"run_test on a test with result counts {counts} reports {got}; the precedence table "
                      f"requires {want} ({spec_cls})", w)
    else:
        run.harness_error(f"{cls}/{key}: z3 counterexample {counts} did not reproduce on the real run_test "
                          f"(observed {got}): translator and code disagree")


def _spec_class_py(c: dict) -> str:
    if c.get("sat", 0) > 0:
        return "COUNTEREXAMPLE"
    if c.get("err", 0) > 0:
        return "EXCEPTION"
    if c.get("unknown", 0) > 0:
        return "TIMEOUT"
    if c.get("stuck", 0) > 0:
        return "STUCK"
    if c.get("normal", 0) == 0:
        return "REVERT_ALL"
    return "PASS"


def _replay_main_cex(run, cls, key, ma, neg, pool_submit):
    """a counterexample to base/step/final: look for one that starts in the initial state and is realisable by
    contracts (results for all selected tests, or none because setUp failed), then run the real _main"""
    nf, nr, np_ = ma.per["num_found"], ma.per["n_results"], ma.per["num_passed"]
    extra = [ma.pre[k] == ma.init[k] for k in ma.pre] + [z3.Or(nr == 0, nr == nf), nf >= 1, nf <= 3,
                                                        z3.Not(z3.Bool("some_selected_test_did_not_pass"))]
    r, m, _ = _check(neg + extra)
    if r != z3.sat:
        run.inconc(cls, key, "counterexample to induction exists but none starts in the initial state with a "
                   "realisable contract (possibly unreachable state): not replayable")
        return
    vals = {k: m.eval(v, model_completion=True).as_long() for k, v in ma.per.items()}
    n_found, n_res, n_pass = vals["num_found"], vals["n_results"], vals["num_passed"]
    tests = []
    for t in range(n_found):
        if t < n_pass:
            tests.append((("success",), [None]))
        else:
            tests.append((("panic",), [("sat_model", None)]))
    contract = {"name": "C05A", "setup": "revert" if (n_res == 0 and n_found > 0) else "ok", "tests": tests}
    if n_res == 0:
        contract["tests"] = [(("success",), [None])] * n_found
    sc = {"id": f"replay/main/{key}", "contracts": [contract]}
    obs = pool_submit("main", sc)
    some_not_pass = (n_res == 0) or (n_pass < n_found)
    got = obs.get("main_exit")
    w = {"kind": "main", "values": vals, "scenario": _jsonable(sc), "observed": _slim(obs),
         "some_selected_test_did_not_pass": some_not_pass}
    if obs.get("error") or got is None or obs.get("slow"):
        run.inconc(cls, key, f"replay crashed or was disturbed by load: "
                   f"{str(obs.get('error') or obs.get('exception') or obs.get('slow'))[-200:]}")
    elif (got != 0) != some_not_pass:
        what = "no results (setUp failed)" if n_res == 0 else f"{n_pass} of {n_found} passed"
        run.violation(cls, f"main-exit/{'setup-failed' if n_res == 0 else 'mixed'}/exit={got}",
                      f"_main exits with {got} although {what}: exit code must be non-zero iff some selected test "
                      f"did not pass", w)
    else:
        run.harness_error(f"{cls}/{key}: z3 counterexample {vals} did not reproduce on the real _main (exit {got})")


# =====================================================================================================================
# 2. Route P
# =====================================================================================================================
def route_p_start(run, tier, tmpdir, jobs):
    """starts CrossHair in a background thread; returns (thread, box) where box['res'] is filled when finished"""
    box = {}
    err = chx.ensure_venv()
    if err:
        box["error"] = err
        return None, box
    conds = chx.conditions(HARNESS)
    names = CHX_THOROUGH if tier == "thorough" else CHX_QUICK
    missing = [n for n in names + CHX_REACH if n not in conds]
    if missing:
        box["error"] = f"harness lacks conditions {missing}"
        return None, box
    twin_file = chx.make_twin(HARNESS, tmpdir)
    twins = chx.conditions(twin_file)
    groups = []
    for n in sorted(names, key=lambda x: -CHX_COST.get(x, 5)):
        c, t = conds[n], twins[n]
        t.twin = True
        t.timeout = 60
        groups.append([c, t])
    for n in CHX_REACH:
        groups.append(conds[n])
    timeout = 900 if tier == "thorough" else 200

    def work():
        try:
            box["res"] = chx.run_many(groups, timeout, jobs=jobs)
            box["groups"] = groups
        except Exception:  # noqa: BLE001
            box["error"] = traceback.format_exc()[-400:]

    th = threading.Thread(target=work, daemon=True)
    th.start()
    return th, box


def route_p_finish(run, th, box):
    cls = "P-from_result"
    if th is not None:
        th.join()
    if box.get("error"):
        run.inconc(cls, "crosshair", f"CrossHair unavailable: {box['error']}")
        return
    reach_ok = 0
    times = {}
    for g, res in zip(box["groups"], box["res"]):
        if isinstance(g, list):
            (c, t), (v, tv) = g, res
            times[c.name] = v.elapsed
            if tv.status != "counterexample":
                run.inconc(cls, c.name, f"reachability twin not refuted ({tv.status}): condition may be vacuous")
                continue
            if v.status == "confirmed":
                run.ok(cls, c.name)
            elif v.status == "counterexample":
                # CrossHair appends " with crosshair.patch_to_return({time.time: ..})" when logging was reached
                call = v.call.split(" with crosshair.")[0].strip() if v.call else None
                rp = chx.replay(HARNESS, call) if call else {"reproduced": False, "error": "no call printed"}
                w = {"kind": "chx", "condition": c.name, "call": call, "message": v.message[:300], "replay": rp}
                # reproduced = the real code, run natively, returns a falsy verdict (an exception is not a verdict:
                # from_result raising makes solve_low_level raise, which halmos maps to "err")
                if rp.get("truthy") is False:
                    run.violation(cls, f"from_result/{c.name}", f"SolverOutput classification violates {c.name}: "
                                  f"{call} -> {rp.get('detail') or rp.get('returned')}", w)
                else:
                    run.inconc(cls, c.name, f"CrossHair counterexample {call} did not reproduce natively "
                               f"({rp.get('returned') or rp.get('raised') or rp.get('error')})")
            else:
                run.inconc(cls, c.name, f"{v.status}: {v.message[:120]}")
        else:
            v = res
            if v.status == "counterexample":
                reach_ok += 1
            else:
                run.inconc("P-reach", g.name, f"branch not reached by the symbolic search ({v.status})")
    run.extra["crosshair_seconds"] = times
    run.extra["from_result_branches_reached"] = reach_ok
    if reach_ok == 0:
        run.harness_error("Route P: no classification branch of from_result was reached")


# =====================================================================================================================
# 3. scripted stub solver
# =====================================================================================================================
_WORK = {}


def _worker_init(tmpdir, stub):
    _WORK["d"] = tmpdir
    _WORK["stub"] = stub
    # everything halmos dumps (query directories, *-error / *-timeout copies) lands below our scratch directory
    tempfile.tempdir = os.path.join(tmpdir, "tmp")
    os.environ["TMPDIR"] = tempfile.tempdir


def _worker(item):
    kind, sc, scale = item
    try:
        import halmos.__main__ as hm

        restore = None
        if sc.get("preempt") == "stuck-confirm":
            # forced schedule: the main thread is preempted right before the solver call that confirms a stuck path,
            # until the executor has been shut down by a solver callback (or 4 s).  Wrapper at the boundary, in this
            # harness process only.
            orig = hm.solve_low_level

            def delayed(path_ctx, _orig=orig):
                t_end = time.time() + 4.0 * scale
                while not path_ctx.solving_ctx.executor.is_shutdown() and time.time() < t_end:
                    time.sleep(0.01)
                return _orig(path_ctx)

            hm.solve_low_level = delayed
            restore = orig
        try:
            if kind == "e2e":
                return CE.run_scenario(sc, _WORK["d"], _WORK["stub"], scale)
            return CE.run_main_scenario(sc, _WORK["d"], _WORK["stub"], scale)
        finally:
            if restore is not None:
                hm.solve_low_level = restore
    except Exception:  # noqa: BLE001
        return {"id": sc.get("id"), "error": traceback.format_exc()[-800:]}


def _jsonable(x):
    return json.loads(json.dumps(x, default=str))


def _slim(obs: dict) -> dict:
    """observation without its volatile parts (times), so that the same witness hashes to the same replay file"""
    o = {k: v for k, v in obs.items() if k not in ("seconds", "timeout", "slow")}
    if "log" in o:
        o["log"] = sorted(({k: v for k, v in r.items() if k not in ("t", "lat", "done")} for r in o["log"]),
                          key=lambda r: (r.get("q", ""), r.get("kind", "")))[:12]
    return o


def mk(idp, outcomes, replies, **kw):
    rs = []
    for o, r in zip(outcomes, replies):
        if o in CE.QUERYING:
            rs.append(r if isinstance(r, tuple) else (r, None))
        else:
            rs.append(None)
    sig = ",".join(f"{o}:{r[0]}{('>' + r[1]) if r and r[1] else ''}" if r else o for o, r in zip(outcomes, rs))
    opts = "".join(["E" if kw.get("early_exit") else "e", "C" if kw.get("cache_solver") else "c",
                    "R" if kw.get("refinable") else "r"])
    dl = kw.get("delays")
    order = "" if not dl else "/d=" + ",".join("%g" % x for x in dl)
    th = f"/t{kw['threads']}" if kw.get("threads") else ""
    pre = ("/forced" if kw.get("preempt") else "") + ("/fsfault" if kw.get("fs_fault") else "")
    return dict(id=f"{idp}/{sig}/{opts}{order}{th}{pre}", outcomes=tuple(outcomes), replies=rs, **kw)


def e2e_scenarios(tier: str, seed: int) -> list:
    rng = random.Random(0xC05 + seed)
    R = list(CE.REPLIES_CORE)
    out = []
    D = 1.0  # in units of the calibrated order delay (CE.TIMING["delay"])
    # S1: one path, every outcome x every reply
    n = 0
    for o in CE.OUTCOMES:
        for r in (R if o in CE.QUERYING else [None]):
            out.append(mk("S1", [o], [r], early_exit=bool(n % 2), cache_solver=bool((n // 2) % 2)))
            n += 1
    # S2: two assertion paths, all reply pairs, alternating completion order
    n = 0
    for a in R:
        for b in R:
            dl = [0.0, D] if n % 2 else [D, 0.0]
            out.append(mk("S2", ["panic", "failflag"], [a, b], delays=dl, early_exit=(n % 3 == 0),
                          cache_solver=(n % 4 >= 2)))
            n += 1
    # S3: all outcome pairs, seeded replies
    for a in CE.OUTCOMES:
        for b in CE.OUTCOMES:
            out.append(mk("S3", [a, b], [rng.choice(R), rng.choice(R)], early_exit=rng.random() < 0.4,
                          cache_solver=rng.random() < 0.5))
    # S4: a valid counterexample racing every other reply, both orders, with --early-exit
    for b in R:
        for dl in ([0.0, D], [D, 0.0]):
            out.append(mk("S4", ["failflag", "panic"], ["sat_model", b], delays=dl, early_exit=True))
    # S5: refinement: abstract model on a refinable query -> the refined query decides
    for r2 in ("unsat", "sat_model", "sat_abs", "unknown", "garbage", "timeout"):
        out.append(mk("S5", ["panic", "success"], [("sat_abs", r2), None], refinable=True))
    out.append(mk("S5", ["panic", "success"], [("sat_abs", "unsat"), None], refinable=False))
    out.append(mk("S5", ["failflag", "stuck"], [("sat_abs", "unsat"), "sat_abs"], refinable=True))
    # S6: forced preemption at the stuck-path confirmation while a counterexample arrives (--early-exit)
    out.append(mk("S6", ["stuck", "panic"], ["unknown", "sat_model"], early_exit=True, preempt="stuck-confirm"))
    out.append(mk("S6", ["stuck", "failflag"], ["unsat", "sat_model"], early_exit=True, preempt="stuck-confirm"))
    out.append(mk("S6", ["stuck", "panic"], ["unknown", "sat_model"], early_exit=False))
    # S9: the synchronous confirmation query of a stuck path is still running when a counterexample arrives (--early-exit kills it)
    for st_ in ("stuck", "stuckcallee"):
        for r in ("unsat", "unknown", "sat_abs"):
            out.append(mk("S9", [st_, "failflag"], [r, "sat_model"], delays=[2 * D, D], early_exit=True))
    out.append(mk("S9", ["stuck", "panic", "success"], ["unsat", "sat_model", None], delays=[2 * D, D, 0.0], early_exit=True))
    # S8: fewer solver threads than potential-violation queries (queries wait in the pool's queue), with --early-exit
    for n, (outs, reps) in enumerate([(["panic", "failflag"], ["unsat", "sat_model"]), (["panic", "failflag"], ["sat_model", "unsat"]),
                                      (["panic", "failflag"], ["unsat", "unknown"]), (["panic", "failflag", "panic"], ["unsat", "unsat", "sat_model"]),
                                      (["panic", "failflag", "success"], ["unsat", "garbage", None]),
                                      (["panic", "failflag", "success"], ["sat_model", "unsat", None]),
                                      (["panic", "failflag", "success"], ["unsat", "sat_model", None])]):
        out.append(mk("S8", outs, reps, early_exit=True, threads=1, delays=[D] + [0.0] * (len(outs) - 1)))
        out.append(mk("S8", outs, reps, early_exit=True, threads=1, delays=[0.0] * (len(outs) - 1) + [D]))
        out.append(mk("S8", outs, reps, early_exit=bool(n % 2), threads=1, cache_solver=True))
    # S7: the failed query cannot be saved for debugging (file-system fault in the solver callback)
    for n, r in enumerate(x for x in R if x not in ("sat_model", "unsat")):
        out.append(mk("S7", ["panic", "success"], [r, None], fs_fault=True, early_exit=bool(n % 2)))
        out.append(mk("S7", ["success", "failflag"], [None, r], fs_fault=True, cache_solver=bool(n % 2)))
    if tier == "thorough":
        RX = R + list(CE.REPLIES_EXTRA)
        for r in CE.REPLIES_EXTRA:
            for o in CE.QUERYING:
                out.append(mk("T1", [o], [r]))
        # three and four paths
        for k, cnt in ((3, 420), (4, 260)):
            for _ in range(cnt):
                outs = [rng.choice(CE.OUTCOMES) for _ in range(k)]
                if rng.random() < 0.5:  # bias towards querying paths
                    outs = [rng.choice(CE.QUERYING) if rng.random() < 0.7 else o for o in outs]
                reps = [rng.choice(RX) for _ in range(k)]
                refinable = rng.random() < 0.2
                if refinable:
                    reps = [(r, rng.choice(RX)) if r == "sat_abs" else r for r in reps]
                dl = [rng.choice([0.0, 0.0, D, 2 * D]) for _ in range(k)]
                kw = dict(delays=dl, early_exit=rng.random() < 0.5, cache_solver=rng.random() < 0.5, refinable=refinable)
                if rng.random() < 0.15:
                    kw["threads"] = 1
                out.append(mk(f"T{k}", outs, reps, **kw))
        # every ordered pair of replies on two assertion paths in the opposite order of S2
        n = 0
        for a in R:
            for b in R:
                dl = [D, 0.0] if n % 2 else [0.0, D]
                out.append(mk("T2", ["panic", "failflag"], [a, b], delays=dl, early_exit=(n % 3 != 0),
                              cache_solver=(n % 4 < 2)))
                n += 1
    # de-duplicate ids
    seen, res = set(), []
    for s in out:
        if s["id"] not in seen:
            seen.add(s["id"])
            res.append(s)
    return res


def main_scenarios(tier: str) -> list:
    P = (("success",), [None])
    P2 = (("success", "panic"), [None, ("unsat", None)])
    F = (("panic",), [("sat_model", None)])
    T = (("failflag", "success"), [("unknown", None), None])
    X = (("panic", "success"), [("exit3", None), None])
    S = (("stuck", "success"), [("unknown", None), None])
    RV = (("revert",), [None])
    scs = [
        [dict(name="A", setup="ok", tests=[P])],
        [dict(name="A", setup="ok", tests=[P, P2])],
        [dict(name="A", setup="ok", tests=[P, F])],
        [dict(name="A", setup="ok", tests=[F])],
        [dict(name="A", setup="ok", tests=[P2]), dict(name="B", setup="revert", tests=[P])],
        [dict(name="A", setup="revert", tests=[P, P])],
        [dict(name="A", setup="ok", tests=[P, T])],
        [dict(name="A", setup="ok", tests=[P]), dict(name="B", setup=None, tests=[X])],
        [dict(name="A", setup="ok", tests=[S, P])],
        [dict(name="A", setup="ok", tests=[P, RV])],
    ]
    if tier == "thorough":
        scs += [
            [dict(name="A", setup="ok", tests=[P, P2, P]), dict(name="B", setup="ok", tests=[P2])],
            [dict(name="A", setup="revert", tests=[F]), dict(name="B", setup="ok", tests=[P])],
            [dict(name="A", setup="ok", tests=[T]), dict(name="B", setup="ok", tests=[X]), dict(name="C", setup="ok", tests=[P])],
            [dict(name="A", setup="ok", tests=[P, F, T, X, S, RV])],
        ]
    out = []
    for n, cs in enumerate(scs):
        sig = "+".join(c["name"] + ("!" if c["setup"] == "revert" else "") + "[" + ";".join(
            ",".join(f"{o}:{r[0]}" if r else o for o, r in zip(*t)) for t in c["tests"]) + "]" for c in cs)
        out.append({"id": f"M/{sig}", "contracts": cs, "early_exit": bool(n % 2), "cache_solver": bool(n % 3 == 0)})
    return out


def _ignored_queries(sc, obs, casc, keys, pred) -> bool:
    """some potential-violation query has no start record of the stub at all, and the observed verdict equals the verdict
    of the scenario with those paths deleted (and differs from the verdict of the full scenario)"""
    missing = [j for j, o in enumerate(sc["outcomes"]) if o in CE.QUERYING and o not in ("stuck", "stuckcallee")
               and CE.marker_hex(0, j) not in set(keys)]
    if not missing:
        return False
    outs = ["revert" if j in missing else o for j, o in enumerate(sc["outcomes"])]
    reps = [None if j in missing else r for j, r in enumerate(sc["replies"])]
    pred2 = CC.evaluate(casc, CE.expected_counts(outs, reps, sc.get("refinable", False)))
    return pred2 != pred and obs.get("exitcode") == pred2


def judge_e2e(sc, obs, casc):
    """-> (status, info) with status in ok | counts | mismatch | invalid
    invalid = the run says nothing about halmos (worker crash, stub killed or slowed down by machine load, query not
    attributable): it is re-run and, failing that, inconclusive"""
    if obs.get("error"):
        return "invalid", {"note": f"worker crashed: {obs['error'][-200:]}"}
    exp = CE.expected_counts(sc["outcomes"], sc["replies"], sc.get("refinable", False))
    pred = CC.evaluate(casc, exp)
    pred_label = CC.evaluate_label(casc, exp)
    info = {"expected_counts": exp, "predicted_exitcode": pred, "predicted_label": pred_label,
            "observed_exitcode": obs.get("exitcode"), "observed_label": obs.get("label")}
    log = obs.get("log", [])
    keys = [r.get("key") for r in log]
    if any(k is None for k in keys):
        info["note"] = "the stub could not attribute a query to a path (marker not found in the query text)"
        return "invalid", info
    early_cut = bool(sc.get("early_exit") and exp["valid_sat"] > 0)
    if early_cut:
        # solver processes are killed on purpose after the first valid counterexample; that one must have come through
        if not any(r.get("kind") == "sat_model" and r.get("done") and r.get("lat", 0) <= 0.6 * obs.get("timeout", 1e9)
                   for r in log):
            if obs.get("n_results") == 1 and _ignored_queries(sc, obs, casc, keys, pred):
                info["note"] = "the verdict is the one obtained by ignoring queries that were never handed to the solver"
                return "mismatch", info
            info["note"] = "no scripted counterexample reply completed in time (machine load)"
            return "invalid", info
    else:
        if obs.get("slow"):
            info["note"] = "stub slowed down or killed (machine load): " + "; ".join(obs["slow"][:3])
            return "invalid", info
        want = {CE.marker_hex(0, j) for j, o in enumerate(sc["outcomes"]) if o in CE.QUERYING}
        if set(keys) != want and not sc.get("cache_solver") and obs.get("n_results") == 1 and obs.get("num_paths"):
            info["note"] = f"queries seen {sorted(set(keys))} != expected {sorted(want)}"
            if _ignored_queries(sc, obs, casc, keys, pred):
                # a potential-violation query never reached the solver and the verdict simply leaves it out: no load explains
                # that (a solver killed by the time-out would count as unknown)
                info["note"] += "; the verdict is the one obtained by ignoring the queries never handed to the solver"
                return "mismatch", info
            return "invalid", info
    if obs.get("n_results") != 1:
        info["note"] = f"run_contract returned {obs.get('n_results')} results ({obs.get('exception')})"
        return "mismatch", info
    if obs.get("exitcode") != pred:
        return "mismatch", info
    if pred_label is not None and obs.get("label") != pred_label:
        info["note"] = "printed label differs"
        return "mismatch", info
    # diagnostic only: path counts (not available after an early exit)
    np_ = obs.get("num_paths")
    if np_ and not early_cut and (np_[1] != exp["normal"] or np_[2] != exp["stuck"]):
        info["note"] = f"counts differ: (normal, stuck) observed {np_[1:]}, scripted {(exp['normal'], exp['stuck'])}"
        return "counts", info
    return "ok", info


def judge_main(sc, obs, casc, ma):
    if obs.get("error"):
        return "invalid", {"note": f"worker crashed: {obs['error'][-200:]}"}
    if obs.get("slow") or any(r.get("key") is None for r in obs.get("log", [])):
        return "invalid", {"note": "stub slowed down or killed (machine load): " + "; ".join(obs.get("slow", [])[:3])}
    if obs.get("main_exit") is None:
        return "mismatch", {"note": f"_main did not return a MainResult: {obs.get('exception')}"}
    PASSV = casc.enums["PASS"]
    some_not_pass = False
    totals = {k: (z3.simplify(v).as_long()) for k, v in ma.init.items()}
    per_contract = []
    for c in sc["contracts"]:
        verdicts = []
        for outcomes, replies in c["tests"]:
            exp = CE.expected_counts(outcomes, replies, False)
            verdicts.append(CC.evaluate(casc, exp))
        n_found = len(verdicts)
        if c.get("setup") == "revert":
            n_res, n_pass = 0, 0
        else:
            n_res, n_pass = n_found, sum(v == PASSV for v in verdicts)
        if n_pass < n_found:
            some_not_pass = True
        # the extracted arithmetic, applied concretely
        subs = [(ma.pre[k], z3.IntVal(totals[k])) for k in totals] + [
            (ma.per["num_found"], z3.IntVal(n_found)), (ma.per["n_results"], z3.IntVal(n_res)),
            (ma.per["num_passed"], z3.IntVal(n_pass))]
        totals = {k: z3.simplify(z3.substitute(ma.step[k], *subs)).as_long() for k in totals}
        per_contract.append((n_pass, n_found - n_pass))
    pred_exit = z3.simplify(z3.substitute(ma.exit_term, (ma.pre["total_failed"], z3.IntVal(totals["total_failed"])))).as_long()
    info = {"predicted_exit": pred_exit, "observed_exit": obs["main_exit"], "some_selected_test_did_not_pass": some_not_pass,
            "predicted_summary": per_contract, "observed_summary": obs.get("summary")}
    if (obs["main_exit"] != 0) != some_not_pass:
        info["note"] = "exit code contradicts the property"
        return "mismatch", info
    if obs["main_exit"] != pred_exit:
        info["note"] = "exit code differs from the extracted arithmetic"
        return "mismatch", info
    return "ok", info


def violation_key(sc, obs, info) -> str:
    if sc.get("early_exit") and any("ShutdownError" in e for e in obs.get("errors", [])) and "stuck" in sc["outcomes"]:
        return KEY_SHUTDOWN
    E = {0: "PASS", 1: "FAIL", 2: "TIMEOUT", 3: "STUCK", 4: "REVERT_ALL", 5: "EXCEPTION"}
    p, o = info.get("predicted_exitcode"), info.get("observed_exitcode")
    if p == o:
        return f"e2e/label/{info.get('predicted_label')}-printed-as-{info.get('observed_label')}"
    reps = "+".join(sorted({(r[1] if (r[0] == 'sat_abs' and sc.get('refinable') and r[1]) else r[0])
                            for r in sc["replies"] if r}))
    return (f"e2e/{E.get(p, p)}-reported-as-{E.get(o, o)}/{'+'.join(sorted(set(sc['outcomes'])))}/{reps}/"
            f"early={int(bool(sc.get('early_exit')))}")


def part3(run, tier, casc, ma, pool, tmp_submit):
    scs = e2e_scenarios(tier, run.seed)
    mscs = main_scenarios(tier)
    items = [("e2e", s, 1.0) for s in scs] + [("main", s, 1.0) for s in mscs]
    # long ones first
    def cost(it):
        s = it[1]
        if it[0] == "main":
            return 10
        return sum(2.5 for r in s["replies"] if r and "timeout" in r) + sum(s.get("delays") or [0]) + 1
    order = sorted(range(len(items)), key=lambda i: -cost(items[i]))
    t0 = time.time()
    res = [None] * len(items)
    for i, o in zip(order, pool.imap(_worker, [items[i] for i in order], chunksize=1)):
        res[i] = o
    run.extra["e2e_wall_s"] = round(time.time() - t0, 1)

    feats = {"runs": 0, "with_solver_queries": 0, "early_exit_cut": 0, "refined_queries": 0, "timeouts_scripted": 0,
             "stuck_paths": 0, "unsat_core_replies": 0, "forced_schedules": 0}
    seen_keys = set()
    pending = []
    for (kind, sc, _), obs in zip(items, res):
        cls = "e2e-run_test" if kind == "e2e" else "e2e-main"
        if kind == "e2e" and sc.get("preempt"):
            cls = "e2e-forced-schedule"
        try:
            status, info = judge_e2e(sc, obs, casc) if kind == "e2e" else judge_main(sc, obs, casc, ma)
        except CC.Unrecognised as e:
            run.inconc(cls, sc["id"], f"prediction not computable: {e}")
            continue
        feats["runs"] += 1
        lg = obs.get("log") or []
        feats["with_solver_queries"] += bool(lg)
        feats["refined_queries"] += sum(1 for r in lg if r.get("refined"))
        feats["unsat_core_replies"] += sum(1 for r in lg if r.get("core") and r.get("kind", "").startswith("unsat"))
        if kind == "e2e":
            feats["timeouts_scripted"] += sum(1 for r in sc["replies"] if r and "timeout" in r)
            feats["stuck_paths"] += sc["outcomes"].count("stuck")
            feats["forced_schedules"] += bool(sc.get("preempt"))
            exp = info.get("expected_counts") if isinstance(info, dict) else None
            if exp and sc.get("early_exit") and exp["valid_sat"] > 0:
                feats["early_exit_cut"] += 1
        if status == "ok":
            run.ok(cls, sc["id"])
            run.sample({"scenario": sc["id"], **{k: info[k] for k in info if k.startswith(("predicted", "observed"))}})
        elif status == "invalid":
            pending.append((cls, kind, sc, None, info))
        elif status == "counts":
            run.inconc("e2e-path-counts", sc["id"], info["note"])
            run.ok(cls, sc["id"])
        else:
            pending.append((cls, kind, sc, obs, info))
    confirm_mismatches(run, pending, casc, ma, pool, seen_keys)
    run.extra["e2e_features"] = feats
    if feats["with_solver_queries"] == 0 or feats["runs"] == 0:
        run.harness_error("part 3: no scenario reached the stub solver")
    return len(scs), len(mscs)


def confirm_mismatches(run, pending, casc, ma, pool, seen_keys):
    """mismatching and invalid (load-disturbed) runs are re-run on the real code with the clock slowed by 2 (for
    --early-exit additionally under the forced preemption).  A violation needs two valid runs of the real code that
    both contradict the prediction; all re-runs go through the pool at once"""
    if not pending:
        return
    run.extra["e2e_first_pass"] = {"mismatch": sum(1 for p in pending if p[3] is not None),
                                   "invalid": sum(1 for p in pending if p[3] is None)}
    jobs, index = [], []
    for n, (cls, kind, sc, obs, info) in enumerate(pending):
        attempts = [dict(sc), dict(sc)]
        if kind == "e2e" and sc.get("early_exit") and "stuck" in sc["outcomes"] and not sc.get("preempt"):
            attempts.append(dict(sc, preempt="stuck-confirm"))
        for a in attempts:
            jobs.append((kind, a, 2.0))
            index.append(n)
    results = pool.map(_worker, jobs, chunksize=1)
    for n, (cls, kind, sc, first_obs, info) in enumerate(pending):
        tries = [(jobs[k][1], results[k]) for k in range(len(jobs)) if index[k] == n]
        bad = [(sc, first_obs, info)] if first_obs is not None else []
        good = 0
        last_note = info.get("note") if isinstance(info, dict) else str(info)
        for s2, o2 in tries:
            try:
                st2, info2 = judge_e2e(s2, o2, casc) if kind == "e2e" else judge_main(s2, o2, casc, ma)
            except CC.Unrecognised:
                continue
            if st2 == "mismatch":
                bad.append((s2, o2, info2))
            elif st2 in ("ok", "counts"):
                good += 1
            else:
                last_note = info2.get("note", last_note)
        if len(bad) >= 2:
            s2, o2, info2 = bad[-1]
            key = violation_key(sc, o2, info2) if kind == "e2e" else \
                f"main/exit={info2.get('observed_exit')}/some-not-pass={info2.get('some_selected_test_did_not_pass')}"
            w = {"kind": kind, "scenario": _jsonable(s2), "prediction": _jsonable(info2), "observed": _slim(o2),
                 "confirmed_by": "two valid runs of the real code contradicting the prediction"}
            if kind == "e2e":
                what = (f"run_test reports exit code {info2.get('observed_exitcode')} {info2.get('observed_label')} for "
                        f"outcomes {list(sc['outcomes'])} with scripted replies {[r and '>'.join(x for x in r if x) for r in sc['replies']]}"
                        f"{' under --early-exit' if sc.get('early_exit') else ''}; the {'specified verdict table' if casc.source == 'specification table' else 'proved cascade'} applied to the "
                        f"multiset {info2.get('expected_counts')} gives {info2.get('predicted_exitcode')} "
                        f"{info2.get('predicted_label')}"
                        + (f" [{'; '.join(o2.get('errors') or [])[:160]}]" if o2.get("errors") else "")
                        + (f"; {good} other run(s) of the same scenario gave the predicted verdict" if good else ""))
            else:
                what = f"_main exit code {info2.get('observed_exit')}: {info2.get('note')}; {info2}"
            if key in seen_keys and run.match_known(key) is None:
                # one VIOLATION line / replay file per failing input class
                c = run.cls(cls)
                c["obligations"] += 1
                c["violations"] += 1
                run.obligations += 1
            else:
                seen_keys.add(key)
                run.violation(cls, key, what, w)
        elif good and not bad:
            run.ok(cls, sc["id"])
        elif bad:
            run.inconc(cls, sc["id"], f"mismatch seen once, not reproduced in {len(tries)} re-runs ({good} agreed with "
                       f"the prediction): {bad[0][2]}")
        else:
            run.inconc(cls, sc["id"], f"no valid run in {len(tries) + 1} attempts: {last_note}")


# =====================================================================================================================
def do_replay(run, path):
    blob = json.load(open(path))
    w = blob["witness"]
    tmp = tempfile.mkdtemp(prefix="c05_")
    try:
        os.makedirs(os.path.join(tmp, "tmp"), exist_ok=True)
        if w.get("kind") == "chx":
            rp = chx.replay(HARNESS, w["call"])
            ok, desc = rp.get("truthy") is False, rp
        else:
            stub = CE.write_stub(tmp)
            _worker_init(tmp, stub)
            casc, ma = CC.extract_cascade(), CC.extract_main()
            kind = "main" if w.get("kind") == "main" else "e2e"
            sc = w["scenario"]
            if kind == "e2e":
                sc["outcomes"] = tuple(sc["outcomes"])
                sc["replies"] = [tuple(r) if r else None for r in sc["replies"]]
            else:
                for c in sc["contracts"]:
                    c["tests"] = [(tuple(o), [tuple(r) if r else None for r in rs]) for o, rs in c["tests"]]
            obs = _worker((kind, sc, 2.0))
            if w.get("kind") == "cascade":
                want = w["expected_by_table"]["label" if w.get("label") else "exitcode"]
                got = obs.get("label") if w.get("label") else obs.get("exitcode")
                ok, desc = got != want, {"observed": got, "table": want}
            elif kind == "main" and "some_selected_test_did_not_pass" in w:
                ok = (obs.get("main_exit") != 0) != w["some_selected_test_did_not_pass"]
                desc = {"main_exit": obs.get("main_exit")}
            else:
                st, info = judge_e2e(sc, obs, casc) if kind == "e2e" else judge_main(sc, obs, casc, ma)
                ok, desc = st == "mismatch", info
        print(f"replay {path}: {'REPRODUCED' if ok else 'not reproduced'} -- {desc}")
        run.sample({"replayed": path, "reproduced": ok})
        # the (cheap) universal obligations of part 1 are decided in replay mode as well, so that the evidence of a
        # replay run states what was proved next to the replayed witness
        if w.get("kind") != "chx":
            route_a(run, lambda kind, sc, scale=2.0: _worker((kind, sc, scale)))
        if ok:
            run.violation(blob.get("class", "replay"), blob.get("key", "replay"), blob.get("what", "replayed witness"), w)
        else:
            run.ok("replay", "not-reproduced")
    finally:
        shutil.rmtree(tmp, ignore_errors=True)


def main(run):
    tier = run.tier
    run.extra["rule"] = ("Route A: one obligation = one z3 query over unbounded integer counts; Route P: one CrossHair "
                         "condition over symbolic strings/ints; part 3: one scripted run of the real run_test/_main "
                         "compared with the proved function (translation validation; enumerated, stated as bounds)")
    run.extra["explanation"] = __doc__.strip().split("\n\n")[0][:400]
    if run.args.replay:
        do_replay(run, run.args.replay)
        return
    import multiprocessing as mp

    tmp = tempfile.mkdtemp(prefix="c05_")
    pool = None
    try:
        os.makedirs(os.path.join(tmp, "tmp"), exist_ok=True)
        stub = CE.write_stub(tmp)
        # stub latency on this (shared) machine decides the solver timeout and the order-forcing delay
        cal = CE.calibrate(tmp, stub)
        CE.TIMING.update(timeout=cal["timeout"], delay=cal["delay"])
        run.extra["stub_calibration"] = cal
        nproc = max(2, min(run.args.jobs, 8 if tier == "thorough" else 7))
        need_pool = wanted(run, "A") or wanted(run, "e2e")
        if need_pool:
            # fork the workers before any thread exists in this process
            pool = mp.get_context("fork").Pool(processes=nproc, initializer=_worker_init, initargs=(tmp, stub))

        def submit(kind, sc, scale=1.0):
            return pool.apply(_worker, ((kind, sc, scale),))

        th, box = (None, {"error": "not selected"})
        if wanted(run, "P"):
            th, box = route_p_start(run, tier, tmp, jobs=5 if tier == "thorough" else 4)

        casc = ma = None
        if wanted(run, "A") or wanted(run, "e2e"):
            if wanted(run, "A"):
                casc, ma = route_a(run, submit)
            else:
                try:
                    casc, ma = CC.extract_cascade(), CC.extract_main()
                except CC.Unrecognised:
                    pass
        n_e2e = n_main = 0
        if wanted(run, "e2e"):
            if casc is None:
                # run_test's verdict block was not recognised: the scripted runs of the real run_test are still judged,
                # against the SPECIFIED verdict table
                try:
                    casc = CC.spec_cascade()
                    run.extra["cascade_source"] = "specification fallback: run_test's verdict block was not recognised by the extractor"
                except CC.Unrecognised:
                    casc = None
            if casc is not None and ma is None:
                # the exit-code arithmetic of _main could not be extracted: the process-level scenarios are still judged,
                # against the SPECIFIED arithmetic (a test that did not run counts as failed)
                pre = {t: z3.Int(t) for t in CC.TOTALS}
                per = {"num_found": z3.Int("num_found"), "n_results": z3.Int("len(test_results)"), "num_passed": z3.Int("num_passed")}
                ma = CC.MainArith(
                    init={t: z3.IntVal(0) for t in CC.TOTALS},
                    step={"total_found": pre["total_found"] + per["num_found"], "total_passed": pre["total_passed"] + per["num_passed"],
                          "total_failed": pre["total_failed"] + (per["num_found"] - per["num_passed"])},
                    pre=pre, per=per, exit_term=z3.If(pre["total_failed"] == 0, z3.IntVal(0), z3.IntVal(1)), zero_found_exit=1,
                    notes=["specification fallback (extraction failed)"], source="spec")
                run.extra["main_arith_source"] = "specification fallback: _main's arithmetic was not recognised by the extractor"
            if casc is None or ma is None:
                run.inconc("e2e-run_test", "all", "no extracted function to compare with (Route A inconclusive)")
            else:
                n_e2e, n_main = part3(run, tier, casc, ma, pool, submit)
        if wanted(run, "P"):
            route_p_finish(run, th, box)
    finally:
        if pool is not None:
            pool.terminate()
            pool.join()
        shutil.rmtree(tmp, ignore_errors=True)

    run.bounds = {
        "route_A": "unbounded non-negative integer counts (sat, err, unknown, unsat, len(stuck), normal); any number of "
                   "contracts (induction over the contract loop of _main)",
        "route_P": "stdout <= 8 characters (thorough: also first line <= 7 + tail <= 4 characters), stderr <= 4 "
                   "characters, any int return code; --cache-solver on only for outputs whose first line is not 'unsat' "
                   "(the unsat-core regex of the unsat branch is beyond CrossHair: 'Not confirmed' even for a 1-character "
                   "tail; that branch is exercised concretely in part 3)",
        "part_3": f"{n_e2e} scripted run_test scenarios with <= {'4' if tier == 'thorough' else '2'} paths + {n_main} "
                  f"_main scenarios (enumerated/seeded, VERIF_SEED={run.seed}); replies "
                  f"{list(CE.REPLIES_CORE) + (list(CE.REPLIES_EXTRA) if tier == 'thorough' else [])}; completion orders "
                  f"forced by stub delays of 0 / {CE.TIMING['delay']} s (+ --solver-threads 1 in thorough); one forced "
                  f"preemption point (before the stuck-path confirmation query); solver timeout {CE.TIMING['timeout']} s "
                  "(both calibrated from the measured stub latency)",
    }
    run.functions_encoded += ["halmos.solve.SolverOutput.from_result / from_error (real code under CrossHair)",
                              "halmos.__main__.run_test / run_contract / run_tests / _main, halmos.solve.solve_low_level / "
                              "solve_end_to_end, halmos.processes.PopenFuture/PopenExecutor (real code, stub solver process)"]
    run.assumptions += [
        "roles are bound to halmos' local names (counter, stuck, normal, exitcode; total_failed, num_found, num_passed): "
        "a renaming makes Route A inconclusive, not violated",
        "run_contract returns at most one TestResult per selected test and none when setUp fails (0 <= passed <= "
        "results <= found); checked on the real code in part 3 only for the enumerated contracts",
        "part 3 bookkeeping specification: sat/unsat/unknown = exact first line; timeout = unknown; anything else, "
        "non-zero exit without a recognised first line = err; 'unsat' + non-zero exit = unsat (documented: only the first "
        "line counts, z3 exits 1 after unsat because get-model fails); an abstract (f_evm_) model on a refinable query "
        "is decided by the refined query, otherwise counts as sat; a stuck path counts unless its confirmation "
        "query is answered unsat; a plain revert contributes to no count",
        "CrossHair runs halmos under z3 5.x; from_result/from_error make no z3 call; every counterexample is replayed "
        "under /venv/bin/python",
        "`_main` with no selected test (exit 1) and signal handling (exit 128+n) are outside the claim",
    ]
    run.extra["trusted_note"] = "z3 (LIA) for Route A; CrossHair for Route P; the stub solver script and the marker-based " \
                                "attribution of queries to paths for part 3"


if __name__ == "__main__":
    common.guarded_main("C05", "proof", main)
