"""C12 — symbolic calldata is a fully general, well-formed ABI encoding (DESIGN §1, C12).

Route Z.  The real `mk_calldata(abi, fun_info, args)` is called for every enumerated (signature, naming, configuration)
instance; the returned ByteVec is a formula over halmos' own symbols and is decided against an independent ABI
decoder/encoder written from the Solidity ABI specification (lib/c12_abi.py, imports nothing from halmos):

  A  per instance and per assignment S of the size symbols to configured candidates (all combinations when <= 16,
     otherwise all-max, all-min, every single-parameter deviation from all-max and a fixed-stride walk, 16 in total):
       dyn-params        dyn_params lists exactly the dynamic nodes (by the --array-lengths naming rule) and each
                         size_choices is the configured candidate set; size symbols are pairwise distinct constants
       path-conditions   process_dyn_params adds no condition over anything but size symbols and registers every candidate
       selector          bytes 0..3
       layout      (a)   decoding calldata[S] with the spec decoder: every offset word is concrete, in range, regions are
                         pairwise disjoint and inside the calldata (=> long enough for the largest candidate)
       lengths     (b)   every length word read by the decoder *is* the registered size symbol of that node (= candidate)
       leaves      (c,d) decoded leaves are disjoint slices of distinct non-size constants (syntactic), then the
                         Skolem witness H := w(T) is built by unification and  L(cd[S])[H := w(T)] == T  is proved valid
                         for fresh *admissible* targets T (uint8 = ZeroExt(248,t8), int128 = SignExt, address, bool, bytesN
                         left-aligned, bytes = n free bytes): every concrete argument tuple with those lengths is an instance
       instance-sat      reachability twin / adversarial concrete targets: leaves == pairwise-different patterns is sat
       leaves-quantified cross-check  forall T exists H. L(H) = T  on z3 (3 s cap; unknown = inconclusive)
       canonical         at the largest candidates calldata[S] is byte-for-byte the canonical (strict) encoding of its own
                         decoded value (own encoder), except the padding bytes of byte strings
     A failing obligation is turned into a concrete admissible argument tuple / concrete bytes, regenerated with fresh
     symbols and re-decided before it is reported.
  B  exploration: sequences of functions run one after the other with ONE shared config object through the real
     SEVM.run_message on a callee that CALLDATALOADs every length word; O2: every combination of configured candidates
     (own cartesian product) is admitted by a reported path (solver), O1: each path returns the lengths its PC fixes;
     the shared config lists and DynamicParam.size_choices are intact afterwards.
  C  unsupported ABI types (fixedMxN, ufixedMxN, function; bare, nested, as struct member) make mk_calldata raise.
  D  diagnostic: with `uid()` made constant, which shapes lose leaf distinctness (=> the assumption the claim rests on).
Route P.  `Calldata.encode_tuple` under CrossHair with symbolic item sizes and static flags, arity 1..4.
"""

from __future__ import annotations

import os
import shutil
import sys
import tempfile
import time

sys.path.insert(0, os.path.dirname(os.path.dirname(os.path.abspath(__file__))))

from lib import c12_abi as A  # noqa: E402
from lib import c12_check as C  # noqa: E402
from lib import c12_explore as X  # noqa: E402
from lib import common  # noqa: E402

DALS = [[0, 1, 2], [2, 1], [0], [2, 5], [1], [5, 0, 3], [0, 65]]
DBLS = [[0, 65], [2, 5], [0, 1, 2], [65, 4], [0], [33, 32, 31], [1]]
LOOPS = [2, 3, 1]
NAMING_ORDER = ["named", "unnamed", "half"]
ARR_LISTS = [[2, 1], [1], [3, 0], [0, 2]]
BYT_LISTS = [[33, 2], [1], [64, 0, 5], [0]]


def configs_for(i: int, params, K: int, cap: int) -> list:
    """deterministic configurations of signature #i -> list of (naming, cfg)"""
    ndyn = sum(A.count_dyn(p) for p in params)
    out, seen = [], set()
    if ndyn == 0:
        return [("named", {"dal": [0, 1, 2], "dbl": [0, 65], "al": {}, "loop": 2}),
                ("unnamed", {"dal": [1], "dbl": [1], "al": {}, "loop": 3})]
    for k in range(K):
        naming = NAMING_ORDER[(i + k) % 3]
        name_fn = A.NAMINGS[naming]
        cfg = {"dal": DALS[(i + 3 * k) % 7], "dbl": DBLS[(2 * i + k) % 7], "al": {}, "loop": LOOPS[(i + k) % 3]}
        alv = (i + 2 * k) % 4
        base = C.expected_dyn(params, name_fn, cfg)
        if alv == 1 and base:
            x = base[0]
            cfg["al"] = {x.name: [2, 1] if x.kind == "array" else [33, 2]}
        elif alv == 2:
            for j, x in enumerate(base[:6]):
                cfg["al"].setdefault(x.name, (ARR_LISTS if x.kind == "array" else BYT_LISTS)[(i + j) % 4])
        elif alv == 3 and base:
            x = base[-1]
            cfg["al"] = {x.name: [3, 1] if x.kind == "array" else [40, 7]}
        # size cap (stated bound): degrade the candidate lists until the generalized encoding fits
        for _ in range(4):
            if C.max_words(params, name_fn, cfg) <= cap:
                break
            if cfg["dbl"] != [0, 1, 2] and max(cfg["dbl"]) > 5:
                cfg["dbl"] = [0, 1, 2]
            elif cfg["al"]:
                cfg["al"] = {}
            elif cfg["dal"] != [2, 1]:
                cfg["dal"] = [2, 1]
            else:
                cfg["dal"], cfg["dbl"] = [1], [1]
        if C.max_words(params, name_fn, cfg) > cap:
            continue
        key = C.inst_key(params, naming, cfg)
        if key not in seen:
            seen.add(key)
            out.append((naming, cfg))
    return out


def build_instances(tier: str, seed: int):
    sigs = A.enumerate_signatures(tier, seed)
    K = 3 if tier == "quick" else 5
    cap = 1200 if tier == "quick" else 2500
    inst = []
    must = set(A.must_include())
    for i, ps in enumerate(sigs):
        cfgs = configs_for(i, ps, K, cap)
        if ps in must:  # the hand-picked signatures: all three namings under the default configuration as well
            for nm in NAMING_ORDER:
                c = {"dal": [0, 1, 2], "dbl": [0, 65], "al": {}, "loop": 2}
                if C.max_words(ps, A.NAMINGS[nm], c) <= cap:
                    cfgs.append((nm, c))
        seen = set()
        for (nm, cfg) in cfgs:
            k = C.inst_key(ps, nm, cfg)
            if k in seen:
                continue
            seen.add(k)
            inst.append((ps, nm, cfg, 1))
    return sigs, inst


# ---------------------------------------------------------------------------------------------------------------------
# exploration scenarios
# ---------------------------------------------------------------------------------------------------------------------
def build_scenarios(tier: str, sigs) -> list:
    u, b, s, ad = A.E("uint256"), A.E("bytes"), A.E("string"), A.E("address")
    seqs = [
        [(b,), (b, b), (A.DA(u), A.DA(u)), (A.DA(u), u, A.DA(u)), (b, u, A.DA(ad), s)],
        [(A.DA(b),), (s, A.DA(u)), (A.TU(u, A.DA(A.DA(u))),), (A.DA(A.TU(u, b)),), (b,)],
        [(A.DA(u),), (A.FA(b, 2),), (A.TU(b, b), s), (A.DA(A.DA(u)),), (A.DA(u), b, s)],
    ]
    cfgs = [
        {"dal": [0, 1, 2], "dbl": [0, 65, 1024], "al": {}, "loop": 2},  # halmos' defaults
        {"dal": [2, 1], "dbl": [0, 65], "al": {}, "loop": 3},
        {"dal": [0, 1, 2], "dbl": [2, 5], "al": {"p0": [2, 1], "p1": [33, 2, 0], "p2": [3]}, "loop": 2},
        {"dal": [1], "dbl": [0], "al": {"": [1, 0, 2]}, "loop": 1},
    ]
    if tier == "thorough":
        cfgs += [{"dal": [2, 5], "dbl": [0, 1, 2], "al": {}, "loop": 2},
                 {"dal": [0, 65], "dbl": [0, 65], "al": {"p0[0]": [1, 2], "p0": [2, 0]}, "loop": 2},
                 {"dal": [5, 0, 3], "dbl": [65, 4], "al": {"a0": [2, 1]}, "loop": 3}]
        # further sequences drawn from the enumerated signatures (1..5 dynamic parameters)
        pool = [ps for ps in sigs if 1 <= sum(A.count_dyn(p) for p in ps) <= 4 and max(A.depth(p) for p in ps) <= 2]
        for k in range(0, min(len(pool), 160), 4):
            seqs.append(pool[k:k + 4])
    scns = []
    for si, seq in enumerate(seqs):
        for ci, cfg in enumerate(cfgs if si < 3 else [cfgs[si % len(cfgs)]]):
            fs = []
            for fi, ps in enumerate(seq):
                naming = NAMING_ORDER[(si + ci + fi) % 3] if ci != 2 else "named"
                if ci == 3:
                    naming = "unnamed"
                n, nd = X.n_combos(ps, naming, cfg)
                if nd == 0 or n > X.MAX_COMBOS or C.max_words(ps, A.NAMINGS[naming], cfg) > 1500:
                    continue
                fs.append((ps, naming, ["fwd", "rev", "dup"][(si + ci + fi) % 3]))
            if len(fs) >= 2:
                scns.append({"cfg": cfg, "seq": fs})
    return scns


# ---------------------------------------------------------------------------------------------------------------------
# unsupported types
# ---------------------------------------------------------------------------------------------------------------------
UNSUPPORTED = ["fixed128x18", "ufixed128x18", "fixed", "ufixed", "function", "fixed8x1", "ufixed256x80"]


def unsupported_items():
    out = []
    for t in UNSUPPORTED:
        P = lambda typ, name="x": {"name": name, "type": typ, "internalType": typ}  # noqa: E731
        out.append((f"f({t})", [P(t)]))
        out.append((f"f({t}[])", [P(t + "[]")]))
        out.append((f"f({t}[2])", [P(t + "[2]")]))
        out.append((f"f(uint256,{t})", [P("uint256", "a"), P(t, "b")]))
        out.append((f"f((uint256,{t}))", [{"name": "s", "type": "tuple", "internalType": "struct S",
                                           "components": [P("uint256", "a"), P(t, "b")]}]))
        out.append((f"f((bytes,{t}[])[])", [{"name": "s", "type": "tuple[]", "internalType": "struct S[]",
                                             "components": [P("bytes", "a"), P(t + "[]", "b")]}]))
    return out


def check_unsupported(run):
    from eth_hash.auto import keccak
    from halmos.calldata import FunctionInfo, mk_calldata

    args = C.build_args({"dal": [0, 1, 2], "dbl": [0, 65], "al": {}, "loop": 2})
    n = 0
    for sig, inputs in unsupported_items():
        item = {"type": "function", "name": "f", "inputs": inputs, "outputs": [], "stateMutability": "nonpayable"}
        fi = FunctionInfo("C12", "f", sig, keccak(sig.encode())[:4].hex())
        res = []
        for _ in range(2):  # second call = replay
            try:
                cd, dyn = mk_calldata({sig: item}, fi, args)
                res.append(("returned", len(cd)))
            except Exception as e:  # noqa: BLE001
                res.append(("raised", f"{type(e).__name__}: {e}"))
        if all(r[0] == "raised" for r in res):
            run.ok("unsupported-raises", sig)
            n += 1
        elif all(r[0] == "returned" for r in res):
            run.violation("unsupported-raises", f"unsupported-encoded:{sig}",
                          f"mk_calldata returned {res[0][1]} bytes of calldata for the unsupported signature {sig} instead of "
                          f"raising", {"sig": sig, "inputs": inputs, "results": res})
        else:
            run.harness_error(f"unsupported type check not deterministic for {sig}: {res}")
    return n


# ---------------------------------------------------------------------------------------------------------------------
# diagnostic D: what rests on uid()
# ---------------------------------------------------------------------------------------------------------------------
def uid_diagnostic(run):
    """With halmos.calldata.uid pinned to a constant (boundary stub in this process only), report which of a few shapes
    lose the distinctness of leaves.  This is NOT an obligation: it documents that distinctness of equally named,
    equally typed leaves rests on the 28-bit random uid (assumption A-uid)."""
    import halmos.calldata as cdm

    u, b = A.E("uint256"), A.E("bytes")
    shapes = [("f(uint256,uint256) unnamed", (u, u), "unnamed"), ("f(uint256,uint256) named", (u, u), "named"),
              ("f(bytes,bytes) unnamed", (b, b), "unnamed"), ("f(uint256[2]) unnamed", (A.FA(u, 2),), "unnamed"),
              ("f((uint256,uint256)) half-named", (A.TU(u, u),), "half")]
    real = cdm.uid
    out = {}
    cdm.uid = lambda: "0000000"
    try:
        for label, ps, naming in shapes:
            ev = C.Events()
            C.check_instance(ps, naming, {"dal": [0, 1, 2], "dbl": [0, 65], "al": {}, "loop": 2}, ev, quant_budget=0)
            out[label] = "distinct" if not any(e[0] == "cand" for e in ev.ev) else \
                "collides: " + next(e[1] for e in ev.ev if e[0] == "cand")
    finally:
        cdm.uid = real
    run.extra["uid_constant_diagnostic"] = out
    return out


# ---------------------------------------------------------------------------------------------------------------------
# route P
# ---------------------------------------------------------------------------------------------------------------------
def route_p(run, tier):
    from lib import chx

    err = chx.ensure_venv()
    if err:
        run.inconc("P-encode-tuple", "crosshair", err)
        return
    src = os.path.join(common.VERIF, "lib", "c12_chx_harness.py")
    tmp = tempfile.mkdtemp(prefix="c12p_")
    try:
        conds = chx.conditions(src)
        twin_file = chx.make_twin(src, tmp)
        twins = chx.conditions(twin_file)
        groups = []
        for name, c in conds.items():
            t = twins[name]
            t.twin = True
            groups.append([c, t])
        vs = chx.run_many(groups, 60 if tier == "quick" else 240, jobs=4)
        for (c, t), (vc, vt) in zip(groups, vs):
            if vt.status != "counterexample":
                run.inconc("P-encode-tuple", c.name, f"reachability twin not refuted: {vt.status}")
                continue
            if vc.status == "confirmed":
                run.ok("P-encode-tuple", c.name)
            elif vc.status == "counterexample":
                rep = chx.replay(src, vc.call) if vc.call else {"reproduced": False}
                if rep.get("reproduced"):
                    run.violation("P-encode-tuple", f"encode_tuple:{c.name}",
                                  f"encode_tuple differs from the ABI head/tail specification on {vc.call}",
                                  {"call": vc.call, "replay": rep})
                else:
                    run.inconc("P-encode-tuple", c.name, f"counterexample {vc.call} did not reproduce natively")
            else:
                run.inconc("P-encode-tuple", c.name, f"{vc.status}: {vc.message[:120]}")
    finally:
        shutil.rmtree(tmp, ignore_errors=True)


# ---------------------------------------------------------------------------------------------------------------------
MAX_REPORTS = 6
_REPORTED = {}


def _apply(run, results, label, stats):
    for r in results:
        if isinstance(r, tuple) and len(r) == 2 and r[0] == "error":
            run.harness_error(f"{label} worker crashed: {r[1][-400:]}")
            continue
        events, st = r
        for k, v in st.items():
            stats[k] = stats.get(k, 0) + v
        for e in events:
            if e[0] == "ok":
                run.ok(e[1], e[2], e[3])
            elif e[0] == "inconc":
                run.inconc(e[1], e[2], e[3])
            elif e[0] == "violation":
                # at most MAX_REPORTS replay files per obligation class; the rest is counted (exit code is 1 anyway)
                n = _REPORTED.get(e[1], 0)
                _REPORTED[e[1]] = n + 1
                if n < MAX_REPORTS or run.match_known(e[2]) is not None:
                    run.violation(e[1], e[2], e[3], e[4])
                else:
                    run.extra.setdefault("violations_not_itemised", {})
                    run.extra["violations_not_itemised"][e[1]] = run.extra["violations_not_itemised"].get(e[1], 0) + 1
            elif e[0] == "harness_error":
                run.harness_error(e[1])


def main(run):
    tier, only = run.tier, set((run.args.only or "").split(",")) - {""}
    want = lambda p: not only or p in only  # noqa: E731
    nproc = min(6, max(1, run.args.jobs))
    t0 = time.time()
    sigs, inst = build_instances(tier, run.seed)
    run.functions_encoded = ["halmos.calldata.mk_calldata", "halmos.calldata.Calldata.create/encode/encode_tuple/get_dyn_sizes",
                             "halmos.calldata.parse_type/parse_tuple_type/str_abi", "halmos.config.ParseCSVInt.parse",
                             "halmos.config.ParseArrayLengths.parse", "halmos.sevm.Path.process_dyn_params",
                             "halmos.sevm.SEVM.calldataload (via run_message)", "halmos.bytevec.ByteVec.get_word/slice"]
    stats_a, stats_b = {}, {}
    if want("A"):
        # longest first for load balance
        order = sorted(range(len(inst)), key=lambda k: -C.max_words(inst[k][0], A.NAMINGS[inst[k][1]], inst[k][2]))
        res = common.parallel_map(C.run_instance, [inst[k] for k in order], nproc)
        _apply(run, res, "instance", stats_a)
        print(f"  part A: {len(inst)} instances over {len(sigs)} signatures in {time.time() - t0:.0f}s", flush=True)
        if not stats_a.get("length_words") or not stats_a.get("offset_words"):
            run.harness_error("vacuous: no instance exercised dynamic types")
        for e in [x for x in inst[:1]]:
            run.sample({"instance": C.inst_key(e[0], e[1], e[2])})
        for e in inst[len(inst) // 2: len(inst) // 2 + 3]:
            run.sample({"instance": C.inst_key(e[0], e[1], e[2])})
    t1 = time.time()
    scns = build_scenarios(tier, sigs)
    if want("B"):
        scns_sorted = sorted(scns, key=lambda s: -sum(X.n_combos(p, n, s["cfg"])[0] for p, n, _ in s["seq"]))
        res = common.parallel_map(X.run_scenario, scns_sorted, nproc)
        _apply(run, res, "scenario", stats_b)
        print(f"  part B: {len(scns)} scenarios, {stats_b.get('functions_explored', 0)} functions, "
              f"{stats_b.get('paths', 0)} paths in {time.time() - t1:.0f}s", flush=True)
        if not stats_b.get("functions_with_2plus_dyn_params") or not stats_b.get("functions_run_after_another_with_same_config"):
            run.harness_error("vacuous: exploration part did not exercise >=2 dynamic parameters / sequences")
        run.sample({"scenario": {"cfg": scns[0]["cfg"], "seq": [A.fun_sig("f", p) for p, _, _ in scns[0]["seq"]]}})
    n_unsup = 0
    if want("C"):
        n_unsup = check_unsupported(run)
    if want("E"):
        from lib import c12_createcd

        seen = set()
        for st, cls, key, text, wit in common.parallel_map(c12_createcd.run_all, [None], 1)[0]:
            if st == "ok":
                run.ok(cls, key)
            elif st == "inconc":
                run.inconc(cls, key, text)
            elif st == "violation":
                if key not in seen:
                    seen.add(key)
                    # replay: the same call once more on fresh objects
                    again = [x for x in c12_createcd.run_all() if x[0] == "violation" and x[2] == key]
                    if again:
                        run.violation(cls, key, text, wit)
                    else:
                        run.inconc(cls, key, "did not reproduce: " + text[:200])
            else:
                run.harness_error(f"createCalldata part: {text}")
        run.functions_encoded.append("halmos.cheatcodes.create_calldata_generic (svm.createCalldata)")
    if want("D"):
        uid_diagnostic(run)
    if want("P"):
        t2 = time.time()
        route_p(run, tier)
        print(f"  route P in {time.time() - t2:.0f}s", flush=True)

    import collections
    run.bounds = {
        "signatures": len(sigs),
        "instances (signature x naming x configuration)": len(inst),
        "signature_depth_histogram": dict(collections.Counter(max(A.depth(p) for p in s) for s in sigs)),
        "signature_arity_histogram": dict(collections.Counter(len(s) for s in sigs)),
        "types": "uint8,uint256,int128,address,bool,bytes4,bytes32,bytes,string,T[],T[k] (k in 1..3),tuples (arity 1..3)",
        "nesting": "<= 3 composite constructors below a parameter; <= 3 parameters (one hand-picked signature with 4)",
        "enumeration": "hand-picked list + exhaustive depth<=1 (thorough; every 9th/5th in quick) + seeded pseudo-random "
                       "depth 2/3 trees (random.Random(0xC12+VERIF_SEED))",
        "default_array_lengths": DALS, "default_bytes_lengths": DBLS, "loop": LOOPS,
        "array_lengths": "none | first dynamic node unsorted {2,1}/{33,2} | every node a list from "
                         f"{ARR_LISTS}/{BYT_LISTS} | last node {{3,1}}/{{40,7}}; nested names such as p0[1], p0.p0_1",
        "namings": "named (p0, p0_1), unnamed (all names empty), half (parameters named, struct members unnamed)",
        "size_cap_words": 1200 if tier == "quick" else 2500,
        "assignments": f"all combinations when <= {C.MAX_ASSIGN}, else {C.MAX_ASSIGN} (all-max, all-min, single deviations, "
                       f"fixed-stride walk)",
        "exploration": f"{len(scns)} scenarios (shared config object, 2..5 functions each), <= {X.MAX_COMBOS} combinations per "
                       f"function, callee = CALLDATALOAD of every length word",
        "route_P": "encode_tuple arity 1..4, item sizes 0..2^20, static flags symbolic",
    }
    run.extra["part_A_stats"] = stats_a
    run.extra["part_B_stats"] = stats_b
    run.extra["unsupported_signatures_rejected"] = n_unsup
    run.extra["convention_static_leaves"] = (
        "halmos gives every static elementary parameter one unconstrained 256-bit constant (high bits symbolic, no range "
        "constraint): verified as 'every Solidity-admissible (clean) value is an instance'; dirty high bits are additional "
        f"inputs. whole-256-bit-constant leaves: {stats_a.get('static_leaves_whole_256bit_constant', 0)} of "
        f"{stats_a.get('static_leaves', 0)}")
    run.extra["convention_padding"] = (
        "padding bytes of bytes/string tails are the low bytes of the content symbol: unconstrained, disjoint from every "
        f"leaf (symbolic paddings seen: {stats_a.get('paddings_symbolic', 0)}, concrete: "
        f"{stats_a.get('paddings_concrete', 0)}); zero padding (strict ABI) is an instance")
    run.extra["explanation"] = (
        "Obligations are decided on the z3 terms returned by the real mk_calldata / SEVM; shapes and candidate lists are "
        "enumerated bounds, argument values and symbols stay symbolic. The generalized encoding for a non-maximal length is "
        "a valid non-canonical ABI encoding (unused element slots remain between tails).")
    run.assumptions = [
        "A-uid: halmos.utils.uid() values drawn inside one mk_calldata call are pairwise distinct (28-bit random; equal "
        "values would merge equally named, equally typed leaves - see uid_constant_diagnostic)",
        "C07: ByteVec.get_word/slice read a flat byte array (the calldata is observed through them, as CALLDATALOAD/COPY do)",
        "--loop does not influence calldata (the comment in calldata.py that arrays range over 0..--loop is stale): verified "
        "only as 'size_choices equal the --default-array-lengths list for every --loop value tried'",
        "type strings accepted by parse_type but not valid ABI (uint7, bytes33, uint0) are outside the claim",
    ]


if __name__ == "__main__":
    common.guarded_main("C12", "proof", main)
