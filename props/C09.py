"""C09 — message calls are atomic and see the right context (DESIGN §1 C09).

Obligations O1 (soundness) and O2 (coverage) on call-tree programs: generated trees over a pool of callees (context
reporter, state mutator that returns / reverts / INVALID / out-of-bounds RETURNDATACOPY by calldata, short returner,
nested forwarder, empty account), every call kind, symbolic values; creations with failing constructors; and a table
of hand-written corner cases (each state-modifying instruction inside a static frame, inherited static flag, self
transfer, per-kind context, depth-4 chains, creation rolled back by a revert).  After the top frame the program itself
reads storage, transient storage and balances of all involved accounts, so the compared output bytes contain flags,
return data, rollback state and balances (conservation is implied by per-account equality with the reference).
"""

from __future__ import annotations

import os
import sys

sys.path.insert(0, os.path.dirname(os.path.dirname(os.path.abspath(__file__))))

from lib import common, families, progcheck  # noqa: E402


def main(run: common.Run):
    tier = run.tier
    n = 30 if tier == "quick" else 1200
    run.bounds = {"generated_trees": n, "solver_cap_s": 20 if tier == "quick" else 120, "max_depth": 4,
                  "frames_per_tree": "<= 6", "calldata": "selector + 2..3 symbolic words"}
    run.functions_encoded = ["halmos.sevm.SEVM.call", "halmos.sevm.SEVM.create", "halmos.sevm.SEVM.transfer_value",
                             "halmos.sevm.SEVM.handle_insufficient_fund_case", "halmos.sevm.copy_returndata_to_memory",
                             "halmos.sevm.SEVM.run (RETURN/REVERT/INVALID/STATICCALL write protection)"]
    run.assumptions = families.ASSUMPTIONS
    only = set(run.args.only.split(",")) if run.args.only else None
    plist = []
    if not only or "F6" in only or "F6c" in only:
        want = {"F6", "F6c"} if not only else (only & {"F6", "F6c"})
        plist += families.programs(run.seed + 1000, n, tier, only=want)
    if not only or "c09" in only:
        plist += families.specials_c09()
    stats = progcheck.run_programs(run, plist, want=("O1", "O2"), observers=families.LOG_OBSERVERS)
    run.extra.update(stats)
    run.extra["rule"] = ("one obligation per (program, halmos path, reference path, observation) [O1] or (program, "
                         "reference path) [O2]; each is a solver query over all values of the symbolic inputs")
    if stats.get("multi_path", 0) == 0 and not only:
        run.harness_error("vacuity: no call tree produced more than one path")


if __name__ == "__main__":
    common.guarded_main("C09", "proof", main, generic_replay=True)
