"""C03 — PASS means no admissible input violates the test, end to end (DESIGN §1 C03).

Generated test contracts (setUp + check_* functions with static and dynamic parameters, guarded failures) run through
the real `run_contract`; the ground truth "some admissible argument tuple reaches a configured Panic code, a failed
vm.assert or the failure flag" is decided by the solver portfolio on the paths of the independent reference EVM from
the post-setUp state.  Obligation: a clean PASS implies every such query is unsat; a satisfiable one means the verdict
must not be PASS.  A violating witness is replayed concretely on the reference before it is reported.
"""

from __future__ import annotations

import os
import sys

sys.path.insert(0, os.path.dirname(os.path.dirname(os.path.abspath(__file__))))

from lib import common, e2echeck, e2egen  # noqa: E402


def main(run: common.Run):
    n = 6 if run.tier == "quick" else 60
    run.bounds = {"contracts": n, "functions_per_contract": 8, "guard_atoms": "1..3", "bytes_lengths": e2egen.BYTES_LENS,
                  "array_lengths": e2egen.ARRAY_LENS, "configs": [c["name"] for c in e2echeck.CONFIGS],
                  "solver_cap_s": 20 if run.tier == "quick" else 90}
    run.functions_encoded = ["halmos.__main__.run_contract", "halmos.__main__.setup", "halmos.__main__.run_test",
                             "halmos.__main__.CounterexampleHandler", "halmos.solve.solve_end_to_end", "halmos.solve.refine",
                             "halmos.calldata.mk_calldata", "halmos.sevm.SEVM.run"]
    run.assumptions = ["admissible inputs = ABI-valid values of the parameter types with dynamic lengths among the "
                       "candidates halmos prints as bounds", "A1-A4 of DESIGN §0.1",
                       "test functions read dynamic parameters through their head offsets (as Solidity does)"]
    stats = e2echeck.run_suite(run, ("C03",), n)
    run.extra.update(stats)
    run.extra["rule"] = ("one obligation per (test function, configuration): the ground truth is a set of sat/unsat "
                         "queries over all admissible argument values; halmos' verdict must be consistent with it")
    if not stats.get("pass") or not stats.get("fail"):
        run.harness_error(f"vacuity: verdict mix {stats}")
    if not stats.get("truth_fails") or not stats.get("truth_safe"):
        run.harness_error(f"vacuity: ground truth mix {stats}")


if __name__ == "__main__":
    common.guarded_main("C03", "proof", main, generic_replay=True)
